#!/usr/bin/env python3
"""C17 replay driver.  Runs INSIDE the sandbox made by ns_enter.sh (private mount namespace, overlayfs over
/etc /usr /var ..., stand-in systemctl) and nowhere else: it refuses to start unless /etc, /usr and /var are the
check's overlays (layout "separate") or / is the check's single root overlay (layout "samefs": the tool's folder
is /var/lib/waagent/verif-c17-setup on the SAME mount as /etc/azure, /usr/sbin, /usr/lib/azure-proxy-agent and
/usr/lib/systemd/system, so link(2) between them succeeds; a probe at start-up proves it, or that it fails with
EXDEV in the "separate" layout, and writes <scratch>/layout.json).  For each behaviour of spec/gen/SetupGen.tla it

  1. puts the file system in the behaviour's initial state with fresh random file contents per version
     (system locations, setup folder with the packaged files, Backup folder, sentinel files = "the rest"),
  2. runs the REAL proxy_agent_setup binary once per command,
  3. after each command projects the file system onto the abstract state of Setup.tla: content id or "absent"
     for each system location / backup file / packaged file, whether the Backup folder exists, the systemctl
     call log with the snapshot each call saw, and "r0" for the rest iff nothing else changed (sentinels,
     everything new in the overlays' upper layers, the setup folder outside Backup and the log);
  4. optionally traces the command with strace and reports the order of `systemctl stop/start` relative to
     the first/last mutation of a system location and every mutation outside the allowed places.

usage: replay.py <job.json> <out.ndjson>      (paths under the scratch directory)
"""
import hashlib
import json
import os
import random
import re
import shutil
import signal
import stat
import subprocess
import sys

LOCS = ("exe", "cfg", "ebpf", "unit")
SYS_PATH = {
    "exe": "/usr/sbin/azure-proxy-agent",
    "cfg": "/etc/azure/proxy-agent.json",
    "ebpf": "/usr/lib/azure-proxy-agent/ebpf_cgroup.o",
    "unit": "/usr/lib/systemd/system/azure-proxy-agent.service",
}
SYS_DIRS_MAY_CREATE = ("/etc/azure", "/usr/lib/azure-proxy-agent")
HERE = os.path.dirname(os.path.abspath(__file__))
ARGV = {
    "backup": ["backup"], "install": ["install"], "restoreT": ["restore"], "restoreF": ["restore", "false"],
    "uninstallS": ["uninstall", "service"], "uninstallP": ["uninstall", "package"], "purge": ["purge"],
}


def die(msg, rc=3):
    sys.stderr.write("replay.py: %s\n" % msg)
    sys.exit(rc)


def sha_file(p):
    h = hashlib.sha256()
    with open(p, "rb") as f:
        while True:
            b = f.read(1 << 16)
            if not b:
                break
            h.update(b)
    return h.hexdigest()


SAMEFS_SETUP = "/var/lib/waagent/verif-c17-setup"


def check_sandbox(S, layout):
    if os.environ.get("VERIF_C17_SANDBOX") != S:
        die("not started by ns_enter.sh")
    if os.environ.get("VERIF_C17_LAYOUT", "separate") != layout:
        die("ns_enter.sh built layout %r, the job wants %r" % (os.environ.get("VERIF_C17_LAYOUT"), layout))
    with open("/proc/self/mounts") as f:
        m = f.read()
    if layout == "samefs":
        # chroot-ed into the single overlay: the mount table shows it at /, its upper layer on this run's tmpfs
        if not re.search(r"^verif-c17-root / overlay .*lowerdir=/,upperdir=%s/ov/up," % re.escape(S), m, re.M):
            die("/ is not this run's root overlay; refusing to run the setup tool")
        if not re.search(r"^verif-c17-upper %s/ov tmpfs " % re.escape(S), m, re.M):
            die("%s/ov is not this run's tmpfs; refusing to run the setup tool" % S)
        if os.stat("/").st_dev != os.stat("/etc").st_dev or os.stat("/").st_dev != os.stat("/usr/sbin").st_dev \
                or os.stat("/").st_dev != os.stat("/var/lib").st_dev:
            die("/etc, /usr/sbin, /var/lib are not on the root overlay")
    elif layout == "separate":
        for d in ("etc", "usr", "var"):
            if not re.search(r"^verif-c17-%s /%s overlay .*upperdir=%s/ov/%s/up" % (d, d, re.escape(S), d), m, re.M):
                die("/%s is not this run's overlay; refusing to run the setup tool" % d)
    else:
        die("unknown layout %r" % layout)
    with open("/usr/bin/systemctl", "rb") as f, open(os.path.join(HERE, "systemctl"), "rb") as g:
        if f.read() != g.read():
            die("/usr/bin/systemctl is not the stand-in")


class ToolTimeout(Exception):
    def __init__(self, argv, timeout, diag):
        Exception.__init__(self, "setup tool timed out after %ss: %s" % (timeout, argv))
        self.argv, self.timeout, self.diag = argv, timeout, diag


class World:
    def __init__(self, S, setup_bin, layout="separate"):
        self.S = S
        self.layout = layout
        self.setup = SAMEFS_SETUP if layout == "samefs" else os.path.join(S, "setup")
        self.pa = os.path.join(self.setup, "ProxyAgent")
        self.bk = os.path.join(self.pa, "Backup")
        self.tool = os.path.join(self.setup, "proxy_agent_setup")
        self.syslog = os.path.join(S, "systemctl.log")
        self.template = open(os.path.join(HERE, "azure-proxy-agent.in")).read()
        shutil.rmtree(self.setup, ignore_errors=True)
        os.makedirs(self.setup)
        shutil.copy2(setup_bin, self.tool)
        os.chmod(self.tool, 0o755)
        self.pkg_path = {"exe": os.path.join(self.pa, "azure-proxy-agent"),
                         "cfg": os.path.join(self.pa, "proxy-agent.json"),
                         "ebpf": os.path.join(self.pa, "ebpf_cgroup.o"),
                         "unit": os.path.join(self.setup, "azure-proxy-agent.service")}
        self.bak_path = {"exe": os.path.join(self.bk, "Package", "azure-proxy-agent"),
                         "cfg": os.path.join(self.bk, "Package", "proxy-agent.json"),
                         "ebpf": os.path.join(self.bk, "Package", "ebpf_cgroup.o"),
                         "unit": os.path.join(self.bk, "azure-proxy-agent.service")}
        if layout == "samefs":
            self.uppers = [("", os.path.join(S, "ov", "up"))]          # one upper layer for the whole root
        else:
            self.uppers = [("/" + d, os.path.join(S, "ov", d, "up")) for d in sorted(os.listdir(os.path.join(S, "ov")))]
        # a neighbour of the tool's folder (same parent, same file system) that no command may touch
        self.sibling = os.path.join(os.path.dirname(self.setup), "verif-c17-sibling") if layout == "samefs" \
            else os.path.join(S, "sibling")
        self.env = dict(os.environ)
        self.env["VERIF_SYSTEMCTL_LOG"] = self.syslog
        self.env["PATH"] = os.path.join(S, "bin") + ":" + os.environ.get("PATH", "/usr/bin:/bin")

    # ---- the environment dimension -----------------------------------------------------------
    def probe_links(self):
        """link(2) from the tool's Backup/Package folder into each system directory: must succeed for all four in the
        "samefs" layout (vacuity guard: otherwise the layout does not exercise what it is for) and fail with EXDEV
        for all four in the "separate" layout.  Leaves nothing behind."""
        import errno
        src_dir = os.path.join(self.bk, "Package")
        os.makedirs(src_dir, exist_ok=True)
        src = os.path.join(src_dir, "verif-c17-link-probe")
        with open(src, "wb") as f:
            f.write(b"probe")
        res = {}
        made = []
        for loc in LOCS:
            d = os.path.dirname(SYS_PATH[loc])
            if not os.path.isdir(d):
                top = d
                while not os.path.isdir(os.path.dirname(top)):
                    top = os.path.dirname(top)
                os.makedirs(d)
                made.append(top)
            dst = os.path.join(d, "verif-c17-link-probe")
            try:
                os.link(src, dst)
                same = os.path.samefile(src, dst)
                os.unlink(dst)
                res[d] = "linked" if same else "linked-but-not-the-same-inode"
            except OSError as ex:
                res[d] = errno.errorcode.get(ex.errno, str(ex.errno))
        os.unlink(src)
        for d in made:
            shutil.rmtree(d)
        shutil.rmtree(self.pa, ignore_errors=True)
        want = "linked" if self.layout == "samefs" else "EXDEV"
        with open(os.path.join(self.S, "layout.json"), "w") as f:
            json.dump({"layout": self.layout, "setup_folder": self.setup, "link_into": res,
                       "as_intended": all(v == want for v in res.values())}, f)
        if any(v != want for v in res.values()):
            die("layout %s: link from %s into the system directories gave %r, wanted %s everywhere"
                % (self.layout, src_dir, res, want))

    def step_clock(self, shift):
        """The wall clock is stepped between two commands, as the next command can see it: every file and directory of
        the tool's world (the four system locations and the directories the tool may create, the tool's folder with
        package, Backup and log, its neighbour) gets its access / modification time moved by `shift` seconds --
        +180 = the clock was stepped back 3 minutes (everything written before the step now carries a time in the
        future), -8 days = 8 days have passed.  Contents, modes and names are untouched; ctime cannot be set (it
        becomes `now`, as for any file touched after a step)."""
        seen = set()

        def touch(p):
            if p in seen:
                return
            seen.add(p)
            try:
                st = os.lstat(p)
                os.utime(p, ns=(st.st_atime_ns + int(shift * 1e9), st.st_mtime_ns + int(shift * 1e9)), follow_symlinks=False)
            except (FileNotFoundError, NotImplementedError):
                pass

        tops = [self.setup, self.sibling] + list(SYS_DIRS_MAY_CREATE)
        for top in tops:
            for root, dirs, files in os.walk(top):
                for n in files + dirs:
                    touch(os.path.join(root, n))
            if os.path.lexists(top):
                touch(top)
        for loc in LOCS:
            touch(SYS_PATH[loc])
        return len(seen)

    def backup_age(self):
        """diagnostic: now - mtime of the backed-up executable, in seconds (negative: in the future)"""
        import time
        try:
            return round(time.time() - os.lstat(self.bak_path["exe"]).st_mtime, 1)
        except OSError:
            return None

    # ---- concretisation -------------------------------------------------------------------
    def make_contents(self, rnd, versions):
        """random bytes for every (version, location); distinct per location"""
        cont = {}
        for loc in LOCS:
            seen = set()
            for k, v in enumerate(versions):
                while True:
                    if loc == "exe":
                        nonce = "".join(rnd.choice("0123456789abcdef") for _ in range(rnd.choice([8, 40, 300, 5000])))
                        b = (self.template.replace("@VERSION@", "1.%d.%d" % (k, rnd.randrange(1000)))
                             .replace("@NONCE@", nonce)).encode()
                    else:
                        n = rnd.choice([1, 2, 17, 300, 4096, 4097, 70000])
                        b = rnd.randbytes(min(n, 4097))
                        if n > 4097:
                            b = b * (n // len(b))
                    if b not in seen:
                        seen.add(b)
                        break
                cont[(v, loc)] = b
        self.cont = cont
        self.ident = {loc: {} for loc in LOCS}
        for (v, loc), b in cont.items():
            self.ident[loc][hashlib.sha256(b).hexdigest()] = v

    def put(self, path, data, mode):
        os.makedirs(os.path.dirname(path), exist_ok=True)
        if os.path.lexists(path):
            os.unlink(path)
        with open(path, "wb") as f:
            f.write(data)
        os.chmod(path, mode)

    def reset(self, init, rnd):
        versions = sorted({init[k][l] for k in ("sys", "bak", "pkg") for l in LOCS} - {"absent"})
        self.make_contents(rnd, versions)
        # system locations
        installed = any(init["sys"][l] != "absent" for l in LOCS)
        for loc in LOCS:
            p = SYS_PATH[loc]
            if os.path.lexists(p):
                os.unlink(p)
        for d in SYS_DIRS_MAY_CREATE:
            shutil.rmtree(d, ignore_errors=True)
        for loc in LOCS:
            v = init["sys"][loc]
            if v != "absent":
                self.put(SYS_PATH[loc], self.cont[(v, loc)], 0o755 if loc == "exe" else 0o644)
        # setup folder: packaged files, backup
        shutil.rmtree(self.pa, ignore_errors=True)
        for e in os.listdir(self.setup):
            if e != "proxy_agent_setup":
                p = os.path.join(self.setup, e)
                shutil.rmtree(p) if os.path.isdir(p) and not os.path.islink(p) else os.unlink(p)
        os.makedirs(self.pa)
        for loc in LOCS:
            v = init["pkg"][loc]
            if v != "absent":
                self.put(self.pkg_path[loc], self.cont[(v, loc)], 0o755 if loc == "exe" else 0o644)
        if init["bdir"]:
            os.makedirs(os.path.join(self.bk, "Package"))
        for loc in LOCS:
            v = init["bak"][loc]
            if v != "absent":
                self.put(self.bak_path[loc], self.cont[(v, loc)], 0o755 if loc == "exe" else 0o644)
        # the rest: sentinels next to every place the tool writes, and elsewhere
        shutil.rmtree(self.sibling, ignore_errors=True)
        sent = ["/usr/sbin/verif-c17-sentinel", "/usr/lib/systemd/system/verif-c17-sentinel.service",
                "/etc/verif-c17-sentinel", "/var/lib/verif-c17-sentinel", "/var/log/verif-c17-sentinel",
                "/tmp/verif-c17-sentinel", "/root/verif-c17-sentinel", "/usr/lib/verif-c17-sentinel",
                os.path.join(self.setup, "verif-c17-sentinel"), os.path.join(self.pa, "verif-c17-sentinel"),
                os.path.join(self.setup, "azure-proxy-agent.service.verif-c17-sentinel"),
                os.path.join(self.sibling, "ProxyAgent", "Backup", "Package", "azure-proxy-agent"),
                os.path.join(self.sibling, "file")]
        if installed:
            sent += ["/etc/azure/verif-c17-sentinel.json", "/usr/lib/azure-proxy-agent/verif-c17-sentinel.o"]
        self.sentinels = {}
        for p in sent:
            data = rnd.randbytes(rnd.choice([1, 64, 1000]))
            self.put(p, data, 0o644)
            self.sentinels[p] = hashlib.sha256(data).hexdigest()
        open(self.syslog, "w").close()
        self.base_rest = self.scan_rest()

    # ---- projection -----------------------------------------------------------------------
    def ident_of(self, path, loc):
        try:
            st = os.lstat(path)
        except FileNotFoundError:
            return "absent"
        if not stat.S_ISREG(st.st_mode):
            return "x:not-a-regular-file"
        h = sha_file(path)
        if h in self.ident[loc]:
            return self.ident[loc][h]
        for l2 in LOCS:
            if h in self.ident[l2]:
                return "x:%s-of-%s" % (l2, self.ident[l2][h])
        return "x:" + h[:12]

    def scan_rest(self):
        """everything that is neither a system location, nor the Backup folder, nor the tool's log,
        nor a packaged file (those are projected separately)"""
        items = {}
        skip_files = set(SYS_PATH.values())
        for d, up in self.uppers:
            for root, dirs, files in os.walk(up):
                rel = d + root[len(up):]
                if self.layout == "samefs":
                    # the tool's folder is inside the overlay: it is listed below, with the scratch directory; the
                    # mount points of ns_enter.sh (device nodes, /proc) are not files of the tool's world
                    dirs[:] = [x for x in dirs if rel + "/" + x != self.setup and rel + "/" + x != "/proc"]
                    if rel == "/dev":
                        files = [x for x in files if x not in ("null", "zero", "urandom", "random")]
                for n in dirs:
                    # a directory copied up from the lower layer carries trusted.overlay.origin; one without it
                    # was created inside the sandbox (the lower layers are live: never list the merged view)
                    fp = os.path.join(root, n)
                    if os.path.islink(fp) or rel + "/" + n in SYS_DIRS_MAY_CREATE:
                        continue
                    try:
                        if "trusted.overlay.origin" not in os.listxattr(fp):
                            items[rel + "/" + n + "/"] = "newdir"
                    except OSError:
                        pass
                for n in files + [x for x in dirs if os.path.islink(os.path.join(root, x))]:
                    p = rel + "/" + n
                    if p in skip_files:
                        continue
                    fp = os.path.join(root, n)
                    st = os.lstat(fp)
                    if stat.S_ISREG(st.st_mode):
                        items[p] = "f:%s:%o" % (sha_file(fp), stat.S_IMODE(st.st_mode))
                    else:
                        items[p] = "t:%o:%d" % (stat.S_IFMT(st.st_mode), st.st_rdev)   # whiteouts, links, ...
        # the scratch directory outside the overlays
        pk = set(self.pkg_path.values())
        tops = [self.S] if self.setup.startswith(self.S + "/") else [self.S, self.setup]
        for root, dirs, files in (x for top in tops for x in os.walk(top)):
            if root == self.S:
                dirs[:] = [x for x in dirs if x not in ("ov", "bin", "root")]
            if root == self.pa:
                dirs[:] = [x for x in dirs if x != "Backup"]
            for n in files:
                fp = os.path.join(root, n)
                if fp in pk or fp == self.syslog or fp == self.tool:
                    continue
                if root == self.S and (n.startswith("job") or n.startswith("out") or n.startswith("strace")
                                       or n == "layout.json"):
                    continue
                if root == self.setup and re.match(r"^setup.*\.log$", n):
                    continue                                   # the tool's own log
                items[fp] = "f:" + sha_file(fp)
            for n in dirs:
                items[os.path.join(root, n) + "/"] = "d"
        return items

    def observe(self):
        o = {"sys": {l: self.ident_of(SYS_PATH[l], l) for l in LOCS},
             "bak": {l: self.ident_of(self.bak_path[l], l) for l in LOCS},
             "pkg": {l: self.ident_of(self.pkg_path[l], l) for l in LOCS},
             "bdir": os.path.isdir(self.bk)}
        # unexpected entries inside the Backup folder are part of the backup projection
        extra = []
        if o["bdir"]:
            known = set(self.bak_path.values())
            for root, dirs, files in os.walk(self.bk):
                for n in files:
                    if os.path.join(root, n) not in known:
                        extra.append(os.path.relpath(os.path.join(root, n), self.bk))
        if extra:
            o["bak_extra"] = sorted(extra)
        now = self.scan_rest()
        if now == self.base_rest:
            o["rest"] = "r0"
        else:
            diff = sorted(k for k in set(now) | set(self.base_rest) if now.get(k) != self.base_rest.get(k))
            o["rest"] = "changed:%s:%s" % (hashlib.sha256(repr([(k, now.get(k)) for k in diff]).encode()).hexdigest()[:8],
                                           ",".join(diff[:6]))
        tool_ok = os.path.exists(self.tool)
        if not tool_ok:
            o["rest"] = (o["rest"] if o["rest"] != "r0" else "changed:") + ",setup-tool-removed"
        o["exe_mode_x"] = bool(os.path.exists(SYS_PATH["exe"]) and os.access(SYS_PATH["exe"], os.X_OK))
        # diagnostic, not judged: locations whose backup file IS the live file (one inode, two names)
        shared = []
        for l in LOCS:
            try:
                if os.path.samefile(SYS_PATH[l], self.bak_path[l]):
                    shared.append(l)
            except OSError:
                pass
        if shared:
            o["bak_is_live_inode"] = shared
        return o

    def read_calls(self):
        calls = []
        with open(self.syslog) as f:
            for line in f:
                line = line.rstrip("\n")
                if not line:
                    continue
                argv, _, snap = line.partition("\t")
                parts = argv.split()
                hs = snap.split()
                s = {}
                for l, h in zip(LOCS, hs):
                    if h == "-":
                        s[l] = "absent"
                    elif h in self.ident[l]:
                        s[l] = self.ident[l][h]
                    else:
                        s[l] = "x:" + h[:12]
                verb = parts[0] if parts else "?"
                unit_ok = (verb == "daemon-reload" and len(parts) == 1) or (len(parts) == 2 and parts[1] == "azure-proxy-agent")
                calls.append({"v": verb if unit_ok else "x:" + argv, "s": s})
        open(self.syslog, "w").close()
        return calls

    # ---- execution ------------------------------------------------------------------------
    def run_cmd(self, argv, trace, timeout=60):
        cmd = [self.tool] + argv
        tr = None
        if trace:
            tr = os.path.join(self.S, "strace.out")
            cmd = ["strace", "-f", "-y", "-qq", "-s", "300", "-o", tr, "-e",
                   "trace=execve,open,openat,creat,rename,renameat,renameat2,unlink,unlinkat,mkdir,mkdirat,rmdir,"
                   "symlink,symlinkat,link,linkat,chmod,fchmodat,truncate,chown,fchownat,lchown"] + cmd
        # own session / process group (so that everything the tool spawned can be killed), no stdin to wait on
        proc = subprocess.Popen(cmd, env=self.env, cwd=self.setup, stdin=subprocess.DEVNULL, stdout=subprocess.PIPE,
                                stderr=subprocess.STDOUT, start_new_session=True)
        try:
            stdout, _ = proc.communicate(timeout=timeout)
        except subprocess.TimeoutExpired:
            diag = self.group_diag(proc.pid)
            try:
                os.killpg(proc.pid, signal.SIGKILL)
            except ProcessLookupError:
                pass
            try:
                proc.communicate(timeout=30)
            except subprocess.TimeoutExpired:
                proc.kill()
            raise ToolTimeout(argv, timeout, diag)
        p = subprocess.CompletedProcess(cmd, proc.returncode, stdout)
        out = p.stdout.decode("utf-8", "replace")
        r = {"exit": p.returncode, "out_tail": out[-400:]}
        pl = [ln for ln in out.splitlines() if "panicked at" in ln]
        if pl:
            k = out.splitlines().index(pl[0])
            r["panic"] = " | ".join(out.splitlines()[k:k + 2])[:400]
        if trace:
            r["strace"] = self.parse_strace(tr)
        return r

    @staticmethod
    def group_diag(pgid):
        """what the processes of a hung command were doing (for the evidence): comm, state, wchan, cmdline"""
        rows = []
        for d in os.listdir("/proc"):
            if not d.isdigit():
                continue
            try:
                with open("/proc/%s/stat" % d) as f:
                    st = f.read()
                rest = st[st.rindex(")") + 2:].split()
                if int(rest[2]) != pgid:            # field 5 of stat = process group
                    continue
                comm = st[st.index("(") + 1:st.rindex(")")]
                try:
                    with open("/proc/%s/wchan" % d) as f:
                        wchan = f.read().strip()
                except OSError:
                    wchan = "?"
                with open("/proc/%s/cmdline" % d, "rb") as f:
                    cl = f.read().replace(b"\0", b" ").decode("utf-8", "replace")[:120]
                rows.append({"pid": int(d), "comm": comm, "state": rest[0], "wchan": wchan, "cmdline": cl})
            except (OSError, ValueError):
                continue
        try:
            with open("/proc/loadavg") as f:
                rows.append({"loadavg": f.read().strip()})
        except OSError:
            pass
        return rows[:20]

    def parse_strace(self, path):
        """order of stop/start vs mutations of the system locations; mutations outside the allowed places"""
        allowed_prefix = (self.bk + "/", "/proc/", "/dev/")
        allowed_exact = set(SYS_PATH.values()) | set(SYS_DIRS_MAY_CREATE) | {self.bk, self.syslog, "/dev/null", "/dev/tty"}
        ev = []
        outside = []
        # the tool is multi-threaded: a call interrupted by another thread's output is printed in two pieces
        # ("<unfinished ...>" / "<... name resumed>"); they are joined and placed where the call STARTED
        # (program order of the tool's sequential main task is the order of the starts)
        lines, pending = [], {}
        with open(path, errors="replace") as f:
            for raw in f:
                m = re.match(r"^(\d+)\s+(.*)$", raw.rstrip("\n"))
                if not m:
                    continue
                pid, rest = m.group(1), m.group(2)
                if rest.endswith("<unfinished ...>"):
                    pending[pid] = len(lines)
                    lines.append([pid, rest[:-len("<unfinished ...>")].rstrip()])
                    continue
                m2 = re.match(r"^<\.\.\. (\w+) resumed>\s*(.*)$", rest)
                if m2:
                    if pid in pending:
                        i = pending.pop(pid)
                        lines[i][1] = lines[i][1] + m2.group(2)
                    continue
                lines.append([pid, rest])
        line_re = re.compile(r"^(\w+)\((.*)\)\s+=\s+(-?\d+|\?)")
        if True:
            for pid, line in lines:
                m = line_re.match(line)
                if not m:
                    continue
                sc, args, ret = m.group(1), m.group(2), m.group(3)
                if ret == "?" or int(ret) < 0:
                    continue
                # (dirfd, "path") pairs: with -y a descriptor prints as N</its/path>; AT_FDCWD is the tool's cwd
                paths = []
                for m2 in re.finditer(r'(?:(AT_FDCWD)(?:<[^>]*>)?,\s*|\d+<([^>]*)>,\s*)?"((?:[^"\\]|\\.)*)"', args):
                    base = m2.group(2) if m2.group(2) is not None else self.setup
                    q = m2.group(3)
                    paths.append(q if q.startswith("/") else os.path.normpath(os.path.join(base, q)))
                if sc == "execve":
                    if paths and paths[0].endswith("/systemctl"):
                        am = re.search(r'\[(.*?)\]', args)
                        argv = re.findall(r'"((?:[^"\\]|\\.)*)"', am.group(1)) if am else []
                        if len(argv) >= 3 and argv[0] in ("/bin/sh", "sh"):
                            argv = argv[1:]
                        ev.append(("systemctl", argv[1] if len(argv) > 1 else "?"))
                    continue
                if sc in ("open", "openat", "creat"):
                    if sc != "creat" and not re.search(r"O_WRONLY|O_RDWR|O_CREAT|O_TRUNC|O_APPEND", args):
                        continue
                    tgt = paths[:1]
                elif sc in ("rename", "renameat", "renameat2"):
                    tgt = paths                 # the old name disappears, the new one is replaced
                elif sc in ("link", "linkat", "symlink", "symlinkat"):
                    tgt = paths[-1:]            # only the new name is created; the file linked to is not altered
                else:
                    tgt = paths[:1]
                for p in tgt:
                    if p in SYS_PATH.values():
                        ev.append(("mut", p))
                    is_log = os.path.dirname(p) == self.setup and re.match(r"^setup.*\.log$", os.path.basename(p))
                    if not (p in allowed_exact or p.startswith(allowed_prefix) or is_log):
                        outside.append("%s %s" % (sc, p))
        muts = [i for i, e in enumerate(ev) if e[0] == "mut"]
        stops = [i for i, e in enumerate(ev) if e == ("systemctl", "stop")]
        starts = [i for i, e in enumerate(ev) if e == ("systemctl", "start")]
        # for every systemctl call: had a system location already been written / removed when it was executed?
        w, seen = [], False
        for e in ev:
            if e[0] == "mut":
                seen = True
            else:
                w.append(seen)
        return {"mutations": len(muts), "w": w, "unresumed": len(pending),
                "stop_before_first_mutation": (not muts) or (bool(stops) and stops[0] < muts[0]),
                "start_after_last_mutation": (not muts) or (not starts) or starts[-1] > muts[-1],
                "systemctl": [e[1] for e in ev if e[0] == "systemctl"],
                "outside": sorted(set(outside))[:10]}


def main():
    job_path, out_path = sys.argv[1], sys.argv[2]
    with open(job_path) as f:
        job = json.load(f)
    S = job["scratch"]
    layout = job.get("layout", "separate")
    check_sandbox(S, layout)
    w = World(S, job["setup_bin"], layout)
    w.probe_links()
    argv_of = dict(ARGV)
    argv_of.update(job.get("argv", {}))
    def run_behaviour(b, timeout):
        rnd = random.Random("%s/%s" % (job["seed"], b["id"]))
        w.reset(b["init"], rnd)
        rec = {"id": b["id"], "init": w.observe(), "steps": []}
        clock = b.get("clock")           # {"after": index of the command after which the clock is stepped (-1: before the first), "shift": s}
        if clock and clock["after"] == -1:
            rec["clock_stepped"] = {"files": w.step_clock(clock["shift"]), "backup_exe_age_s": w.backup_age()}
        for k, c in enumerate(b["cmds"]):
            argv = c["argv"] if isinstance(c, dict) else argv_of[c]
            name = c["c"] if isinstance(c, dict) else c
            r = w.run_cmd(argv, bool(b.get("trace")), timeout)
            o = w.observe()
            o["calls"] = w.read_calls()
            o.update(r)
            o["c"] = name
            o["argv"] = argv
            rec["steps"].append(o)
            if clock and clock["after"] == k:
                rec["clock_stepped"] = {"files": w.step_clock(clock["shift"]), "backup_exe_age_s": w.backup_age()}
        return rec

    # A command that exceeds its time limit aborts only its behaviour (process group killed, nothing of it is
    # compared or judged); the state is rebuilt from scratch for the next one anyway.  Aborted behaviours are run
    # once more at the end; the record says how often a behaviour timed out and what the processes were doing.
    t1, t2 = int(job.get("timeout", 60)), int(job.get("retry_timeout", 120))
    again = []
    with open(out_path, "w") as out:
        for b in job["behaviours"]:
            try:
                rec = run_behaviour(b, t1)
            except ToolTimeout as ex:
                again.append((b, {"argv": ex.argv, "timeout": ex.timeout, "processes": ex.diag}))
                continue
            out.write(json.dumps(rec, separators=(",", ":")) + "\n")
            out.flush()
        for b, first in again:
            try:
                rec = run_behaviour(b, t2)
                rec["timeouts"] = [first]
            except ToolTimeout as ex:
                rec = {"id": b["id"], "aborted": "tool-timeout", "steps": [],
                       "timeouts": [first, {"argv": ex.argv, "timeout": ex.timeout, "processes": ex.diag}]}
            out.write(json.dumps(rec, separators=(",", ":")) + "\n")
            out.flush()


if __name__ == "__main__":
    main()
