"""C08 -- a key is never latched at the host unless the guest can recover it.

 1. TLC, exhaustive: spec/KeyKeeper.tla with Crash enabled in every control state (volatile state lost, key store and
    host kept), Damage of a stored key while the agent is down, host failures at every step, in the four scenarios
    (fresh latch, restart with key, rotation, unreadable local key): LatchedIsRecoverable, NoCorruptFinalName,
    AttestOnlyAfterStoreAndReadBack, RestartUsesLocal, RenameOnlyComplete; liveness (the restarted agent reaches the
    host's latched key) in a configuration without state constraint.
 2. Crash-point sweep on the REAL code, no hook: the key keeper runs in a child process (current-thread runtime, file
    loggers on) under strace; for every scenario x host fault plan an undisturbed baseline run gives the kill points
    (before every system call on the key directory / a key file / the host socket and before the first other call
    after each of them; every system call in the thorough tier); each point is one case: the child is killed before
    that call (strace inject=<call>:signal=KILL:when=<ordinal>), the real key directory and the host's latch are
    read, a fresh child is started on the same directory and host and must get a signed request accepted by the
    host (which verifies the MAC independently) -- without a new POST /secure-channel/key when the latched key's
    file is good.
 3. I->S: the strace logs of both processes of every case (killed or not) are translated to events and validated by
    TLC against the statement (spec/trace/KeyKeeperTraceFs: store -> read-back -> attest, tmp-then-rename, the
    directory/latch clauses at every process end, the restart clauses).  A rejected case is re-executed once; only a
    reproduced rejection is a violation.
"""
import concurrent.futures
import json
import os
import random

from vlib import build, tlc as tlcmod, util
from vlib.ctx import validate_trace

from . import kklib as kk
from .c09 import fold

ASSUME = [
    "TLC 1.8 + CommunityModules; KeyKeeper.tla transcribes loop_poll one host call / file-system call per action",
    "a crash is the death of the process (SIGKILL): completed file-system calls persist (no power loss, no lost page cache)",
    "strace -e inject=<syscall>:signal=KILL:when=<k> kills the tracee before its k-th invocation of that system call; kill "
    "points are taken from an undisturbed baseline run of the same scenario (runs are deterministic up to timer wake-ups)",
    "the scripted host (separate process, survives the kills) decides what it regards as attested and verifies the "
    "attestation and the signed probe with hmac/hashlib over the canonical string rebuilt from the raw request",
    "'first signed request' = one GET sent by the driver through the agent's own hyper_client with the guid/key read "
    "from KeyKeeperSharedState as soon as a key is published",
    "the 1 s waits of the unknown state are cut short with the public notify() in the child (no effect on key handling)",
    "an unreadable local key = a truncated <guid>.key file present before the agent starts (recorded as damaged from outside)",
]

MC = [
    ("MC_KeyKeeper", "KeyKeeper_crash.cfg", None,
     ["GetStatus", "FetchLocal", "UpdateKeyLocal", "Acquire", "StoreCreateTmp", "StoreWriteTmp", "StoreRename", "ReadBack", "Attest",
      "UpdateKeyMem", "Rotate", "Crash", "Damage", "Restart"]),
    ("MC_KeyKeeper", "KeyKeeper_live.cfg", None, ["Attest", "Crash", "Restart", "Damage"]),
    # the design that carries an acquired key over to the next poll and attests it without storing it again must break
    # the latch clause when the store step failed in between
    ("MC_KeyKeeper", "KeyKeeper_reuse.cfg", ("LatchedIsRecoverable", "AttestOnlyAfterStoreAndReadBack"), None),
    # ... and so must the design whose read-back reports success after failed attempts
    ("MC_KeyKeeper", "KeyKeeper_failopen.cfg", ("LatchedIsRecoverable", "AttestOnlyAfterStoreAndReadBack"), None),
    # a design that accepts the local key file only when its incarnation number equals the one of the status document
    ("MC_KeyKeeper", "KeyKeeper_incmatch.cfg", "RestartUsesLocal", None),
    # a look-up that rewrites the host's guid spelling; start-up housekeeping that removes "older" key files
    ("MC_KeyKeeper", "KeyKeeper_spelling.cfg", "RestartUsesLocal", None),
    ("MC_KeyKeeper", "KeyKeeper_searchempty.cfg", "RestartUsesLocal", None),
    ("MC_KeyKeeper", "KeyKeeper_prune.cfg", ("LatchedIsRecoverable", "RestartUsesLocal"), None),
]

JOBS_QUICK = [
    ("fresh", "none"), ("fresh", "status-fail"), ("fresh", "acquire-err"), ("fresh", "acquire-malformed"),
    ("fresh", "attest-err"), ("fresh", "attest-lost"),
    ("restart-with-key", "none"), ("restart-with-key", "status-invalid"),
    ("rotation", "none"), ("rotation", "acquire-err"), ("rotation", "attest-lost"), ("rotation-unnamed", "none"),
    ("unreadable-local-key", "none"), ("unreadable-local-key", "attest-err"), ("unreadable-local-key", "attest-lost"),
    # transient storage faults: one call of the store / read-back step fails, the next poll finds the disk healthy
    ("fresh", "store-rename-fails"), ("fresh", "readback-fails"), ("rotation", "store-create-fails"),
    ("fresh", "readback-fails-3x"),
    # the host states the key's incarnation number in the key document only / differently in the two documents
    ("fresh-inc-key-only", "none"), ("restart-with-key-inc-key-only", "none"), ("fresh-inc-differ", "attest-lost"),
    # the host spells its guids in upper case / without hyphens
    ("fresh-guid-upper", "none"), ("fresh-guid-nohyphen", "attest-lost"),
    # refused keys' files with later modification times than the latched key's file lie in the key directory at a restart
    ("restart-with-key-newer-leftovers", "none"),
    # a key is in memory when the host drops its latch; the attestation of the next key is committed but its reply is lost
    ("rotation-while-loaded", "second-attest-lost"), ("rotation-while-loaded-fresh", "second-attest-lost"),
]
THIN = {"fresh-inc-key-only": 3, "restart-with-key-inc-key-only": 2, "fresh-inc-differ": 3, "fresh-guid-upper": 3,
        "fresh-guid-nohyphen": 3, "restart-with-key-newer-leftovers": 2, "rotation-while-loaded": 3, "rotation-while-loaded-fresh": 4}     # quick: every n-th kill point
JOBS_MORE = [("rotation-while-loaded", "second-attest-ok"), ("rotation-while-loaded", "second-attest-err"),
             ("restart-with-key-guid-upper", "none"), ("restart-with-key-older-leftovers", "none"),
             ("restart-with-key-newer-leftovers", "status-fail"), ("fresh-guid-upper", "readback-fails"),
             ("fresh-inc-status-only", "none"), ("fresh-inc-equal", "none"), ("restart-with-key-inc-differ", "none"),
             ("fresh-inc-key-only", "readback-fails"),
             ("fresh", "store-create-fails"), ("fresh", "store-write-fails"), ("fresh", "store-rename-fails-twice"),
             ("fresh", "store-rename-fails+attest-lost"), ("rotation", "readback-fails"), ("unreadable-local-key", "store-rename-fails"),
             ("fresh", "status-invalid"), ("fresh", "status-reset"), ("fresh", "attest-reset"), ("restart-with-key", "status-fail"),
             ("restart-with-key", "status-reset"), ("rotation", "attest-err"), ("rotation", "acquire-malformed"),
             ("rotation-unnamed", "attest-lost"), ("unreadable-local-key", "acquire-err"), ("unreadable-local-key", "status-fail")]


def model_check_async(skip=False):
    import threading
    out = {"res": [], "err": None}

    def work():
        try:
            for mod, cfg, expect, req in (MC[1:] if skip else MC):
                res = tlcmod.run(mod, cfg, os.path.join(util.SPEC, "mc"), workers=8, timeout=900, heap="8g",
                                 java_opts=["-DTLA-Library=" + util.SPEC])
                out["res"].append((mod, cfg, expect, req, res))
        except Exception as ex:
            out["err"] = ex
    t = threading.Thread(target=work, daemon=True)
    t.start()
    return t, out


def sweep(c, bindir, jobs, thorough, workers=8):
    """-> list of (rows, summary) over all cases of all jobs"""
    results = {}

    def work(w):
        mine = [j for k, j in enumerate(jobs) if k % workers == w]
        if not mine:
            return
        sw = kk.Sweeper("c08_%d_%d" % (os.getpid(), w), bindir, all_syscalls=thorough)
        try:
            for job in mine:
                sc, plan = job
                pts, n_entries = sw.baseline(sc, plan)
                if len(pts) < 10:
                    raise util.ToolError("baseline of %s/%s yields only %d kill points" % (sc, plan, len(pts)))
                if not thorough and len(pts) > 100:
                    pts = pts[::2]          # four store/read-back rounds in one run: every second kill point in the quick tier
                if not thorough and sc in THIN:
                    pts = pts[::THIN[sc]]
                out, skipped = [], 0
                for p in [None] + pts:
                    r = sw.case(0, sc, plan, p)
                    if r is None:
                        skipped += 1
                    else:
                        out.append(r)
                if skipped > max(2, len(pts) // 10):
                    raise util.ToolError("%s/%s: the storage fault could not be placed in %d of %d runs" % (sc, plan, skipped, len(pts) + 1))
                results[job] = (out, n_entries)
        finally:
            sw.close(keep=bool(os.environ.get("VERIF_KEEP")))
    with concurrent.futures.ThreadPoolExecutor(max_workers=workers) as ex:
        for f in [ex.submit(work, w) for w in range(workers)]:
            f.result()
    return results


def decide(c, cases, name):
    rows = []
    for k, (r, s) in enumerate(cases):
        r = [dict(x) for x in r]
        r[0]["id"] = k + 1
        rows += r
    ok, why, res = validate_trace(c, "KeyKeeperTraceFs", "KeyKeeperTraceFs.cfg", rows, name, count=0, timeout=900, heap="4g")
    if not ok:
        raise tlcmod.TlcError("KeyKeeperTraceFs could not process the recorded cases: %s\n%s" % (why, res.trace_text[-1500:]))
    v = {x["case"]: x for x in tlcmod.printed_json(res, "VERDICT")}
    if len(v) != len(cases):
        raise util.ToolError("KeyKeeperTraceFs gave %d verdicts for %d cases" % (len(v), len(cases)))
    return v


def run(c):
    c.assumptions = ASSUME
    thorough = c.tier == "thorough"
    bindir = build.cargo_build("agent")
    t, out = model_check_async(skip=bool(os.environ.get("VERIF_KK_NOMC")))     # NOMC: mutation experiments only
    jobs = JOBS_QUICK + (JOBS_MORE if thorough else [])
    tm = util.Timer()
    res = sweep(c, bindir, jobs, thorough)
    cases, index = [], []
    for job in jobs:
        out_, n_entries = res[job]
        for k, (rows, s) in enumerate(out_):
            cases.append((rows, s))
            index.append(job)
    util.log("C08: %d cases (%d scenario x fault-plan sweeps) in %ss" % (len(cases), len(jobs), tm.s()))
    verdicts = decide(c, cases, "c08_cases_%d" % os.getpid())

    killed = sum(1 for r, s in cases if s["killed"])
    after_latch = sum(1 for r, s in cases if s["killed"] and s["latched_at_kill"] != "none")
    for r, s in cases:
        c.count(json.dumps([s["scenario"], s["plan"], s["killed_before"], s["latched_at_kill"], s["final_after_kill"], s["tmp_after_kill"],
                            s["host_requests_first"]], sort_keys=True))
    c.evaluations = len(cases)
    c.traces_validated += len(cases)
    c.extra["sweeps"] = {"%s/%s" % j: {"cases": len(res[j][0]), "syscalls_in_baseline": res[j][1]} for j in jobs}
    c.extra["cases"] = len(cases)
    c.extra["killed_runs"] = killed
    c.extra["kills_after_host_latched"] = after_latch
    c.extra["kill_positions"] = sorted({s["killed_before"] for r, s in cases if s["killed_before"]})[:60]
    c.extra["restarts_without_new_key"] = sum(1 for r, s in cases if s["good_local"] and s["restart_acquires"] == 0)
    c.extra["restarts_with_good_local_key"] = sum(1 for r, s in cases if s["good_local"])
    ex = next((s for r, s in cases if s["killed"] and s["latched_at_kill"] != "none"), cases[0][1])
    c.sample({"case": ex})
    c.sample({"events": next(r for r, s in cases if s["killed"])[:40]})

    bad = [k for k in range(len(cases)) if verdicts[k + 1]["viol"]]
    c.extra["rejected_cases"] = len(bad)
    # A rejected case is re-executed exactly: same scenario, same host fault plan, same kill point or no kill.  Per
    # (scenario, clause) the undisturbed members go first (nothing in them depends on where a kill lands).  A kill point
    # is (system call, ordinal); timer wake-ups add or drop eventfd writes, so the re-execution tries the neighbouring
    # ordinals until the process dies before the same kind of call as the first time.  Only a clause that fails again
    # is reported; if nothing at all reproduces the rejections are not believed (exit 2).
    pairs = {}
    for k in bad:
        for cl in verdicts[k + 1]["viol"]:
            pairs.setdefault((cases[k][1]["scenario"], cl), []).append(k)

    def reexecute(s):
        sw = kk.Sweeper("c08_re_%d" % os.getpid(), bindir, all_syscalls=thorough)
        try:
            if not s["point"]:
                return sw.case(1, s["scenario"], s["plan"], None)
            last = None
            for d in (0, -1, 1, -2, 2, -3, 3, -4, 4, -5, 5, -6, 6, -8, 8):
                if s["point"][1] + d < 1:
                    continue
                got = sw.case(1, s["scenario"], s["plan"], (s["point"][0], s["point"][1] + d))
                if got is None:
                    continue
                last = got
                if last[1]["killed_before"] == s["killed_before"] and last[1]["host_requests_first"] == s["host_requests_first"]:
                    return last
            return last
        finally:
            sw.close(keep=bool(os.environ.get("VERIF_KEEP")))

    confirmed, tried = {}, 0
    for (scn, cl), members in sorted(pairs.items()):
        members.sort(key=lambda k: (cases[k][1]["killed"], k))
        for k in members[:5]:
            if (scn, cl) in confirmed:
                break
            again = reexecute(cases[k][1])
            if again is None:
                continue
            tried += 1
            v2 = decide(c, [again], "c08_replay_%d_%d" % (os.getpid(), k))[1]
            for cl2 in v2["viol"]:
                confirmed.setdefault((scn, cl2), (again, len(pairs.get((scn, cl2), []))))
    lost = sorted(set(pairs) - set(confirmed))
    if lost:
        c.extra["unreproduced"] = [{"scenario": a, "clause": b, "cases": len(pairs[(a, b)])} for a, b in lost]
    if bad and not confirmed:
        raise util.ToolError("%d rejected case(s) (%s) did not reproduce when re-executed (%d re-executions); not believed" % (
            len(bad), sorted(pairs), tried))
    for (scn, cl), (again, n) in sorted(confirmed.items()):
        s = again[1]
        sig = {"broken": [cl], "scenario": scn}
        what = ("C08 clause %s broken in scenario %s, host fault plan %s, first process %s: key directory then %s (tmp %s), host "
                "latch %s; restarted process: %s, %d new key request(s), host saw %s; %d case(s) of the sweep broke this clause" % (
                    cl, scn, s["plan"], ("killed before '%s'" % s["killed_before"]) if s["killed"] else "not killed",
                    json.dumps(s["final_after_kill"]), json.dumps(s["tmp_after_kill"]), s["latched_at_kill"], s["restart_result"],
                    s["restart_acquires"], s["host_requests_restart"], n))
        c.violation(what, sig, {"scenario": scn, "plan": s["plan"], "point": s["point"], "rows": again[0], "summary": s})
    fold(c, t, out)
    if not c.violations:
        kk.cleanup_traces("c08_")
    c.exhaustive = False
    c.rule = ("cases = scenario (fresh latch, restart with key, rotation named/unnamed, unreadable local key) x host fault plan (none, "
              "status/acquire/attest failing in each way) x kill point of the baseline run (before every system call on the key "
              "directory, a key file or the host socket, and before the first other call after each; 1 in 6 of the writes into the "
              "temporary file in the quick tier; every system call in the thorough tier) + the undisturbed run; each case = killed "
              "process + restarted process, both strace logs validated by TLC; distinct = distinct (scenario, plan, call killed before, "
              "host latch, key directory state, requests the host saw)")


def replay(c, path):
    r = util.read_json(path)
    c.assumptions = ASSUME
    bindir = build.cargo_build("agent")
    cs = r["case"]
    c.states = c.transitions = 1
    c.count("replay")
    c.count(json.dumps([cs["scenario"], cs["plan"], cs["point"]]))
    sw = kk.Sweeper("c08_rp_%d" % os.getpid(), bindir)
    try:
        again = sw.case(1, cs["scenario"], cs["plan"], tuple(cs["point"][:2]) if cs["point"] else None)
    finally:
        sw.close()
    if again is None:
        raise util.ToolError("the storage fault of the replayed case could not be placed")
    v = decide(c, [again], "c08_replayfile_%d" % os.getpid())[1]
    c.sample({"verdict": v, "summary": again[1]})
    if v["viol"]:
        c.violation("replayed case still violates C08: %s" % sorted(v["viol"]), r.get("signature"), cs)
