"""C13 -- no input can crash a request handler or a background task.
Design: spec/RobustCut.tla (cut algebra: every way UTF-8 characters can straddle a byte cut, Cut is total) and
spec/Robust.tla (service model: every input class leaves listener and tasks alive, every request answered; liveness).
Binding S->I: every cut vector TLC enumerates is padded to the real constants and fed to the real truncation sites
(event message 4096, module status message 1024; the connection-summary cut 4096 through a real caller process whose
command line carries multi-byte text at every alignment); hostile input classes (obs-text header values, repeated
headers, very long URLs, odd-length UTF-16 / long non-ASCII / wrong-content-type host replies) are replayed into the
real server and the real host clients; a process-wide panic hook records every panic.  I->S: the recorded
input/outcome events are validated by TLC against spec/trace/RobustTrace.tla."""
import json
import os
import random
import shutil
import subprocess

from checks import proxylib
from vlib import build, rig, tlc as tlcmod, util
from vlib.ctx import validate_trace
from vlib import findings

ASSUME = proxylib.ASSUME[:3] + [
    "a panic anywhere in the process is recorded by a panic hook installed by the harness (location + message)",
    "cut vectors: all sequences of <= 6 code points (widths 1-4) whose byte length is within 4 of the cut, padded with ASCII",
    "the log-line header site depends on the wall clock's sub-second digits; it is exercised by repetition",
]


def robust_table(cases, name, timeout=600):
    d, exe = rig.prepare(name)
    outp = os.path.join(d, "results.ndjson")
    env = dict(os.environ, VERIF_CMD="robust", VERIF_OUT=outp, RUST_BACKTRACE="0")
    inp = "\n".join(json.dumps(x) for x in cases) + "\n"
    p = subprocess.run([exe], env=env, cwd=d, input=inp, stdout=subprocess.DEVNULL, stderr=subprocess.PIPE, timeout=timeout,
                       text=True, errors="replace")
    if p.returncode != 0:
        raise util.ToolError("robust driver failed rc=%s: %s" % (p.returncode, p.stderr[-1500:]))
    res = util.read_ndjson(outp)
    if len(res) != len(cases):
        raise util.ToolError("robust driver: %d results for %d cases" % (len(res), len(cases)))
    shutil.rmtree(d, ignore_errors=True)
    return res


def run(c):
    c.assumptions = ASSUME
    rnd = random.Random(c.seed)
    thorough = c.tier == "thorough"
    bindir = build.cargo_build("agent")
    r = c.tlc("Robust", "Robust.cfg", workers=2, timeout=300,
              required_actions=["Input", "Abandon", "ActorReply", "LogEvent", "Answer", "Drain"])
    if r.violated:
        raise tlcmod.TlcError("Robust.tla: %s" % r.trace_text[:1000])
    # the two designs the model is sensitive to: a reply that must be delivered, and evict-then-push on a full queue
    rs = c.tlc("Robust", "Robust_strict.cfg", workers=1, timeout=600, expect_ok=False)
    re_ = c.tlc("Robust", "Robust_evict.cfg", workers=1, timeout=600, expect_ok=False)
    c.extra["design_strict_reply_kills_actor"] = rs.invariant_violated == "TasksAlive"
    c.extra["design_evict_then_push_kills_handler"] = re_.invariant_violated == "NoHandlerDies"
    if not (c.extra["design_strict_reply_kills_actor"] and c.extra["design_evict_then_push_kills_handler"]):
        raise tlcmod.TlcError("Robust.tla no longer tells the seeded designs apart: %s / %s" % (rs.invariant_violated, re_.invariant_violated))
    g = c.tlc("RobustGen", "RobustGen.cfg", subdir="gen", workers=2, coverage=False, timeout=300)
    if g.violated:
        raise tlcmod.TlcError("RobustCut: Cut is not total")
    cuts = tlcmod.printed_json(g, "CUT")
    if len(cuts) < 100:
        raise util.ToolError("RobustGen printed %d vectors" % len(cuts))
    rows = []
    by_site = {}

    def outcome(site, rid, answered, panics, probe=True, tasks=True, detail=None):
        rows.append({"e": "input", "class": site, "id": rid})
        rows.append({"e": "outcome", "id": rid, "site": site, "answered": answered, "panics": panics, "probeOk": probe,
                     "tasksOk": tasks})
        c.count(rid)
        if panics or not answered or not probe or not tasks:
            by_site.setdefault(site, []).append((rid, detail))

    # 1. function-level cut sites
    cases, tags = [], []
    for i, v in enumerate(cuts):
        for site, n in (("event_cut", 4096), ("status_cut", 1024)):
            cases.append({"kind": site, "msg": {"pad": n - 8, "tail": v["w"]}})
            tags.append((site, "%s_%d" % (site, i), v))
    res = robust_table(cases, "c13_fn")
    for (site, rid, v), r_ in zip(tags, res):
        bad = bool(r_.get("panic"))
        if site == "status_cut" and not bad and r_.get("outLen", 0) > 1024 + 3:
            bad = True
        outcome(site, rid, True, 1 if bad else 0, detail={"widths": v["w"], "naive_slice_fails": v["naiveFails"]})
    c.extra["cut_vectors"] = len(cuts)
    c.sample({"cut_vector": cuts[len(cuts) // 2]})
    # 2. the log-line header (clock dependent)
    n = 2000000 if not thorough else 30000000
    lh = robust_table([{"kind": "log_header", "n": n}], "c13_lh", timeout=900)[0]
    outcome("log_header", "log_header", True, 1 if lh.get("panic") else 0, detail={"calls": n})
    c.extra["log_header_calls"] = n
    # 3. hostile inputs into the real server and clients
    d0 = os.path.join(util.RUNDIR, "c13_rig")
    steps = [{"op": "set_key", "guid": proxylib.GUID, "key": proxylib.KEYHEX}]
    exe_src = shutil.which("sleep")
    plans = []

    def probe(tag):
        return [{"op": "connect", "conn": "p" + tag, "attr": {"uid": 0, "admin": 1, "dip": "169.254.169.254", "dport": 80}},
                {"op": "request", "conn": "p" + tag, "id": "probe" + tag, "method": "GET", "target": "/probe", "headers": [["Host", "h"]]},
                {"op": "close", "conn": "p" + tag}]
    k = 0
    # 3a. caller command lines with multi-byte text at every alignment of the 4096-byte cut
    for ch in ("é", "€", "\U0001F600"):
        for pad in range(4):
            k += 1
            tag = "cmd%d" % k
            arg = "x" * pad + ch * (5000 // len(ch.encode()))
            if k % 2 == 0:
                arg = arg[:len(arg) // 4]      # also shorter command lines (cuts at smaller offsets)
            # `sh -c 'sleep 600; :' name <arg>`: the shell stays alive with the argument in its command line
            steps.append({"op": "spawn", "name": tag, "exe": shutil.which("sh"), "args": ["-c", "sleep 40; :", "caller-" + tag, arg]})
            steps.append({"op": "sleep", "ms": 30})
            steps.append({"op": "mark", "tag": "begin:" + tag})
            steps.append({"op": "connect", "conn": tag, "attr": {"uid": 1, "admin": 0, "dip": "168.63.129.16", "dport": 80, "helper": tag}})
            steps.append({"op": "request", "conn": tag, "id": tag, "method": "GET", "target": "/machine?comp=goalstate", "headers": [["Host", "h"]]})
            steps.append({"op": "close", "conn": tag})
            steps += probe(tag)
            steps.append({"op": "mark", "tag": "end:" + tag})
            plans.append((tag, "multibyteCmdline"))
    # 3b. request-side classes
    reqs = [
        ("obsTextHeader", "GET", "/a", [["Host", "h"], ["X-Note", "café"]]),
        ("obsTextHeader", "POST", "/a", [["Host", "h"], ["X-Bin", "ÿþ\u0080"]]),
        ("repeatedHeaders", "GET", "/a", [["Host", "h"]] + [["X-Rep", "v%d" % i] for i in range(60)]),
        ("repeatedHeaders", "GET", "/a", [["Host", "h"], ["Accept", "a"], ["accept", "b"], ["ACCEPT", "c"]]),
        ("longUrl", "GET", "/" + "u" * 7000 + "?q=" + "v" * 7000, [["Host", "h"]]),
        ("longUrl", "GET", "/" + "%C3%A9" * 2000, [["Host", "h"]]),
        ("plain", "GET", "/ok", [["Host", "h"]]),
        # percent signs that do not start a complete escape, at every distance from the end of the path
        ("malformedEscape", "GET", "/metadata/instance%2", [["Host", "h"]]),
        ("malformedEscape", "GET", "/machine/plugins%a?comp=config", [["Host", "h"]]),
        ("malformedEscape", "GET", "/x%z", [["Host", "h"]]),
        ("malformedEscape", "GET", "/x%", [["Host", "h"]]),
        ("malformedEscape", "GET", "/%", [["Host", "h"]]),
        ("malformedEscape", "GET", "/a%zz/b%2%2?q=%&r=%4", [["Host", "h"]]),
        ("malformedEscape", "POST", "/%2e%2", [["Host", "h"]]),
        # every form of request target RFC 9112 allows (a valid request whose target has no path at all included)
        ("connectRefusedByHost", "CONNECT", "169.254.169.254:80", [["Host", "169.254.169.254:80"]]),     # host answers 405
        ("connectAcceptedByHost", "CONNECT", "169.254.169.254:80", [["Host", "169.254.169.254:80"]]),    # host answers 200
        ("targetForms", "OPTIONS", "*", [["Host", "h"]]),
        ("targetForms", "GET", "http://168.63.129.16/machine?comp=goalstate", [["Host", "168.63.129.16"]]),
        ("targetForms", "PUT", "http://168.63.129.16/vmAgentLog", [["Host", "168.63.129.16"]]),
    ]
    for cl, method, target, hs in reqs:
        k += 1
        tag = "rq%d" % k
        steps.append({"op": "mark", "tag": "begin:" + tag})
        steps.append({"op": "connect", "conn": tag, "attr": {"uid": 0, "admin": 1, "dip": "168.63.129.16", "dport": 80}})
        rq = {"op": "request", "conn": tag, "id": tag, "method": method, "target": target, "headers": hs,
              "body": {"len": 5 if method == "POST" else 0, "seed": 1}, "timeout_ms": 5000}
        if cl == "connectRefusedByHost":
            rq["resp"] = {"status": 405, "headers": [["allow", "GET, POST, PUT"]], "body": {"text": "no tunnels"}, "framing": "cl"}
        steps.append(rq)
        steps.append({"op": "close", "conn": tag})
        steps += probe(tag)
        steps.append({"op": "mark", "tag": "end:" + tag})
        plans.append((tag, cl))
    # 3b'. rule documents whose names dangle (an assignment to an undefined identity / of an undefined role, a role listing an
    #      undefined privilege), then requests that match the privileges involved
    dangling = [
        {"privileges": [{"name": "p", "path": "/dangle"}], "roles": [{"name": "r", "privileges": ["p", "ghostpriv"]}],
         "identities": [{"name": "i", "userName": "nobody-at-all"}], "roleAssignments": [{"role": "r", "identities": ["ghost", "i"]}]},
        {"privileges": [{"name": "p", "path": "/dangle"}], "roles": [{"name": "r", "privileges": ["p"]}],
         "identities": [], "roleAssignments": [{"role": "r", "identities": ["ghost"]}, {"role": "ghostrole", "identities": ["ghost2"]}]},
        {"privileges": [{"name": "p", "path": "/dangle", "queryParameters": {"k": "v"}}], "roles": [{"name": "r", "privileges": ["ghostpriv"]}],
         "identities": [{"name": "i", "userName": "root"}], "roleAssignments": [{"role": "r", "identities": ["i"]}]},
    ]
    for di, rules in enumerate(dangling):
        for mode in ("enforce", "audit"):
            k += 1
            tag = "dg%d" % k
            steps.append({"op": "mark", "tag": "begin:" + tag})
            steps.append({"op": "set_rules", "ep": "imds", "doc": {"defaultAccess": "deny", "mode": mode, "id": "dangle%d" % k, "rules": rules}})
            steps.append({"op": "connect", "conn": tag, "attr": {"uid": 0, "admin": 1, "dip": "169.254.169.254", "dport": 80}})
            steps.append({"op": "request", "conn": tag, "id": tag, "method": "GET", "target": "/dangle/x?k=v", "headers": [["Host", "h"]], "timeout_ms": 5000})
            steps.append({"op": "close", "conn": tag})
            steps.append({"op": "set_rules", "ep": "imds", "doc": None})
            steps += probe(tag)
            steps.append({"op": "mark", "tag": "end:" + tag})
            plans.append((tag, "danglingRuleNames"))
    # 3c. host-reply classes seen by the agent's own clients
    utf16 = "<?xml version='1.0'?><GoalState/>".encode("utf-16-le")
    replies = [
        ("utf16OddReply", 200, [["content-type", "text/xml; charset=utf-16"]], utf16 + b"\x00", "cl", []),
        ("utf16OddReply", 200, [["content-type", "text/xml; charset=utf-16"]], utf16, "chunked", [7, 3, 1]),
        ("longNonAsciiErrorReply", 500, [["content-type", "text/plain; charset=utf-8"]], ("é€\U0001F600" * 3000).encode("utf-8"), "cl", []),
        ("longNonAsciiErrorReply", 200, [["content-type", "application/json"]], ("{\"x\": \"" + "€" * 4000).encode("utf-8"), "cl", []),
        ("wrongContentType", 200, [["content-type", "application/octet-stream"]], bytes(range(256)) * 8, "cl", []),
        ("wrongContentType", 200, [["content-type", "text/xml; charset=utf-32"]], b"\x00\x00\x00<", "cl", []),
        ("wrongContentType", 200, [], b"", "cl", []),
        # the reply announces far more than it delivers (a truncated or relayed reply, a broken middlebox): the announced
        # length is the sender's claim, nothing may be sized by it (above isize::MAX an allocation request panics)
        ("overstatedLength", 200, [["content-type", "application/json"], ["content-length", "9999999999999999999"]], b'{"a": 1}', "close", []),
        ("overstatedLength", 200, [["content-type", "text/xml"], ["content-length", "18446744073709551613"]], b"<GoalState/>", "close", []),
    ]
    for cl, status, hs, body, fr, frames in replies:
        for kind in ("goalstate", "imds"):
            k += 1
            tag = "hr%d" % k
            steps.append({"op": "mark", "tag": "begin:" + tag})
            steps.append({"op": "set_plan", "id": "", "resp": {"status": status, "headers": hs, "body": {"hex": body.hex()},
                                                               "framing": fr, "frames": frames}})
            steps.append({"op": "own_call", "kind": kind, "tag": tag})
            steps += probe(tag)
            steps.append({"op": "mark", "tag": "end:" + tag})
            plans.append((tag, cl))
    status_dir = os.path.join(d0, "status")
    steps.append({"op": "snapshot", "tag": "final", "status_file": os.path.join(status_dir, "status.json")})
    ev, d, out = rig.run_rig({"steps": steps, "status_task": {"interval_ms": 50, "dir": status_dir}, "event_logger": True,
                              "drain_ms": 300}, "c13_rig", timeout=600)
    tasks_ok = any(e["e"] == "Failed" and e.get("source") == "status.json" and e.get("found") for e in ev)
    # anti-vacuity: the callers' command lines must really have been resolved by the agent
    snap = next((e for e in ev if e["e"] == "Failed" and e.get("source") == "getter"), {})
    resolved = sum(1 for x in (snap.get("failed") or []) if "caller-cmd" in (x.get("processCmdLine") or ""))
    c.extra["caller_cmdlines_resolved"] = resolved
    if resolved < 6 and not any(e["e"] == "Panic" for e in ev):
        raise util.ToolError("only %d of 12 caller command lines were resolved by the agent (helper processes died?)" % resolved)
    window, cur = {}, None
    resp = {e["id"]: e for e in ev if e["e"] == "Response"}
    own = {e["tag"]: e for e in ev if e["e"] == "OwnCallDone"}
    for e in ev:
        if e["e"] == "Mark" and str(e["tag"]).startswith("begin:"):
            cur = e["tag"][6:]
            window[cur] = []
        elif e["e"] == "Mark" and str(e["tag"]).startswith("end:"):
            cur = None
        elif e["e"] == "Panic" and cur:
            window[cur].append({"location": e["location"], "message": e["message"][:160]})
    for tag, cl in plans:
        pan = window.get(tag, [])
        if tag.startswith("hr"):
            answered = tag in own and not own[tag].get("panicked")
            npan = len(pan) + (1 if own.get(tag, {}).get("panicked") and not pan else 0)
        else:
            answered = tag in resp
            npan = len(pan)
        pr = resp.get("probe" + tag)
        outcome(cl, tag, answered, npan, probe=bool(pr and pr["status"] == 200), tasks=tasks_ok, detail={"panics": pan[:2]})
    c.extra["rig_inputs"] = len(plans)
    # 4. the key keeper is notified while latched (provision queries do that): the task must keep polling
    from checks import c12
    ksteps = [c12.plan("GET /secure-channel/status", 200, c12.status_doc(None)),
              c12.plan("POST /secure-channel/key", 200, c12.key_doc(c12.G[0], c12.CAN["ok1"])),
              c12.plan("POST /secure-channel/key/*", 200, ""),
              {"op": "start_key_keeper", "interval_ms": 1}, {"op": "sleep", "ms": 400},
              c12.plan("GET /secure-channel/status", 200, c12.status_doc(c12.G[0])), {"op": "sleep", "ms": 150},
              {"op": "key_state", "tag": "latched"}, {"op": "mark", "tag": "begin:kknotify"}]
    for _ in range(60):
        ksteps += [{"op": "notify_key_keeper"}, {"op": "sleep", "ms": 4}]
    ksteps += [{"op": "mark", "tag": "end:kknotify"}, {"op": "sleep", "ms": 300}, {"op": "mark", "tag": "after:kknotify"},
               {"op": "sleep", "ms": 200}]
    kev, kd, _ = rig.run_rig({"steps": ksteps, "drain_ms": 100}, "c13_kk", timeout=600)
    latched = any(e["e"] == "KeyState" and e.get("guid") for e in kev)
    if not latched:
        raise util.ToolError("C13 key-keeper scenario: the key was not latched")
    seen_after, in_win, kpan = 0, False, []
    after = False
    for e in kev:
        if e["e"] == "Mark" and e["tag"] == "begin:kknotify":
            in_win = True
        elif e["e"] == "Mark" and e["tag"] == "after:kknotify":
            after = True
        elif e["e"] == "Panic":
            kpan.append({"location": e["location"], "message": e["message"][:160]})
        elif e["e"] == "HostRecv" and after and e["target"].startswith("/secure-channel/status"):
            seen_after += 1
    outcome("keyKeeperNotified", "kknotify", True, len(kpan), probe=True, tasks=seen_after > 0,
            detail={"panics": kpan[:2], "status_polls_after_notifications": seen_after})
    c.traces_validated += 1
    # 4b. the host fails every status poll for a long time (250 in a row: an outage of an hour at the real interval), then
    #     answers again: the key keeper task must still be polling and must follow the host
    #     (the channel state is known -- disabled -- before the outage, so the polls come at the configured interval)
    fsteps = [c12.plan("GET /secure-channel/status", 200, c12.status_doc(None, enabled=False)),
              {"op": "start_key_keeper", "interval_ms": 1}, {"op": "sleep", "ms": 300}, {"op": "mark", "tag": "begin:kkoutage"},
              c12.plan("GET /secure-channel/status", 503, "down", "text/plain"), {"op": "sleep", "ms": 50}, {"op": "mark_host_requests"},
              {"op": "wait_host_requests", "target": "/secure-channel/status", "n": 250, "timeout_ms": 20000},
              c12.plan("GET /secure-channel/status", 200, c12.status_doc(None)),
              c12.plan("POST /secure-channel/key", 200, c12.key_doc(c12.G[0], c12.CAN["ok1"])),
              c12.plan("POST /secure-channel/key/*", 200, ""), {"op": "sleep", "ms": 600},
              c12.plan("GET /secure-channel/status", 200, c12.status_doc(c12.G[0])), {"op": "sleep", "ms": 300},
              {"op": "key_state", "tag": "after-outage"}, {"op": "mark", "tag": "end:kkoutage"}]
    oev, od, _ = rig.run_rig({"steps": fsteps, "drain_ms": 100}, "c13_kkout", timeout=600)
    failed_polls = sum(1 for e in oev if e["e"] == "HostRecv" and e["target"].startswith("/secure-channel/status"))
    opan = [{"location": e["location"], "message": e["message"][:160]} for e in oev if e["e"] == "Panic"]
    waited = next((e for e in oev if e["e"] == "HostRequests"), {})
    recovered = any(e["e"] == "KeyState" and e.get("guid") for e in oev)
    if waited.get("n", 0) < 250 and not opan:
        raise util.ToolError("C13 outage scenario: only %s failed status polls were made in 20 s" % waited.get("n"))
    outcome("hostOutage", "kkoutage", True, len(opan), probe=True, tasks=recovered,
            detail={"panics": opan[:2], "status_polls": failed_polls, "key_latched_after_the_outage": recovered})
    c.extra["failed_status_polls_in_a_row"] = waited.get("n", 0)
    # 5a. Robust!Abandon + ActorReply, deterministically, for every client call of every shared-state actor: polled once,
    #     dropped, then the actor must still answer
    ac = robust_table([{"kind": "actor_cancel"}], "c13_actor")[0]
    if "calls" not in ac:
        raise util.ToolError("actor_cancel driver: %s" % ac)
    pending = [x for x in ac["calls"] if x["polled"] == "pending"]
    if len(pending) < 40 and all(x["alive"] and not x["panics"] for x in ac["calls"]):
        raise util.ToolError("actor_cancel: only %d of %d calls were still pending after one poll (vacuous)" % (len(pending), len(ac["calls"])))
    for x in ac["calls"]:
        outcome("requesterCancelled", "cancel_%s_%s" % (x["actor"], x["call"]), True, x["panics"], probe=x["alive"], tasks=x["alive"],
                detail={"actor": x["actor"], "call": x["call"]})
    c.extra["actor_calls_cancelled"] = len(pending)
    # 5. clients that go away (Robust!Abandon): the handler future is dropped at whatever await it is in -- also while its
    #    message sits in an actor's mailbox -- and the actor's reply finds nobody.  Then a patient client must be served and
    #    the status task must still publish.
    def abandon_run(attempt):
        rounds = 400 if not thorough else 4000
        isteps = [{"op": "set_key", "guid": proxylib.GUID, "key": proxylib.KEYHEX}, {"op": "mark", "tag": "begin:abandon"}]
        for i in range(rounds):
            cn = "im%d" % i
            isteps.append({"op": "connect", "conn": cn, "attr": {"uid": 0, "admin": 1, "dip": "169.254.169.254", "dport": 80},
                           "wait": i % 8 != 0, "wait_ms": 300})
            isteps.append({"op": "send", "conn": cn, "id": "", "method": "GET", "target": "/abandon?n=%d" % i, "headers": [["Host", "h"]]})
            # the end-of-stream has to arrive after the request was read and while the handler waits at one of its awaits:
            # delays of 0..600 microseconds sweep the handler's awaits (actor calls, rule lookup, upstream request)
            if i % 8 != 0:
                isteps.append({"op": "sleep", "us": rnd.choice([0, 20, 40, 60, 80, 100, 130, 160, 200, 250, 300, 400, 600])})
            # mostly an orderly close right behind the request (the request is delivered, then end-of-stream: the handler is
            # started and dropped at its first await), sometimes a reset (may discard the request unread)
            isteps.append({"op": "close", "conn": cn, "rst": i % 4 == 3})
        # (the listener first works through its backlog of dead connections; a probe sent while a dead connection with the
        #  same, re-used source port is still in the backlog would lose its stand-in audit record to it: a harness artefact,
        #  so wait for the backlog and ask twice -- a listener or actor that died fails both)
        isteps += ([{"op": "wait_audit_settled", "tag": "abandon"}] + probe("abandon") + [{"op": "sleep", "ms": 500}] +
                   [dict(x, **({"conn": "p2abandon"} if "conn" in x else {}), **({"id": "probe2abandon"} if x.get("id") else {}))
                    for x in probe("abandon")] + [{"op": "mark", "tag": "end:abandon"}, {"op": "sleep", "ms": 200}])
        istatus = os.path.join(util.RUNDIR, "c13_imp", "status")
        isteps.append({"op": "snapshot", "tag": "final", "status_file": os.path.join(istatus, "status.json")})
        iev, _, _ = rig.run_rig({"steps": isteps, "status_task": {"interval_ms": 50, "dir": istatus}, "drain_ms": 300}, "c13_imp", timeout=600)
        ipan = [{"location": e["location"], "message": e["message"][:160]} for e in iev if e["e"] == "Panic"]
        ipr = next((e for e in iev if e["e"] == "Response" and e["id"] in ("probeabandon", "probe2abandon") and e["status"] == 200), None)
        itasks = any(e["e"] == "Failed" and e.get("source") == "status.json" and e.get("found") for e in iev)
        return (len(ipan), bool(ipr and ipr["status"] == 200), itasks,
                {"panics": ipan[:2], "attempt": attempt, "rounds": rounds, "probe": [(e["id"], e.get("status"), e.get("kind")) for e in iev if e["e"] in ("Response", "ResponseError") and str(e.get("id")).startswith("probe")],
                        "statusPublished": itasks})

    rounds = 400 if not thorough else 4000
    npan, pr_ok, tk_ok, det = abandon_run(1)
    if npan == 0 and not (pr_ok and tk_ok):
        # no panic was recorded, only the follow-up looked wrong: decide on a second execution (a dead listener or actor
        # fails again; anything else was the environment)
        c.extra["abandon_first_attempt"] = det
        npan, pr_ok, tk_ok, det = abandon_run(2)
    outcome("clientAbandons", "abandon", True, npan, probe=pr_ok, tasks=tk_ok, detail=det)
    c.extra["abandoned_requests"] = rounds
    # 5b. descriptor exhaustion: while the process has no free file descriptor, connections arrive (accept fails with EMFILE
    #     again and again); afterwards the waiting clients and a fresh one are served
    esteps = [{"op": "set_key", "guid": proxylib.GUID, "key": proxylib.KEYHEX}] + probe("warm") + \
             [{"op": "emfile_burst", "clients": 3, "hold_ms": 200, "tag": "emf"}, {"op": "sleep", "ms": 200}] + probe("emfile")
    def emfile_run(attempt):
        eev, _, _ = rig.run_rig({"steps": esteps, "drain_ms": 200}, "c13_emfile%d" % attempt, timeout=300)
        eb = next((e for e in eev if e["e"] == "EmfileBurst"), {})
        if not eb.get("filled"):
            raise util.ToolError("descriptor-exhaustion scenario did not set up: %s" % eb)
        # (a client that cannot even connect any more -- the listening socket is gone -- counts as not answered)
        epan = [{"location": e["location"], "message": e["message"][:160]} for e in eev if e["e"] == "Panic"]
        eresp = [e for e in eev if e["e"] == "Response" and str(e.get("id", "")).startswith("emf_r")]
        epr = next((e for e in eev if e["e"] == "Response" and e["id"] == "probeemfile" and e["status"] == 200), None)
        return eb, epan, eresp, epr
    eb, epan, eresp, epr = emfile_run(1)
    if not epan and (len(eresp) != 3 or not epr):
        # nothing panicked, only an answer is missing: a listener that gave up fails again, a loaded machine does not
        c.extra["descriptor_exhaustion_first_attempt"] = {"waiting_clients_answered": len(eresp), "probe": bool(epr)}
        eb, epan, eresp, epr = emfile_run(2)
    outcome("descriptorExhaustion", "emfile", len(eresp) == 3, len(epan), probe=bool(epr), tasks=True,
            detail={"panics": epan[:2], "waiting_clients_answered": len(eresp), "burst": eb})
    c.extra["descriptor_exhaustion"] = eb
    # 5c. a host endpoint that neither accepts nor refuses connections (SYNs dropped): the connection whose destination it is
    #     waits, every OTHER client is served meanwhile
    silent = "10.9.8.7:9099"
    zsteps = [{"op": "set_key", "guid": proxylib.GUID, "key": proxylib.KEYHEX}] + probe("warm2") + \
             [{"op": "silent_host", "addr": silent},
              {"op": "connect", "conn": "tosilent", "attr": {"uid": 0, "admin": 1, "dip": "10.9.8.7", "dport": 9099}, "wait": False},
              {"op": "send", "conn": "tosilent", "id": "", "method": "GET", "target": "/to/silent", "headers": [["Host", "h"]]},
              {"op": "sleep", "ms": 300}]
    for i in range(3):
        zsteps += [{"op": "connect", "conn": "zo%d" % i, "attr": {"uid": 0, "admin": 1, "dip": "168.63.129.16", "dport": 80}, "wait": False},
                   {"op": "request", "conn": "zo%d" % i, "id": "zo%d" % i, "method": "GET", "target": "/while/silent/%d" % i, "headers": [["Host", "h"]],
                    "timeout_ms": 8000},
                   {"op": "close", "conn": "zo%d" % i}]

    def silent_run(attempt):
        zev, _, _ = rig.run_rig({"steps": zsteps, "drain_ms": 200}, "c13_silent%d" % attempt, timeout=300)
        sh_ = next((e for e in zev if e["e"] == "SilentHost"), {})
        if not sh_.get("connect_stays_pending"):
            raise util.ToolError("silent-host scenario did not set up (a connect to it does not stay pending): %s" % sh_)
        zpan = [{"location": e["location"], "message": e["message"][:160]} for e in zev if e["e"] == "Panic"]
        zok = [e for e in zev if e["e"] == "Response" and str(e.get("id", "")).startswith("zo") and e.get("status") == 200]
        return sh_, zpan, zok
    sh_, zpan, zok = silent_run(1)
    if not zpan and len(zok) != 3:
        c.extra["silent_host_first_attempt"] = {"other_clients_answered": len(zok)}
        sh_, zpan, zok = silent_run(2)
    outcome("silentHost", "silent", len(zok) == 3, len(zpan), probe=len(zok) == 3, tasks=True,
            detail={"panics": zpan[:2], "other_clients_answered_while_a_connect_is_pending": len(zok), "setup": sh_})
    c.extra["silent_host"] = {"other_clients_answered": len(zok), "setup": sh_}
    # 6. the telemetry event queue is full (the logger task has not drained it: it starts late and runs once a minute) and
    #    many handlers write events at once (Robust!LogEvent with evq = QCap): every request is still answered
    seq_n, par_b, par_n = 1100, 16, 300 if not thorough else 1500
    if os.environ.get("VERIF_C13_BURST"):
        par_b, par_n = [int(x) for x in os.environ["VERIF_C13_BURST"].split("x")]
    ssteps = [{"op": "set_key", "guid": proxylib.GUID, "key": proxylib.KEYHEX}]
    for k_ in range(4):
        ssteps.append({"op": "connect", "conn": "sq%d" % k_, "attr": {"uid": 0, "admin": 1, "dip": "169.254.169.254", "dport": 80}})
    for i in range(seq_n):
        ssteps.append({"op": "request", "conn": "sq%d" % (i % 4), "id": "sq%d" % i, "method": "GET", "target": "/fill?n=%d" % i, "headers": [["Host", "h"]]})
    ssteps.append({"op": "mark", "tag": "begin:saturated"})
    branches = []
    for b in range(par_b):
        br = [{"op": "connect", "conn": "pb%d" % b, "attr": {"uid": 0, "admin": 1, "dip": "169.254.169.254", "dport": 80}}]
        for i in range(par_n):
            br.append({"op": "request", "conn": "pb%d" % b, "id": "pb%d_%d" % (b, i), "method": "GET", "target": "/burst?b=%d&n=%d" % (b, i),
                       "headers": [["Host", "h"]], "timeout_ms": 30000})
        branches.append(br)
    ssteps.append({"op": "parallel", "branches": branches})
    ssteps += ([{"op": "wait_audit_settled", "tag": "saturated"}] + probe("saturated") + [{"op": "sleep", "ms": 500}] +
               [dict(x, **({"conn": "p2saturated"} if "conn" in x else {}), **({"id": "probe2saturated"} if x.get("id") else {}))
                for x in probe("saturated")] + [{"op": "mark", "tag": "end:saturated"}])
    sev, _, _ = rig.run_rig({"steps": ssteps, "drain_ms": 300}, "c13_sat", timeout=900)
    span = [{"location": e["location"], "message": e["message"][:160]} for e in sev if e["e"] == "Panic"]
    sresp = {e["id"] for e in sev if e["e"] == "Response"}
    want = {"pb%d_%d" % (b, i) for b in range(par_b) for i in range(par_n)}
    filled = sum(1 for i in range(seq_n) if "sq%d" % i in sresp)
    if filled < 1001 and not span:
        raise util.ToolError("C13 saturation scenario: only %d of %d filling requests were answered" % (filled, seq_n))
    spr = next((e for e in sev if e["e"] == "Response" and e["id"] in ("probesaturated", "probe2saturated") and e["status"] == 200), None)
    outcome("eventQueueSaturated", "saturated", want <= sresp, len(span), probe=bool(spr and spr["status"] == 200), tasks=True,
            detail={"panics": span[:2], "unanswered": len(want - sresp), "burst": len(want)})
    c.extra["saturated_queue_burst_requests"] = len(want)
    # the verdict, per site, by TLC on the recorded outcomes
    remaining = rows
    for _ in range(12):
        ok, why, res = validate_trace(c, "RobustTrace", "RobustTrace.cfg", remaining, "c13", count=0, timeout=300)
        if ok:
            break
        import re
        ids = re.findall(r'id \|-> "([^"]+)"', res.trace_text)
        bad = next((r_ for r_ in remaining if r_["e"] == "outcome" and ids and r_["id"] == ids[-1]), None)
        if bad is None:
            raise util.ToolError("RobustTrace rejected the trace but the outcome could not be identified (%s)" % why)
        site = bad["site"]
        lst = by_site.get(site, [])
        sig = {"site": site, "broken": why.replace("invariant ", "")}
        c.violation("C13 broken at %s (%s): %d inputs; first: %s %s" % (site, why, len(lst), bad["id"], json.dumps(lst[0][1] if lst else None)[:400]),
                    sig, {"site": site, "id": bad["id"], "detail": lst[0][1] if lst else None, "count": len(lst)})
        remaining = [r_ for r_ in remaining if not (r_.get("site") == site or (r_["e"] == "input" and r_["class"] == site))]
    c.rule = ("inputs = every cut vector x 2 function sites, 12 caller command lines (3 widths x 4 alignments) through the "
              "real accept path, 7 hostile requests, 14 hostile host replies x clients, log-header repetitions; "
              "distinct = distinct inputs")


def replay(c, path):
    run(c)
