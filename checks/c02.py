"""C02 — RBAC decision equals the declared rule semantics (spec/Rbac.tla), deterministically.
S->I function table: TLC enumerates complete small universes (spec/gen/RbacGen.tla, three slices), evaluates the
declared semantics and its algebraic properties on every case, and prints each case with the expected decision; the
real serde -> ComputedAuthorizationItem::from_authorization_item -> is_allowed path is run on every case and on
order permutations / case foldings of it (which the spec proves decision-preserving)."""
import json
import random

import os

from vlib import build, rig, tlc as tlcmod, util
from vlib.ctx import validate_trace

ASSUME = [
    "TLC 1.8 + CommunityModules",
    "Rbac.tla transcribes C02's statement; an absent section lists nothing; where the statement is silent "
    "(a request repeating a query key with different values) both readings are accepted (Rbac!Ambiguous)",
    "letter case = ASCII letters; names, users, groups, process names and exe paths compare exactly",
    "'the rule set's default access' is allow exactly when the document's defaultAccess is the word allow in any letter "
    "case; any other text is not allow (so a request no privilege matches is denied)",
    "universe: <=2 privileges/roles/identities/assignments, names from pools with dangling and duplicate names",
]


def s(chars):
    return "".join(chars)


def doc_json(d, fold=None):
    """Rbac.tla Doc -> AuthorizationItem JSON as the host delivers it"""
    def p(x):
        path = s(x["path"])
        q = {s(e["k"]): s(e["v"]) for e in x["q"]}
        if fold == "upper":
            path = path.upper()
            q = {k.upper(): v.upper() for k, v in q.items()}
        o = {"name": x["name"], "path": path}
        if q:
            o["queryParameters"] = q
        return o

    def ident(x):
        o = {"name": x["name"]}
        for a, b in (("user", "userName"), ("group", "groupName"), ("proc", "processName"), ("exe", "exePath")):
            if x[a] != "NONE":
                o[b] = x[a]
        return o
    rules = {}
    if d["hasPrivs"]:
        rules["privileges"] = [p(x) for x in d["privs"]]
    if d["hasRoles"]:
        rules["roles"] = [{"name": x["name"], "privileges": list(x["privs"])} for x in d["roles"]]
    if d["hasIds"]:
        rules["identities"] = [ident(x) for x in d["ids"]]
    if d["hasAsg"]:
        rules["roleAssignments"] = [{"role": x["role"], "identities": list(x["ids"])} for x in d["asg"]]
    return {"defaultAccess": "allow" if d["allow"] else "deny", "mode": d["mode"], "id": "doc", "rules": rules}


def url_str(u, fold=None):
    path = s(u["path"])
    parts = []
    for e in u["q"]:
        k, v = s(e["k"]), s(e["v"])
        if fold == "upper":
            k, v = k.upper(), v.upper()
        parts.append(k + ("=" + v if v else ""))
    if fold == "upper":
        path = path.upper()
    return path + ("?" + "&".join(parts) if parts else "")


def claims_json(c):
    return {"user": c["user"], "groups": list(c["groups"]), "proc": c["proc"], "exe": c["exe"], "elevated": True}


def kind_of(f, variant):
    if f["dupPriv"]:
        return "duplicate-privilege-name-different-body"
    if f["dupRole"]:
        return "duplicate-role-name-different-body"
    if f["dupId"]:
        return "duplicate-identity-name-different-body"
    if f["missing"]:
        return "missing-section"
    if f["upper"] or variant in ("rule-upper",):
        return "rule-path-uppercase"
    return "plain"


def run(c):
    c.assumptions = ASSUME
    rnd = random.Random(c.seed)
    thorough = c.tier == "thorough"
    build.cargo_build("agent")
    cases = []
    for sl in ("match", "grant", "asg", "dup", "idcase"):
        cfg = "RbacGen_%s.cfg" % sl
        if thorough and sl == "grant":
            cfg = "RbacGen_grant_full.cfg"
        res = c.tlc("RbacGen", cfg, subdir="gen", workers=6, coverage=False, timeout=1500, heap="8g")
        if res.violated:
            raise tlcmod.TlcError("the declared semantics fails its own algebra: %s\n%s" % (
                res.invariant_violated, res.trace_text[:1500]))
        got = tlcmod.printed_json(res, "CASE")
        if not got:
            raise util.ToolError("generator printed no cases for slice " + sl)
        for g in got:
            g["slice"] = sl
        cases += got
    util.log("%d cases from TLC" % len(cases))
    # build the evaluation list: base + reversed lists + shuffled lists + upper-cased rule side + upper-cased request
    cmds, meta = [], []
    nvar = 1 if not thorough else 3
    for i, k in enumerate(cases):
        d, cl, u = k["doc"], k["caller"], k["url"]
        base = doc_json(d)
        variants = [("base", base, url_str(u))]
        # permutations (decision-preserving by PermInvariant)
        for v in range(nvar):
            dd = json.loads(json.dumps(base))
            for sec in dd["rules"].values():
                rnd.shuffle(sec)
                for item in sec:
                    for key in ("privileges", "identities"):
                        if isinstance(item.get(key), list):
                            rnd.shuffle(item[key])
            variants.append(("perm", dd, url_str(u)))
        # case foldings (decision-preserving by CaseInvariant)
        if i % 3 == 0 or thorough:
            variants.append(("rule-upper", doc_json(d, fold="upper"), url_str(u)))
            variants.append(("url-upper", base, url_str(u, fold="upper")))
        # the mode's spelling (decision-preserving: the modes are the three words, in any letter case)
        if i % 7 == 0 or thorough:
            dm = json.loads(json.dumps(base))
            dm["mode"] = rnd.choice([dm["mode"].capitalize(), dm["mode"].upper()])
            dm["defaultAccess"] = rnd.choice([dm["defaultAccess"], dm["defaultAccess"].capitalize()])
            variants.append(("mode-case", dm, url_str(u)))
        # a default access that is not the word allow (in any letter case) is not allow: documents whose default is deny
        # keep their decisions when the field carries any other text
        if not d["allow"] and (i % 5 == 0 or thorough):
            do = json.loads(json.dumps(base))
            do["defaultAccess"] = rnd.choice(["", "none", "block", "denied", "Deny ", " allow", "allowed", "0", "DENY", "allow;"])
            variants.append(("default-not-allow", do, url_str(u)))
        for name, dj, us in variants:
            cmds.append({"kind": "rbac", "doc": dj, "claims": claims_json(cl), "url": us})
            meta.append((i, name))
    util.log("evaluating %d cases on the real implementation" % len(cmds))
    results = rig.fn_table(cmds, "c02", timeout=1200)
    mism = {}
    nontrivial = 0
    for (i, name), cmd, r in zip(meta, cmds, results):
        k = cases[i]
        c.count()
        if name == "base" and (k["f"]["matched"] or k["doc"]["mode"] == "disabled"):
            nontrivial += 1
        if "allowed" not in r:
            c.violation("real RBAC path failed on a TLC case: %s" % r, {"kind": "error", "detail": str(r)[:80]}, cmd)
            continue
        ok = r["allowed"] == k["allow"] or (k["f"]["ambiguous"] and r["allowed"] == k["allowAny"])
        if not ok:
            kd = kind_of(k["f"], name)
            mism.setdefault(kd, []).append((k, name, cmd, r))
    c.distinct_extra = nontrivial
    c.traces_validated = len(cases)
    c.sample({"case": cases[rnd.randrange(len(cases))]})
    c.extra["cases_from_tlc"] = len(cases)
    c.extra["mismatch_kinds"] = {k: len(v) for k, v in mism.items()}
    for kd, lst in sorted(mism.items()):
        k, name, cmd, r = lst[0]
        c.violation("RBAC decision differs from the declared semantics (%s, %d cases): variant=%s url=%s caller=%s "
                    "spec=%s impl=%s doc=%s" % (kd, len(lst), name, cmd["url"], k["caller"]["user"], k["allow"],
                                                 r["allowed"], json.dumps(cmd["doc"])[:600]),
                    {"kind": kd}, {"cmd": cmd, "spec_allow": k["allow"], "impl": r, "count": len(lst)})
    listener_slice(c, rnd, thorough)
    from checks import proxylib
    proxylib.identity_history(c, "C02")
    c.exhaustive = True
    c.rule = ("cases = every (document, caller, URL) of three complete small universes enumerated by TLC; each evaluated "
              "on the real deserialize+compute+is_allowed path in its base form, under list permutations and under "
              "upper-casing of the rule side / the request side; non-trivial = base cases where some privilege "
              "matched or the mode is disabled")


def listener_slice(c, rnd, thorough, prop="C02"):
    """'...or on anything else': the same decision function observed at the real listener, on keep-alive connections that
    mix granted and denied URLs of one path in every order, across a change of the rule document; TLC computes each
    expected decision from (document in force, caller, URL) alone (spec/trace/RbacTrace.tla)."""
    from checks import proxylib
    name = "%s_listener" % prop.lower()
    exe = os.path.join(util.RUNDIR, name, "verif-agent")
    caller = proxylib.caller_of(0, exe, exe)

    def doc(n, flip):
        me, them = ("someone-else", caller["user"]) if flip else (caller["user"], "someone-else")
        return {"defaultAccess": "deny", "mode": "enforce", "id": "doc%d" % n, "rules": {
            "privileges": [{"name": "pg", "path": "/machine", "queryParameters": {"comp": "goalstate"}},
                           {"name": "ps", "path": "/machine", "queryParameters": {"comp": "secrets"}},
                           {"name": "pm", "path": "/metadata"}],
            "roles": [{"name": "rg", "privileges": ["pg", "pm"]}, {"name": "rs", "privileges": ["ps"]}],
            "identities": [{"name": "me", "userName": me}, {"name": "them", "userName": them}],
            "roleAssignments": [{"role": "rg", "identities": ["me"]}, {"role": "rs", "identities": ["them"]}]}}
    urls = ["/machine?comp=goalstate", "/machine?comp=secrets", "/machine?comp=other", "/machine", "/MACHINE?COMP=GOALSTATE",
            "/machine?x=1&comp=secrets", "/machine/plugins?comp=goalstate&y=2", "/metadata/instance", "/metadata/instance?comp=secrets",
            "/other?comp=goalstate",
            # a request repeating a query key: the first and the "any" reading are accepted where the statement is silent
            "/machine?comp=goalstate&comp=secrets", "/machine?comp=secrets&comp=goalstate", "/machine?comp=goalstate&Comp=x"]
    # the two signature-exempt uploads are subject to the rules like every other URL
    uploads = [("PUT", "/vmAgentLog"), ("POST", "/machine/?comp=telemetrydata"), ("PUT", "/VMAGENTLOG")]
    steps, meta = [], {}
    cur = doc(0, False)
    steps.append({"op": "set_rules", "ep": "imds", "doc": cur})
    nconn = 30 if not thorough else 300
    k = nfault = 0
    for ci in range(nconn):
        cn = "e%d" % ci
        steps.append({"op": "connect", "conn": cn, "attr": {"uid": 0, "admin": 1, "dip": "169.254.169.254", "dport": 80}})
        for j in range(rnd.randint(3, 8)):
            if rnd.random() < 0.12:
                cur = doc(k + 1, rnd.random() < 0.5)       # the host delivers another document while the connection is open
                steps.append({"op": "set_rules", "ep": "imds", "doc": cur})
            k += 1
            rid = "d%d" % k
            u = rnd.choice(urls[:3]) if rnd.random() < 0.5 else rnd.choice(urls)
            faulty = rnd.random() < 0.1
            if faulty:
                # the rule set cannot be read at this moment (hook H7): the agent may refuse to decide (500), but whatever
                # it decides must still be the declared decision for the document in force
                steps.append({"op": "fault", "rules_lookup_fails": True})
            mth = "GET"
            if rnd.random() < 0.08:
                mth, u = rnd.choice(uploads)
            steps.append({"op": "request", "conn": cn, "id": rid, "method": mth, "target": u, "headers": [["Host", "h"]]})
            if faulty:
                steps.append({"op": "fault", "rules_lookup_fails": False})
                nfault += 1
            meta[rid] = (cur, u)
        steps.append({"op": "close", "conn": cn})
    ev, d, _ = rig.run_rig({"steps": steps, "drain_ms": 200}, name, timeout=600)
    resp = {e["id"]: e for e in ev if e["e"] == "Response"}
    host = {e["id"] for e in ev if e["e"] == "HostRecv" and e.get("id")}
    rows, und = [], 0
    for rid, (dj, u) in meta.items():
        r = resp.get(rid)
        if r is None:
            raise util.ToolError("listener slice: request %s (%s) got no response" % (rid, u))
        if r["status"] == 403 and rid not in host:
            allowed = False
        elif rid in host:
            allowed = True
        else:
            und += 1
            continue
        rows.append({"e": "dec", "id": rid, "doc": proxylib.doc_to_tla(dj), "url": proxylib.url_to_tla(u), "allowed": allowed,
                     "caller": {kk_: caller[kk_] for kk_ in ("user", "groups", "proc", "exe")}})
    if len(rows) < (len(meta) - nfault) * 0.9 or not any(r["allowed"] for r in rows) or all(r["allowed"] for r in rows):
        raise util.ToolError("listener slice is vacuous: %d of %d requests decided, %d allowed" % (
            len(rows), len(meta), sum(r["allowed"] for r in rows)))
    c.extra["listener_decisions"] = len(rows)
    c.extra["listener_requests_during_rules_lookup_fault"] = nfault
    c.extra["listener_connections"] = nconn
    c.traces_validated += nconn
    ok, why, res = validate_trace(c, "RbacTrace", "RbacTrace.cfg", rows, "%s_listener" % prop.lower(), count=0, timeout=600)
    if not ok:
        import re
        ids = re.findall(r'id \|-> "(d\d+)"', res.trace_text or "")
        bad = next((r for r in rows if ids and r["id"] == ids[-1]), rows[0])
        dj, u = meta[bad["id"]]
        before = [meta[x][1] for x in meta if x in resp and resp[x]["conn"] == resp[bad["id"]]["conn"] and int(x[1:]) < int(bad["id"][1:])]
        c.violation("the decision at the listener is not the declared function of (rules, caller, URL): %s was %s under "
                    "document %s; earlier on the same connection: %s" % (u, "allowed" if bad["allowed"] else "denied", dj["id"], before[-6:]),
                    {"kind": "listener-decision-depends-on-history"}, {"url": u, "doc": dj, "earlier_on_connection": before, "allowed": bad["allowed"]})


def replay(c, path):
    r = util.read_json(path)
    if "cmd" not in r.get("case", {}):
        # a listener-slice artefact: the scenario is regenerated from the seed
        return run(c)
    cmd = r["case"]["cmd"]
    out = rig.fn_table([cmd], "c02r")[0]
    c.count(json.dumps(cmd))
    c.count("spec")
    c.sample({"cmd": cmd, "impl": out, "spec_allow": r["case"]["spec_allow"]})
    c.states = c.transitions = 1
    if out.get("allowed") != r["case"]["spec_allow"]:
        c.violation("replayed case still differs", r["signature"], r["case"])
