"""C10 -- the key id in a signature names the key that produced the MAC.
Design: spec/gen/KeyGen.tla (the key actions of Proxy.tla with a history variable) in both designs (two actor
messages / one); TLC decides KeyPairing for each.  Binding: (a) a probe counts the key reads per signature on the real
code (schedule gate of hook H4 used as a counter) and so selects the design the code implements; (b) S->I: every
interleaving TLC prints for that design is forced on the real code through the gate (signer parked at its second
read while the keeper acts) for the proxied route and the agent's own host calls, the mock host's capture is
verified with an independent HMAC; (c) I->S: a stress run (signers x rotating keeper) is recorded and every
authorization header validated by TLC against spec/trace/KeyPairTrace.tla."""
import json
import os
import shutil
import random

from vlib import build, canon, rig, tlc as tlcmod, util
from vlib.ctx import validate_trace

G = {"k1": "11111111-aaaa-4bbb-8ccc-000000000001", "k2": "22222222-aaaa-4bbb-8ccc-000000000002"}
K = {"k1": "0f" * 32, "k2": "e1" * 32}
KEYS = {G[k]: K[k] for k in G}
GATE = "key_keeper.get_key"

ASSUME = [
    "TLC 1.8 + CommunityModules",
    "hook H4: a schedule point at the entry of KeyKeeperSharedState::get_key/set_key (no-op unless armed)",
    "the mock host's capture is verified with Python hmac/hashlib over the documented canonical string (lib/vlib/canon.py)",
    "signers: proxied requests (value read first, id second) and the agent's own calls get_goalstate / get_shared_config / "
    "get_imds_instance_info (id first, value second)",
]


def keeper_op(v):
    if v == "nokey":
        return {"op": "clear_key"}
    return {"op": "set_key", "guid": G[v], "key": K[v]}


def sign_events(ev, route_of, keys=None):
    """-> list of (tag/id, announced guid or None, verifying guid or None), one entry per authorization header VALUE"""
    keys = keys or KEYS
    out = []
    cur_own = None
    for e in ev:
        if e["e"] == "OwnCall":
            cur_own = e.get("tag")
        elif e["e"] == "OwnCallDone":
            cur_own = None
        elif e["e"] == "HostRecv":
            rid = e["id"] or cur_own
            hs = [(n, v) for n, v in e["headers"]]
            auth = [v for n, v in hs if n.lower() == canon.AUTH]
            body = bytes.fromhex(e["bodyHex"]) if e["bodyLen"] <= 256 else b""
            if not auth:
                out.append((rid, None, None, e))
                continue
            for av in auth:
                a = canon.parse_auth(av)
                ver = canon.verifying_key(av, keys, e["method"], e["target"], hs, body)
                out.append((rid, a["guid"] if a else "?", ver, e))
    return out


def name_of(guid):
    for k, g in G.items():
        if g == guid:
            return k
    return "nokey" if guid is None else "?"


def schedule_steps(hist, signer, n):
    pre, mid, post, seen = [], [], [], 0
    for h in hist:
        if h == "R1":
            seen = 1
        elif h == "R2":
            seen = 2
        elif h == "SEND":
            seen = 3
        elif seen == 0:
            pre.append(h)
        elif seen == 1 and "R2" in hist:
            mid.append(h)
        else:
            post.append(h)
    rid = "s%d" % n
    steps = [keeper_op("k1")] + [keeper_op(v) for v in pre]
    if signer == "proxy":
        sign = [{"op": "connect", "conn": rid, "attr": {"uid": 0, "admin": 1, "dip": "168.63.129.16", "dport": 80}},
                {"op": "request", "conn": rid, "id": rid, "method": "GET", "target": "/machine?comp=goalstate&n=%d" % n,
                 "headers": [["Host", "168.63.129.16"]]},
                {"op": "close", "conn": rid}]
    else:
        sign = [{"op": "own_call", "kind": signer, "tag": rid}]
    if mid:
        steps.append({"op": "arm", "label": GATE, "skip": 1})
        steps.append({"op": "parallel", "branches": [
            sign,
            [{"op": "wait_arrived", "label": GATE, "n": 2, "timeout_ms": 3000}] + [keeper_op(v) for v in mid] +
            [{"op": "release", "label": GATE}]]})
        steps.append({"op": "disarm", "label": GATE})
    else:
        steps += sign
    steps += [keeper_op(v) for v in post]
    return rid, steps


def run(c):
    c.assumptions = ASSUME
    rnd = random.Random(c.seed)
    thorough = c.tier == "thorough"
    build.cargo_build("agent")
    # 1. the two designs
    r_pair = c.tlc("KeyGen", "KeyGen_pair.cfg", subdir="mc", workers=2, timeout=600, required_actions=["Read1", "Send", "Keeper"])
    if r_pair.violated:
        raise tlcmod.TlcError("KeyPairing fails even with a single read: spec error")
    r_split = c.tlc("KeyGen", "KeyGen_split.cfg", subdir="mc", workers=2, timeout=600, expect_ok=False)
    c.extra["design_two_messages_violates_KeyPairing"] = bool(r_split.invariant_violated)
    # 2. which design does the code implement?  count key reads per signature
    probe = [keeper_op("k1"), {"op": "arm", "label": GATE, "skip": 1000000}]
    for i, signer in enumerate(("proxy", "goalstate", "sharedconfig", "imds")):
        probe.append({"op": "wait_arrived", "label": GATE, "n": 0, "timeout_ms": 0})
        probe += schedule_steps(["R1", "SEND"], signer, 9000 + i)[1][1:]
    probe.append({"op": "wait_arrived", "label": GATE, "n": 0, "timeout_ms": 0})
    ev, d, _ = rig.run_rig({"steps": probe}, "c10_probe", timeout=600)
    arr = [e["n"] for e in ev if e["e"] == "Arrived"]
    reads = {s: arr[i + 1] - arr[i] for i, s in enumerate(("proxy", "goalstate", "sharedconfig", "imds"))}
    c.extra["key_reads_per_signature"] = reads
    util.log("key reads per signature: %s" % reads)
    if any(v < 1 for v in reads.values()):
        raise util.ToolError("probe saw no key read for some signer: %s" % reads)
    rows = [{"e": "issue", "guid": G["k1"]}, {"e": "issue", "guid": G["k2"]}]
    drifts = 0
    # 3. S->I: every interleaving of the design each signer implements
    sched = {}
    for design in ("split", "pair"):
        res = c.tlc("KeyGen", "KeyGen_%s%s.cfg" % (design, "_deep" if thorough else ""), subdir="gen", workers=1, coverage=False, timeout=300)
        sched[design] = tlcmod.printed_json(res, "SCHED")
        if not sched[design]:
            raise util.ToolError("KeyGen printed no schedules")
    n = 0
    steps, expect = [], {}
    for signer in ("proxy", "goalstate", "sharedconfig", "imds"):
        design = "split" if reads[signer] >= 2 else "pair"
        for s in sched[design]:
            n += 1
            rid, st = schedule_steps(s["hist"], signer, n)
            steps += st
            expect[rid] = (signer, s)
    sched_steps = steps
    ev, d, _ = rig.run_rig({"steps": steps}, "c10_sched", timeout=600)
    got = {rid: (g, v, e) for rid, g, v, e in sign_events(ev, None)}
    for rid, (signer, s) in expect.items():
        c.count(json.dumps([signer, s["hist"]]))
        if rid not in got:
            raise util.ToolError("no host capture for schedule %s %s" % (rid, s["hist"]))
        g, v, e = got[rid]
        exp_id = s["second"] if signer == "proxy" else s["first"]
        exp_sec = s["first"] if signer == "proxy" else s["second"]
        if (g is not None) != s["signed"] or (s["signed"] and (name_of(g) != exp_id or name_of(v) != exp_sec)):
            drifts += 1
        if g is not None:
            rows.append({"e": "sign", "signer": signer, "guid": g, "verifies": v or "none", "id": rid,
                         "hist": s["hist"]})
    c.traces_validated += len(expect)
    c.extra["schedules_replayed"] = len(expect)
    c.extra["spec_vs_impl_drifts"] = drifts
    c.sample({"schedule": sched["split"][len(sched["split"]) // 2], "signer": "proxy"})
    sched_rows = len(rows)
    # 4. I->S stress: signers against a rotating keeper
    nsign, per = (6, 25) if not thorough else (16, 600)
    branches = []
    for b in range(nsign):
        br = []
        kind = ["proxy", "proxy", "goalstate", "imds", "proxy", "sharedconfig"][b % 6]
        for i in range(per):
            rid, st = schedule_steps(["R1", "SEND"], kind, 100000 + b * 1000 + i)
            br += st[1:]
        branches.append(br)
    keeper = []
    for i in range(per * 6):
        keeper.append(keeper_op(rnd.choice(["k1", "k2", "k1", "k2", "nokey"])))
    branches.append(keeper)
    ev, d, _ = rig.run_rig({"steps": [keeper_op("k1"), {"op": "parallel", "branches": branches}]}, "c10_stress", timeout=900)
    stress = 0
    for rid, g, v, e in sign_events(ev, None):
        c.count()
        if g is not None:
            stress += 1
            rows.append({"e": "sign", "signer": "stress", "guid": g, "verifies": v or "none", "id": rid or "own", "hist": []})
    c.extra["stress_signatures"] = stress
    # 4a. requests that already carry an authorization header (forged, or replayed from a rotated-away key): every value the
    #     host receives under that name must pair an id with a MAC made under that id's secret
    forged = "Azure-HMAC-SHA256 %s %s" % (G["k2"], "0" * 64)
    fsteps = [keeper_op("k1")]
    for i in range(6):
        cn = "fg%d" % i
        fsteps += [{"op": "connect", "conn": cn, "attr": {"uid": 0, "admin": 1, "dip": "168.63.129.16", "dport": 80}},
                   {"op": "request", "conn": cn, "id": "fg%d" % i, "method": "GET", "target": "/machine?comp=goalstate&n=%d" % i,
                    "headers": [["Host", "h"], [rnd.choice(["x-ms-azure-host-authorization", "X-MS-Azure-Host-Authorization"]), forged]]},
                   {"op": "request", "conn": cn, "id": "fh%d" % i, "method": "GET", "target": "/machine?comp=goalstate&m=%d" % i,
                    "headers": [["Host", "h"]]},
                   {"op": "close", "conn": cn}]
    # one keep-alive connection that signs before and after the keeper latches another key (both keys carry the same
    # incarnation number: the rig's set_key always says 1) and after a clear + re-latch
    fsteps += [keeper_op("k1"), {"op": "connect", "conn": "ka", "attr": {"uid": 0, "admin": 1, "dip": "168.63.129.16", "dport": 80}}]
    for i, kop in enumerate(["k1", "k2", "k2", "nokey", "k1", "k1"]):
        fsteps += [keeper_op(kop), {"op": "request", "conn": "ka", "id": "ka%d" % i, "method": "GET", "target": "/machine?comp=goalstate&ka=%d" % i,
                                    "headers": [["Host", "h"]]}]
    fsteps.append({"op": "close", "conn": "ka"})
    ev, d, _ = rig.run_rig({"steps": fsteps, "drain_ms": 200}, "c10_forged", timeout=300)
    nf = 0
    for rid, g, v, e in sign_events(ev, None):
        c.count()
        if g is not None:
            nf += 1
            rows.append({"e": "sign", "signer": "proxy-client-header", "guid": g, "verifies": v or "none", "id": rid or "own", "hist": []})
    if nf < 12:
        raise util.ToolError("forged-header scenario: only %d authorization headers reached the host" % nf)
    c.extra["requests_with_client_authorization_header"] = 6
    # 4b'. own calls that span a rotation: (i) one long-lived WireServer client makes the goal-state call, the keeper latches
    #      k2, the same client makes the shared-config call; (ii) an IMDS call signed under k1 is answered 403 late, the keeper
    #      having latched k2 meanwhile (whatever the client does next, every header pairs an id with its own secret)
    osteps = [keeper_op("k1"),
              {"op": "own_call", "kind": "refresh", "tag": "refresh1", "rotate": {"guid": G["k2"], "key": K["k2"]}},
              keeper_op("k1"),
              {"op": "own_call", "kind": "refresh", "tag": "refresh2"},
              {"op": "set_plan", "id": "GET /metadata/instance*", "resp": {"status": 403, "headers": [["content-type", "text/plain"]],
                                                                           "body": {"text": "signature rejected"}, "delay_ms": 400}},
              {"op": "parallel", "branches": [[{"op": "own_call", "kind": "imds", "tag": "imds403"}],
                                              [{"op": "sleep", "ms": 150}, keeper_op("k2")]]},
              {"op": "set_plan", "id": "GET /metadata/instance*", "resp": {"status": 200, "headers": [["content-type", "application/json"]],
                                                                           "body": {"text": "{}"}}},
              {"op": "own_call", "kind": "imds", "tag": "imds200"}]
    ev, d, _ = rig.run_rig({"steps": osteps, "drain_ms": 200}, "c10_own", timeout=300)
    no = 0
    for rid, g, v, e in sign_events(ev, None):
        c.count()
        if g is not None:
            no += 1
            rows.append({"e": "sign", "signer": "own-call-across-rotation", "guid": g, "verifies": v or "none", "id": rid or "own", "hist": []})
    if no < 5:
        raise util.ToolError("own-call scenario: only %d authorization headers reached the hosts" % no)
    c.extra["own_calls_across_rotation"] = no
    # 4c. the real key keeper re-latches: the host still names key A (whose file the guest lost) and issues a fresh key B on
    #     the acquire; attestation, the agent's own calls and proxied requests must all name the key whose secret made the MAC
    from checks import c12
    A, B = "aaaaaaaa-0000-4000-8000-00000000000a", "bbbbbbbb-0000-4000-8000-00000000000b"
    SB = "5b" * 32
    rsteps = [c12.plan("GET /secure-channel/status", 200, c12.status_doc(A)),
              c12.plan("POST /secure-channel/key", 200, c12.key_doc(B, SB)),
              c12.plan("POST /secure-channel/key/*", 200, ""),
              {"op": "start_key_keeper", "interval_ms": 40}, {"op": "sleep", "ms": 500},
              {"op": "key_state", "tag": "relatch"}]
    for i in range(4):
        cn = "rl%d" % i
        rsteps += [{"op": "connect", "conn": cn, "attr": {"uid": 0, "admin": 1, "dip": "168.63.129.16", "dport": 80}},
                   {"op": "request", "conn": cn, "id": "rl%d" % i, "method": "GET", "target": "/machine?comp=goalstate&r=%d" % i, "headers": [["Host", "h"]]},
                   {"op": "close", "conn": cn}]
    Cg, SC = "cccccccc-0000-4000-8000-00000000000c", "6c" * 32
    rsteps += [{"op": "own_call", "kind": "goalstate", "tag": "rl_own"},
               c12.plan("GET /secure-channel/status", 200, c12.status_doc(B)), {"op": "sleep", "ms": 300},
               {"op": "own_call", "kind": "imds", "tag": "rl_own2"},
               # the host moves on to key C while B is latched: the agent acquires and ATTESTS C (id C, MAC under C's secret)
               c12.plan("POST /secure-channel/key", 200, c12.key_doc(Cg, SC)),
               c12.plan("GET /secure-channel/status", 200, c12.status_doc(Cg)), {"op": "sleep", "ms": 500},
               {"op": "own_call", "kind": "goalstate", "tag": "rl_own3"}]
    ev, d, _ = rig.run_rig({"steps": rsteps, "drain_ms": 200}, "c10_relatch", timeout=300)
    rows.append({"e": "issue", "guid": B})
    rows.append({"e": "issue", "guid": Cg})
    nr = 0
    for rid, g, v, e in sign_events(ev, None, keys={B: SB, Cg: SC}):
        c.count()
        if g is not None:
            nr += 1
            rows.append({"e": "sign", "signer": "relatch:" + (e["target"][:40]), "guid": g, "verifies": v or "none", "id": rid or "keykeeper", "hist": []})
    if nr < 3:
        raise util.ToolError("re-latch scenario: only %d authorization headers reached the host (key keeper did not latch?)" % nr)
    c.extra["relatch_signatures"] = nr
    # 4d. the host re-keys the latched key under the SAME guid (next incarnation, fresh secret): from then on everything that
    #     names the guid is signed with the new secret -- in the running process, and after a restart on the same key folder
    R, S1, S2 = "dddddddd-0000-4000-8000-00000000000d", "7d" * 32, "8e" * 32
    kdir = os.path.join(util.RUNDIR, "c10_rekey_keys")
    shutil.rmtree(kdir, ignore_errors=True)

    def kdoc(secret, inc):
        return dict(c12.key_doc(R, secret), incarnationId=inc)
    traffic = lambda tag: [{"op": "connect", "conn": "c" + tag, "attr": {"uid": 0, "admin": 1, "dip": "168.63.129.16", "dport": 80}},
                           {"op": "request", "conn": "c" + tag, "id": tag, "method": "GET", "target": "/machine?comp=goalstate&t=" + tag, "headers": [["Host", "h"]]},
                           {"op": "close", "conn": "c" + tag}, {"op": "own_call", "kind": "goalstate", "tag": tag + "_own"},
                           {"op": "own_call", "kind": "imds", "tag": tag + "_imds"}]
    ksteps = [c12.plan("GET /secure-channel/status", 200, c12.status_doc(None)),
              c12.plan("POST /secure-channel/key", 200, kdoc(S1, 1)),
              c12.plan("POST /secure-channel/key/*", 200, ""),
              {"op": "start_key_keeper", "interval_ms": 40}, {"op": "sleep", "ms": 500},
              c12.plan("GET /secure-channel/status", 200, c12.status_doc(R)), {"op": "sleep", "ms": 200},
              {"op": "key_state", "tag": "first"}] + traffic("rk1") + [
              # the host drops its latch and hands out the same guid again with the next incarnation and a fresh secret
              # (the agent is in its steady latched state here: no acquisition is in flight)
              {"op": "mark", "tag": "rekey-begin"},
              c12.plan("POST /secure-channel/key", 200, kdoc(S2, 2)),
              c12.plan("GET /secure-channel/status", 200, c12.status_doc(None)), {"op": "sleep", "ms": 500},
              c12.plan("GET /secure-channel/status", 200, c12.status_doc(R)), {"op": "sleep", "ms": 200},
              {"op": "mark", "tag": "rekeyed"}, {"op": "key_state", "tag": "rekeyed"}] + traffic("rk2")
    ev1, d1, _ = rig.run_rig({"steps": ksteps, "drain_ms": 200, "agent_config": {"latchKeyFolder": kdir}}, "c10_rekey", timeout=300)
    # restart: a new process on the same key folder; the host names the latched guid, the agent finds it in its store
    rsteps2 = [c12.plan("GET /secure-channel/status", 200, c12.status_doc(R)),
               c12.plan("POST /secure-channel/key", 500, "no new keys", "text/plain"),
               {"op": "start_key_keeper", "interval_ms": 40}, {"op": "sleep", "ms": 600},
               {"op": "key_state", "tag": "restarted"}] + traffic("rk3")
    ev2, d2, _ = rig.run_rig({"steps": rsteps2, "drain_ms": 200, "agent_config": {"latchKeyFolder": kdir}}, "c10_rekey2", timeout=300)
    shutil.rmtree(kdir, ignore_errors=True)
    ks = {e.get("tag"): e for e in ev1 + ev2 if e["e"] == "KeyState"}
    if not all(ks.get(t, {}).get("guid") == R for t in ("first", "rekeyed", "restarted")):
        raise util.ToolError("re-key scenario: the key was not latched in every phase: %s" % {k: v.get("guid") for k, v in ks.items()})
    rows += [{"e": "issue", "guid": R + "@1"}, {"e": "issue", "guid": R + "@2"}]
    nrk, phase, attests = 0, 1, 0
    for evs, start_phase in ((ev1, 1), (ev2, 2)):
        phase = start_phase
        marks = [i for i, e in enumerate(evs) if e["e"] == "Mark" and e.get("tag") == "rekeyed"]
        cut = marks[0] if marks else -1
        idx = {id(e): i for i, e in enumerate(evs)}
        for rid, g, v, e in sign_events(evs, None, keys={R + "@1": S1, R + "@2": S2}):
            c.count()
            if g is None:
                continue
            if "key-attestation" in e["target"]:
                # attestations follow the acquisition they belong to (repeated until the host's status names the key)
                begun = any(x["e"] == "Mark" and x.get("tag") == "rekey-begin" for x in evs[:idx[id(e)]])
                want = R + "@%d" % (1 if (start_phase == 1 and not begun) else 2)
            else:
                want = R + "@%d" % (2 if (start_phase == 2 or (cut >= 0 and idx[id(e)] > cut)) else 1)
            nrk += 1
            rows.append({"e": "sign", "signer": "rekey:" + (e["target"][:40]), "guid": want if g == R else g, "verifies": v or "none",
                         "id": "rk%d:%s" % (nrk, rid or "keykeeper"), "hist": []})
    if nrk < 10:
        raise util.ToolError("re-key scenario: only %d authorization headers reached the hosts" % nrk)
    c.extra["rekey_same_guid_signatures"] = nrk
    # 4b. the signing helper under concurrent use with two keys
    sg = rig.fn_table([{"kind": "sig_stress", "keys": [K["k1"], K["k2"]], "threads": 6, "iters": 20000 if not thorough else 300000}],
                      "c10_sig", timeout=900)[0]
    ref_ok = sg.get("reference") == [canon.mac(K["k1"], b"GET\n\nhost:h\n/x\na=1"), canon.mac(K["k2"], b"GET\n\nhost:h\n/x\na=1")]
    rows.append({"e": "sigfn", "id": "sigfn", "guid": "-", "verifies": "-", "calls": sg.get("calls", 0),
                 "mismatches": sg.get("mismatches", -1), "refOk": bool(ref_ok)})
    c.extra["signer_function_calls"] = sg.get("calls")
    # 5. the verdict: KeyPairing on every authorization header observed
    remaining = rows
    from vlib import findings
    for _ in range(4):
        ok, why, res = validate_trace(c, "KeyPairTrace", "KeyPairTrace.cfg", remaining, "c10", count=1)
        if ok:
            break
        import re
        ids = re.findall(r'id \|-> "([^"]+)"', res.trace_text)
        bad = next((r for r in remaining if r.get("e") == "sign" and ids and r["id"] == ids[-1]), None)
        if "SignerFunction" in why:
            c.violation("compute_signature returned a MAC made under another key when called concurrently with two keys "
                        "(%s of %s calls)" % (sg.get("mismatches"), sg.get("calls")),
                        {"kind": "signing-helper-mixes-keys"}, {"sig_stress": sg})
            remaining = [r for r in remaining if r.get("e") != "sigfn"]
            continue
        if bad is None:
            raise util.ToolError("KeyPairTrace rejected the trace but the event could not be identified: %s" % why)
        signer = bad["signer"] if bad["signer"] != "stress" else "stress"
        route = "proxy" if bad["id"].startswith("s") and expect.get(bad["id"], ("",))[0] == "proxy" else \
                ("own" if bad["id"] in expect else "stress")
        sig = {"kind": "id-and-mac-from-different-keys", "route": route}
        replay = None
        if bad["id"] in expect:
            sg, s = expect[bad["id"]]
            replay = {"signer": sg, "hist": s["hist"]}
            # re-execute once from the artefact
            rid2, st2 = schedule_steps(s["hist"], sg, 777)
            ev2, _, _ = rig.run_rig({"steps": st2}, "c10_re", timeout=600)
            again = [(g, v) for r, g, v, e in sign_events(ev2, None) if g is not None]
            if not again or again[0][0] == again[0][1]:
                # not from this schedule alone: the signer may carry state from the calls before it (one process runs all
                # schedules in order) -- re-execute the whole sequence and look at the same call again
                ev3, _, _ = rig.run_rig({"steps": sched_steps}, "c10_re_all", timeout=600)
                again3 = {r: (g, v) for r, g, v, e in sign_events(ev3, None)}.get(bad["id"])
                if not again3 or again3[0] is None or again3[0] == again3[1]:
                    raise util.ToolError("mis-paired signature did not reproduce from its schedule %s" % s["hist"])
                replay = {"signer": sg, "hist": s["hist"], "id": bad["id"], "needs_history": True, "steps": sched_steps}
                sig = dict(sig, after="earlier-calls-of-the-same-process")
        c.violation("authorization header announces key %s but its MAC verifies under %s (signer %s, schedule %s)" % (
            name_of(bad["guid"]), name_of(bad["verifies"]) if bad["verifies"] != "none" else "no latched key", bad["signer"], bad.get("hist")),
            sig, replay or {"event": bad})
        if findings.match(c.prop, sig) is None and route != "stress":
            # keep looking for the other routes so that each is reported once
            pass
        remaining = [r for r in remaining if not (r.get("e") == "sign" and (
            (route == "stress" and r["signer"] == "stress") or
            (route != "stress" and r["id"] in expect and (expect[r["id"]][0] == "proxy") == (route == "proxy"))))]
    c.rule = ("schedules = every interleaving of {read, read, send} with <= 2 keeper steps printed by TLC for the design each "
              "signer implements (4 signers), forced through the H4 gate; plus a stress run; distinct = distinct (signer, schedule)")


def replay(c, path):
    r = util.read_json(path)
    build.cargo_build("agent")
    case = r["case"]
    c.states = c.transitions = 1
    c.count("replay")
    c.count(json.dumps(case))
    c.sample(case)
    rid, st = schedule_steps(case["hist"], case["signer"], 778)
    if case.get("needs_history"):
        st = case["steps"]
    ev, _, _ = rig.run_rig({"steps": st}, "c10_replay", timeout=600)
    for r_, g, v, e in sign_events(ev, None):
        if case.get("needs_history") and r_ != case.get("id"):
            continue
        if g is not None and g != v:
            c.violation("replayed schedule still mis-pairs id and MAC", r["signature"], case)
