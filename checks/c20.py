"""C20 — extension health hysteresis and notification rate limit.
spec/Health.tla + spec/HealthRate.tla (full reachable graphs at the real constants), S->I transition cover on the
real StatusState / ServiceState, I->S trace validation of seeded random histories against the property.
spec/HealthLoop.tla: the automaton inside the monitor loop (sequence numbers, <seq>.status files, enable handler);
the real monitor_thread under a paused clock, its status files decided by spec/trace/HealthLoopTrace.tla."""
import itertools
import json
import os
import random
import shutil
import subprocess

from vlib import build, util
from vlib.ctx import validate_trace

ASSUME = [
    "TLC 1.8 and the CommunityModules Json/IOUtils are correct",
    "StatusState and ServiceState are deterministic objects whose only observable is the returned value "
    "(equal outputs on every edge of the complete graph => same automaton)",
    "the ghost run lengths are capped above every constant in the statement (GhostCap > MaxCount)",
    "the rate limiter is exercised with 2 keys x 2 values at the real MAX_STATE_COUNT; keys are independent map entries",
    "monitor loop runs: tokio's paused clock (test-util) only replaces the 15 s sleep between two polls; an iteration of "
    "monitor_thread has no suspension point, so the environment (status file of the agent, enable handler) acts between polls",
    "the install step of the monitor loop (new sequence number under a version mismatch) is one failed observation of the "
    "history, whatever the setup tool answered: the code feeds it to the state machine (report_proxy_agent_service_status)",
]

NS_ENTER = os.path.join(util.VERIF, "harness", "sys", "ns_enter.sh")


def harness(bindir, cmds, timeout=900):
    inp = "\n".join(json.dumps(c) for c in cmds) + "\n"
    p = subprocess.run([os.path.join(bindir, "verif-ext")], input=inp, stdout=subprocess.PIPE,
                       stderr=subprocess.PIPE, text=True, timeout=timeout)
    if p.returncode != 0:
        raise util.ToolError("verif-ext failed rc=%s: %s" % (p.returncode, p.stderr[-2000:]))
    return [json.loads(l) for l in p.stdout.splitlines() if l.strip()]


def graph_from_edges(edges, label_of, out_of):
    ids, labels, outs, lid, oid, E = {}, [], [], {}, {}, []

    def nid(s):
        k = json.dumps(s, sort_keys=True)
        if k not in ids:
            ids[k] = len(ids)
        return ids[k]
    for e in edges:
        s = nid(e["s"])
        t = nid(e["t"])
        lab = json.dumps(label_of(e))
        if lab not in lid:
            lid[lab] = len(labels)
            labels.append(json.loads(lab))
        o = json.dumps(out_of(e))
        if o not in oid:
            oid[o] = len(outs)
            outs.append(json.loads(o))
        E.append((s, lid[lab], t, oid[o]))
    return {"nodes": len(ids), "labels": labels, "outs": outs, "edges": E}


def cap_rle(rle, cap):
    return [(a, b, min(n, cap)) for a, b, n in rle]


def health_rows(inputs_rle, outs_rle):
    """zip an input RLE and an output RLE into (ok, out, n) runs"""
    rows, i, j = [], 0, 0
    ins = [[a, n] for a, n in inputs_rle]
    outs = [[a, n] for a, n in outs_rle]
    while i < len(ins) and j < len(outs):
        n = min(ins[i][1], outs[j][1])
        rows.append((ins[i][0], outs[j][0], n))
        ins[i][1] -= n
        outs[j][1] -= n
        if ins[i][1] == 0:
            i += 1
        if outs[j][1] == 0:
            j += 1
    return rows


def monitor_histories(rnd, thorough):
    """histories for the real monitor loop: {seq0, steps: [(sequence-number changes before the poll, status-file letter,
    what the stand-in setup tool's `install` does from now on)], ext: version of the extension's copy of the agent
    (the installed stand-in answers 1.0.30: anything else is a version mismatch), tmp: the process's temporary
    directory on the 'same' file system as the status folder or on an'other' one}"""
    H = []

    def add(seq0, steps, ext="1.0.30", tmp="same"):
        H.append({"seq0": seq0, "steps": [(list(ch), a, i) for ch, a, i in steps], "ext": ext, "tmp": tmp})

    def h(seq0, text):
        # "s u +1u u +2+1m": letters, each optionally preceded by +<seq> changes; both file-system layouts
        steps = []
        for tok in text.split():
            parts = tok.split("+")
            steps.append((parts[1:-1] + ([parts[-1][:-1]] if len(parts) > 1 else []), tok[-1], ""))
        add(seq0, steps, tmp="same")
        add(seq0, steps, tmp="other")
    # directed: a new goal state while the report stays the same (idle healthy agent, persistently failing agent)
    h("0", "s u +1u u u")
    h("0", "s +1u u +2u +3u u")
    h("3", " ".join(["m"] * 22) + " +4m m m u u")                 # Error carried over a sequence-number change
    h("0", "s u +1+0u u")                                         # two changes between two polls: the old number is back
    h("0", "m +1m m +0m s +1u +0u")
    h("0", "v v +1v v g +2g g +12s u +13u")
    h("7", "s u " + " ".join(["m"] * 19) + " +8m m +9m u +10u")   # around the threshold
    h("0", "s " + " ".join(["u"] * 130) + " +1u u")               # beyond 120 repetitions
    # directed: a new goal state under a VERSION MISMATCH, the install step fails / cannot be started / succeeds
    N, M = "1.0.31", []
    M.append([((), "s", "0"), ((), "u", ""), (("1",), "u", "1"), ((), "u", ""), ((), "u", ""), ((), "u", "")])
    M.append([((), "s", "x"), ((), "u", ""), ((), "u", ""), (("1",), "u", ""), ((), "u", ""), ((), "m", ""), ((), "u", ""), ((), "u", "")])
    M.append([((), "v", "3"), ((), "v", ""), ((), "v", ""), (("1",), "v", ""), ((), "v", "")] + [((), "v", "")] * 20 +
             [((), "s", ""), ((), "u", ""), ((), "u", "")])       # the old agent keeps running
    M.append([((), "m", "0")] + [((), "m", "")] * 16 + [(("1",), "m", "1")] + [((), "m", "")] * 4 + [((), "u", ""), ((), "u", "")])
    M.append([((), "s", "1"), ((), "u", ""), (("1",), "u", "0"), ((), "u", ""), ((), "u", "")])   # a later install succeeds
    M.append([((), "s", "0"), (("1",), "u", "7"), (("2",), "m", "x"), (("3",), "u", "0"), ((), "u", ""), (("4", "3"), "u", "1"), ((), "u", "")])
    for k, st in enumerate(M):
        add("0", st, ext=N, tmp="same")
        add("0", st, ext=N, tmp="other")
    # small scope, exhaustive: every history of 3 (thorough: 4) polls over these steps; layouts alternate
    steps = [(chg, a) for a in ("suvm" if thorough else "sum") for chg in ((), ("n",), ("n", "p"))]
    for k, combo in enumerate(itertools.product(steps, repeat=3)):
        add("0", _concrete(combo), tmp=("same", "other")[k % 2])
    if thorough:
        for k, combo in enumerate(itertools.product([(chg, a) for a in "sum" for chg in ((), ("n",))], repeat=4)):
            add("0", _concrete(combo), tmp=("same", "other")[k % 2])
    # ... and under a version mismatch, for every behaviour of the install command
    steps = [(chg, a) for a in ("usm" if thorough else "um") for chg in ((), ("n",))]
    for inst in ("0", "1", "x"):
        for k, combo in enumerate(itertools.product(steps, repeat=3)):
            st = _concrete(combo)
            st[0] = (st[0][0], st[0][1], inst)
            add("0", st, ext=N, tmp=("other", "same")[k % 2])
    # seeded random: runs of one letter, sequence-number changes sprinkled in (also back to earlier numbers)
    for _ in range(60 if not thorough else 600):
        seq, seen, steps = rnd.choice(["0", "0", "5"]), [], []
        seq0 = seq
        mism = rnd.random() < 0.35
        for _ in range(rnd.randint(2, 7)):
            a = rnd.choice("suuummvg")
            for _ in range(rnd.choice([1, 1, 2, 3, 3, 19, 20, 21, rnd.randint(1, 30)])):
                chg = []
                r = rnd.random()
                if r < 0.15:
                    chg = [str(int(seq) + 1)]
                elif r < 0.19 and seen:
                    chg = [rnd.choice(seen)]
                elif r < 0.23:
                    chg = [str(int(seq) + 1), seq]
                elif r < 0.25:
                    chg = [seq]                                    # enable again with the same number: nothing happens
                for x in chg:
                    if x != seq:
                        seen.append(seq)
                        seq = x
                inst = rnd.choice(["0", "1", "7", "x"]) if mism and (not steps or rnd.random() < 0.1) else ""
                steps.append((chg, a, inst))
        add(seq0, steps, ext=N if mism else "1.0.30", tmp=rnd.choice(["same", "other"]))
    return H


def _concrete(combo):
    """'n' = the next number, 'p' = back to the one before"""
    seq, out = 0, []
    for chg, a in combo:
        cs = []
        for x in chg:
            seq = seq + 1 if x == "n" else seq - 1
            cs.append(str(seq))
        out.append((cs, a, ""))
    return out


ABSENT = {"by": "absent", "st": "none", "obs": "none"}


def monitor_loop(c, bindir, rnd, thorough):
    """5. the REAL monitor loop (hook H10, paused tokio clock) with sequence-number changes, failing install steps and the
    status folder on the same / another file system than the temporary directory: what <seq>.status of the current
    sequence number says after every poll, decided by TLC against HealthLoopTrace"""
    # the design: the loop with the handler moving the sequence number; the defective designs must be rejected
    c.tlc("HealthLoop", "HealthLoop.cfg", workers=4, deadlock=True, required_actions=["Poll", "SeqChange", "AggChange", "Install"],
          timeout=600)
    c.tlc("HealthLoop", "HealthLoop_temprename_samefs.cfg", workers=2, deadlock=True, required_actions=["Poll", "SeqChange"], timeout=600)
    for cfg, why in (("HealthLoop_unkeyed.cfg", "the memoised write must leave the handler's text in the current status file"),
                     ("HealthLoop_keyed.cfg", "the memoised write must leave the handler's text in the current status file"),
                     ("HealthLoop_codeoverride.cfg", "a report overridden by the install step's code is not the hysteresis value"),
                     ("HealthLoop_temprename.cfg", "a rename across file systems never reaches the status folder")):
        r = c.tlc("HealthLoop", cfg, workers=1, coverage=False, deadlock=True, expect_ok=False, timeout=600)
        if r.invariant_violated not in ("CurrentSeqFileIsThisPollsReport", "NoStaleHandlerText"):
            raise util.ToolError("%s: %s (anti-vacuity); TLC said %s" % (
                cfg, why, r.invariant_violated or r.error_lines[:2] or "no violation"))
        c.extra.setdefault("corner_configs", {})[cfg] = "violates %s at depth %d" % (r.invariant_violated, r.depth)
    hist = monitor_histories(rnd, thorough)
    # four sandboxes side by side (each its own scratch directory, namespace and overlays); history k goes to sandbox k % 4
    NW = 4
    lines = [json.dumps({"kind": "monitor", "seq0": h["seq0"], "ext_version": h["ext"], "tmp": h["tmp"],
                         "steps": h["steps"]}) + "\n" for h in hist]
    t = util.Timer()

    def worker(w):
        S = os.path.join(util.RUNDIR, "c20_monitor%d" % w)
        shutil.rmtree(S, ignore_errors=True)
        os.makedirs(os.path.join(S, "h"))
        exe = os.path.join(S, "h", "verif-ext")
        try:
            os.link(os.path.join(bindir, "verif-ext"), exe)
        except OSError:
            shutil.copy2(os.path.join(bindir, "verif-ext"), exe)
        try:
            p = subprocess.run([NS_ENTER, S, exe], input="".join(lines[w::NW]), stdout=subprocess.PIPE, stderr=subprocess.PIPE,
                               text=True, timeout=1800, env=dict(os.environ, VERIF_C17_LAYOUT="separate"))
        except subprocess.TimeoutExpired:
            raise util.ToolError("the monitor loop driver timed out (is the tokio clock paused?)")
        finally:
            shutil.rmtree(os.path.join(S, "ov"), ignore_errors=True)
        if p.returncode != 0:
            raise util.ToolError("verif-ext monitor driver failed rc=%s: %s" % (p.returncode, p.stderr[-2000:]))
        return [json.loads(l) for l in p.stdout.splitlines() if l.strip()]
    from concurrent.futures import ThreadPoolExecutor
    with ThreadPoolExecutor(NW) as ex:
        parts = list(ex.map(worker, range(NW)))
    outs = [None] * len(hist)
    for w, part in enumerate(parts):
        if len(part) != len(lines[w::NW]):
            raise util.ToolError("monitor driver %d answered %d of %d histories" % (w, len(part), len(lines[w::NW])))
        outs[w::NW] = part
    util.log("monitor loop: %d histories, %d polls, %d virtual seconds in %ss" % (
        len(hist), sum(o["polls"] for o in outs), sum(o["virtual_s"] for o in outs), t.s()))
    rows, per_hist, seqchg, carried, installs, failed_then_ok, layouts = [], [], 0, 0, 0, 0, {True: 0, False: 0}
    for h, o in zip(hist, outs):
        seq0, steps = h["seq0"], h["steps"]
        names = o["names"]
        ev = o["events"]
        mism = o["ext_version"] != o["installed_version"]
        if mism != (h["ext"] != "1.0.30") or o["same_fs"] != (h["tmp"] == "same"):
            raise util.ToolError("monitor: the driver ran another environment than asked for: %r / %r" % (h, {k: o[k] for k in ("ext_version", "same_fs")}))
        layouts[o["same_fs"]] += 1
        hdoc = o["handler_doc"]
        if not isinstance(hdoc, dict) or hdoc.get("sub") or "message" not in hdoc:
            raise util.ToolError("monitor: cannot tell what the enable handler's document looks like: %r" % (hdoc,))
        if not ev or ev[0]["e"] != "reset" or not ev[0]["wrote"]:
            raise util.ToolError("monitor: `enable %s` before the loop started: %r" % (seq0, ev[:1]))

        def digest(d):
            if "raw" in d:
                return {"by": "other", "st": "unreadable", "obs": "none"}
            sub = d["sub"]
            if not sub and d["message"] == hdoc["message"]:
                return {"by": "handler", "st": str(d["status"]), "obs": "none"}
            if [x[0] for x in sub] != names:
                return {"by": "other", "st": str(d["status"]), "obs": "none"}
            sts = {x[1] for x in sub}
            obs = "?"
            if sts == {"success"}:
                try:
                    obs = "t%d" % max(e["count"] for e in json.loads(sub[0][2]))
                except (ValueError, KeyError, TypeError):
                    obs = "?"
            elif sts == {"transitioning"}:
                m = sub[0][2]
                obs = ("v" if "does not match proxy agent file version" in m else
                       "m" if "No such file" in m or "os error 2" in m else "g")
            return {"by": "loop", "st": str(d["status"]), "obs": obs}
        cur, cached, inst, npoll, hrows, changed, last_obs, pending_fail = None, None, "0", 0, [], False, None, False
        for e in ev:
            files = {k: digest(v) for k, v in e["files"].items()}
            if e["e"] == "reset":
                cur = e["cur"]
                files.setdefault(cur, dict(ABSENT))      # the handler's document did not reach the folder: an observation
                hrows.append({"e": "reset", "cur": cur, "mismatch": 1 if mism else 0, "files": files})
            elif e["e"] == "seq":
                if e["wrote"] != (e["to"] != cur):
                    raise util.ToolError("monitor: enable %s under %s: wrote=%s" % (e["to"], cur, e["wrote"]))
                if e["wrote"]:
                    cur = e["to"]
                    seqchg += 1
                    changed = True
                    files.setdefault(cur, dict(ABSENT))
                    hrows.append({"e": "seq", "to": cur, "files": files})
            else:
                if e["polls_seen"] != 1:
                    raise util.ToolError("monitor: %d iterations of the loop between two driver steps (expected 1) in %r"
                                         % (e["polls_seen"], h))
                if steps[npoll][2]:
                    inst = steps[npoll][2]
                calls = [x.split()[0] if x.split() else "" for x in e["setup"]]
                will_install = mism and cached != cur
                if inst != "x" and ("install" in calls) != will_install:
                    raise util.ToolError("monitor: install step %s at poll %d of %r (setup tool calls %r)" % (
                        "expected" if will_install else "not expected", npoll, h, e["setup"]))
                if not mism and [x for x in calls if x not in ("purge", "restore")]:
                    raise util.ToolError("monitor: the loop ran the setup tool stand-in with %r without a version mismatch" % e["setup"])
                if will_install:
                    rc = 4 if inst == "x" else int(inst)
                    installs += 1
                    hrows.append({"e": "install", "rc": rc})
                    pending_fail = pending_fail or rc != 0
                cached = cur
                npoll += 1
                files.setdefault(cur, dict(ABSENT))
                hrows.append({"e": "poll", "ok": e["ok"], "obs": e["obs"], "files": files})
                if pending_fail and e["ok"]:
                    failed_then_ok += 1
                    pending_fail = False
                if changed and last_obs == e["obs"]:
                    carried += 1           # a sequence-number change under an unchanged observation
                changed, last_obs = False, e["obs"]
        if npoll != len(steps) or o["polls"] != len(steps):
            raise util.ToolError("monitor: the loop completed %d/%d polls of %d" % (npoll, o["polls"], len(steps)))
        if o["cur"] != cur:
            raise util.ToolError("monitor: current_seq_no.txt says %r, the driver %r" % (o["cur"], cur))
        if o["virtual_s"] < 15 * (len(steps) - 1):
            raise util.ToolError("monitor: %d polls in %d virtual seconds" % (len(steps), o["virtual_s"]))
        per_hist.append(hrows)
        rows += hrows
        c.count("monitor:" + json.dumps(h, sort_keys=True))
    if not seqchg or not carried:
        raise util.ToolError("monitor: no sequence-number change under an unchanged observation was exercised")
    if not installs or not failed_then_ok:
        raise util.ToolError("monitor: no failed install step followed by a successful observation was exercised")
    if not layouts[True] or not layouts[False]:
        raise util.ToolError("monitor: both file-system layouts (temporary directory on the status folder's file system / on "
                             "another one) must be exercised: %r" % layouts)
    c.extra["monitor_thread_histories"] = len(hist)
    c.extra["monitor_thread_polls"] = sum(o["polls"] for o in outs)
    c.extra["monitor_thread_seq_changes"] = seqchg
    c.extra["monitor_thread_seq_changes_under_unchanged_observation"] = carried
    c.extra["monitor_thread_install_steps"] = installs
    c.extra["monitor_thread_failed_install_then_success_observation"] = failed_then_ok
    c.extra["monitor_thread_layouts"] = {"tmp_on_status_folder_fs": layouts[True], "tmp_on_other_fs": layouts[False]}
    c.sample({"monitor_history": hist[0], "rows": per_hist[0][:4]})
    ok, why, res = validate_trace(c, "HealthLoopTrace", "HealthLoopTrace.cfg", rows, "c20_loop_files", count=len(hist),
                                  timeout=1800, heap="4g")
    if not ok:
        # name the offending history: the violating state's line counter points behind the offending row
        import re
        bad = None
        ls = re.findall(r"^/\\ l = (\d+)", res.trace_text, re.M)
        if ls:
            at, acc = int(ls[-1]) - 2, 0
            for k, hr in enumerate(per_hist):
                if acc <= at < acc + len(hr):
                    bad = k
                    break
                acc += len(hr)
        if bad is not None:
            ok1, why1, _ = validate_trace(c, "HealthLoopTrace", "HealthLoopTrace.cfg", per_hist[bad], "c20_loop_files_1")
            if ok1:
                bad = None
        stale = "P_CurrentSeqFile" in why
        kind = "current-seq-status-file-stale" if stale else "current-seq-status-file-hysteresis"
        if stale and bad is not None:
            cur = None
            for r in per_hist[bad]:
                cur = r.get("cur", r.get("to", cur))
                if r["e"] == "poll" and r["files"][cur]["by"] != "loop":
                    if r["files"][cur]["by"] == "absent":
                        kind = "current-seq-status-file-missing"
                    break
        c.violation("the monitor loop (service_main.rs monitor_thread, real loop under a paused clock): after a completed poll "
                    "the status file of the current sequence number %s (%s)%s" % (
                        "is not there" if kind.endswith("missing") else
                        "does not carry the report of that poll" if stale else "breaks the hysteresis of C20", why,
                        "; history %r" % (hist[bad],) if bad is not None else ""),
                    {"kind": kind, "broken": why},
                    {"history": hist[bad] if bad is not None else None, "trace": (per_hist[bad] if bad is not None else rows)[:400]})


def run(c):
    thorough = c.tier == "thorough"
    rnd = random.Random(c.seed)
    c.assumptions = ASSUME
    bindir = build.cargo_build("ext")
    consts = harness(bindir, [{"kind": "constants"}])[0]
    name_of = {consts["success"]: "success", consts["transitioning"]: "transitioning", consts["error"]: "error"}

    # 1. the design: full reachable graphs at the real constants, every invariant in every state
    c.tlc("Health", "Health.cfg", workers=8, deadlock=False, required_actions=["Observe"], timeout=600)
    c.tlc("HealthRate", "HealthRate.cfg", workers=8, required_actions=["Notify"], timeout=900)
    # the rate limiter's three action properties for EVERY key set, value set and RateMax (proof system, not enumeration)
    from vlib import tlaps, tlc as tlcmod0
    pr = tlaps.prove("HealthRateProof", timeout=300)
    c.extra["health_rate_proof_tlaps"] = pr
    if not pr["proved"]:
        raise tlcmod0.TlcError("spec/proofs/HealthRateProof.tla is not proved any more (HealthRate.tla changed?): %s" % pr.get("output_tail", "")[-600:])

    # 2. S->I: transition cover of both graphs on the real objects
    for machine, gen, lab, outf, extra in (
            ("health", "HealthGen", lambda e: e["in"], lambda e: e["out"], {}),
            ("rate", "HealthRateGen", lambda e: [e["k"], e["v"]], lambda e: e["out"], {"max": 120})):
        res = c.tlc(gen, gen + ".cfg", subdir="gen", workers=1, coverage=False, timeout=1200, heap="6g")
        from vlib import tlc as tlcmod
        edges = tlcmod.printed_json(res, "EDGE")
        if not edges:
            raise util.ToolError("generator %s printed no edges" % gen)
        g = graph_from_edges(edges, lab, outf)
        if machine == "health":
            g["outs"] = [{"success": consts["success"], "transitioning": consts["transitioning"],
                          "error": consts["error"]}[o] for o in g["outs"]]
        os.makedirs(util.RUNDIR, exist_ok=True)
        gpath = os.path.join(util.RUNDIR, "c20_%s_graph.json" % machine)
        util.write_json(gpath, g)
        r = harness(bindir, [dict({"kind": "cover", "machine": machine, "graph": gpath}, **extra)], timeout=900)[0]
        util.log("cover %s: %s" % (machine, {k: v for k, v in r.items() if k != "mismatches"}))
        if r["uncovered"]:
            raise util.ToolError("transition cover left %d edges uncovered" % r["uncovered"])
        c.count(n=r["steps"])
        c.traces_validated += r["replays"]
        c.distinct_extra += r["edges"] - r["uncovered"]
        c.extra["cover_" + machine] = {k: v for k, v in r.items() if k != "mismatches"}
        c.extra.setdefault("edges_covered", 0)
        c.extra["edges_covered"] += r["edges"]
        c.sample({"machine": machine, "edge": edges[rnd.randrange(len(edges))]})
        # divergence from the implementation-shaped spec is decided against the *property* by trace validation
        found = False
        for k, m in enumerate(r["mismatches"]):
            if found:
                break
            if machine == "health":
                rows = [{"e": "reset"}]
                for lab_, out_, n in cap_rle(m["replay"], 25):
                    rows += [{"e": "obs", "ok": 1 if lab_ == "ok" else 0, "out": name_of.get(out_, str(out_))}] * n
                ok, why, _ = validate_trace(c, "HealthTrace", "HealthTrace.cfg", rows, "c20_h_mis%d" % k)
            else:
                rows = [{"e": "reset"}]
                for lab_, out_, n in m["replay"]:
                    rows += [{"e": "notify", "k": lab_[0], "v": lab_[1], "emit": bool(out_)}] * n
                ok, why, _ = validate_trace(c, "HealthRateTrace", "HealthRateTrace.cfg", rows, "c20_r_mis%d" % k)
            if not ok:
                found = True
                c.violation("%s: implementation diverges from spec and breaks C20 (%s): got %r, spec %r at step %d"
                            % (machine, why, m["got"], m["want"], m["step"]),
                            {"machine": machine, "broken": why}, {"machine": machine, "replay_rle": m["replay"]})
        if r["mismatch_count"]:
            c.extra["model_drift_" + machine] = ("%d transition-cover steps differ from the implementation-shaped "
                                                 "spec; each was decided against the property by trace validation"
                                                 % r["mismatch_count"])
    c.exhaustive = not any(k.startswith("model_drift") for k in c.extra)

    # 3. I->S: seeded random histories (long runs around the threshold and the saturation point) against the property
    nh = 60 if not thorough else 600
    cmds, plans = [], []
    for _ in range(nh):
        rle = []
        for _ in range(rnd.randint(1, 8)):
            ok = rnd.randint(0, 1)
            n = rnd.choice([1, 1, 2, 3, 19, 20, 21, rnd.randint(1, 40), rnd.choice([9999, 10000, 10001, 10050])])
            rle.append((ok, n))
        plans.append(rle)
        cmds.append({"kind": "health", "rle": rle})
    outs = harness(bindir, cmds)
    rows = []
    for rle, o in zip(plans, outs):
        rows.append({"e": "reset"})
        for ok, out_, n in cap_rle(health_rows(rle, o["out"]), 25):
            rows += [{"e": "obs", "ok": ok, "out": name_of.get(out_, str(out_))}] * n
        c.count(json.dumps(rle))
    c.sample({"history_rle": plans[0], "reports_rle": outs[0]["out"]})
    ok, why, res = validate_trace(c, "HealthTrace", "HealthTrace.cfg", rows, "c20_h_rand", count=nh)
    if not ok:
        c.violation("random health history rejected by HealthTrace: %s" % why, {"machine": "health", "broken": why},
                    {"trace": rows[:2000]})
    # rate limiter
    cmds, plans = [], []
    for _ in range(nh // 2):
        ev = []
        for _ in range(rnd.randint(1, 6)):
            ev.append((rnd.choice(["k1", "k2"]), rnd.choice(["a", "b"]), rnd.choice([1, 2, 119, 120, 121, 240, 241, rnd.randint(1, 300)])))
        plans.append(ev)
        cmds.append({"kind": "rate", "events": ev, "max": 120})
    outs = harness(bindir, cmds)
    rows = []
    for ev, o in zip(plans, outs):
        rows.append({"e": "reset"})
        flat = []
        for k, v, n in ev:
            flat += [(k, v)] * n
        em = []
        for b, n in o["out"]:
            em += [b] * n
        for (k, v), b in zip(flat, em):
            rows.append({"e": "notify", "k": k, "v": v, "emit": b})
        c.count(json.dumps(ev))
    ok, why, res = validate_trace(c, "HealthRateTrace", "HealthRateTrace.cfg", rows, "c20_r_rand", count=len(plans),
                                  timeout=900)
    if not ok:
        c.violation("random notification history rejected by HealthRateTrace: %s" % why,
                    {"machine": "rate", "broken": why}, {"trace": rows[:3000]})
    # 4. the monitor loop's report (service_main.rs), poll by poll through hook H8, with the agent's status file refreshed,
    #    left unchanged, missing, of another version or unreadable before each poll; same property-level trace spec
    nl = 40 if not thorough else 400
    hist = ["m" * 25 + "su" + "mm" + "s" + "m" * 19 + "u" + "m" * 21 + "uu",          # outage first, recovery, blips
            "s" + "mu" * 30 + "uu",                                                       # unchanged file between failures
            "su" + "m" * 20 + "u" + "m" + "uu" + "v" * 22 + "s" + "g" + "ss",
            "v" * 30 + "uu" + "mm" + "u" + "gg" * 12 + "su"]
    hist += ["s" + "u" * 250, "s" * 130 + "m" * 3 + "s" * 125, "v" * 124 + "s" * 3 + "v" * 2]     # beyond 120 repetitions
    for _ in range(nl):
        h = ""
        for _ in range(rnd.randint(2, 9)):
            ch = rnd.choice("suuummvg")
            h += ch * rnd.choice([1, 1, 2, 3, 19, 20, 21, rnd.randint(1, 30)])
        hist.append(h)
    outs = []
    # 20 histories per process: the process-wide event queue (1000 entries, drained by nothing here) must never fill up,
    # a notification that cannot be queued is logged without its text
    for b in range(0, len(hist), 20):
        inp = "\n".join(json.dumps({"kind": "report", "polls": h}) for h in hist[b:b + 20]) + "\n"
        p = subprocess.run(["unshare", "-m", "sh", "-c", "mount -t tmpfs tmpfs /var/log && VERIF_VARLOG_IS_PRIVATE=1 exec " +
                            os.path.join(bindir, "verif-ext")], input=inp, stdout=subprocess.PIPE, stderr=subprocess.PIPE,
                           text=True, timeout=900)
        if p.returncode != 0:
            raise util.ToolError("verif-ext report driver failed rc=%s: %s" % (p.returncode, p.stderr[-2000:]))
        outs += [json.loads(l) for l in p.stdout.splitlines() if l.strip()]
    if any(o.get("queue_full") for o in outs):
        raise util.ToolError("report driver: the event queue of the harness process filled up (notifications not readable from the log)")
    if len(outs) != len(hist):
        raise util.ToolError("report driver answered %d of %d histories" % (len(outs), len(hist)))
    rows = []
    for h, o in zip(hist, outs):
        rows.append({"e": "reset"})
        for ok_, out_ in zip(o["ok"], o["out"]):
            rows.append({"e": "obs", "ok": ok_, "out": name_of.get(out_, str(out_))})
        c.count("loop:" + h)
    # the state notifications the loop emitted during each poll (read back from the service log): the identical
    # (key, value) notification is emitted on change and then at most once per 120 repetitions, whatever its text says
    nrows = []
    for h, o in zip(hist, outs):
        nrows.append({"e": "reset"})
        for ch, em in zip(h, o["emit"]):
            rs, re_, ve, vs = em
            if ch in "su":
                nrows += [{"e": "notify", "k": "k1", "v": "a", "emit": bool(rs)}, {"e": "notify", "k": "k2", "v": "a", "emit": bool(vs)}]
            elif ch == "v":
                nrows += [{"e": "notify", "k": "k1", "v": "a", "emit": bool(rs)}, {"e": "notify", "k": "k2", "v": "b", "emit": bool(ve)}]
            else:
                nrows.append({"e": "notify", "k": "k1", "v": "b", "emit": bool(re_)})
    if not any(r.get("emit") for r in nrows):
        raise util.ToolError("no state notification was seen in the service log (log format changed?)")
    c.extra["monitor_loop_notifications"] = sum(1 for r in nrows if r["e"] == "notify")
    okn, whyn, resn = validate_trace(c, "HealthRateTrace", "HealthRateTrace.cfg", nrows, "c20_r_loop", count=len(hist), timeout=900)
    if not okn:
        c.violation("the monitor loop's state notifications break the rate limit of C20 (%s): key k1 = ReadProxyAgentStatusFile, "
                    "k2 = FileVersion, value a = success, b = error" % whyn, {"machine": "monitor-loop-notifications", "broken": whyn},
                    {"histories": hist, "trace": nrows[:3000]})
    c.extra["monitor_loop_histories"] = len(hist)
    c.extra["monitor_loop_polls"] = sum(len(h) for h in hist)
    ok, why, res = validate_trace(c, "HealthTrace", "HealthTrace.cfg", rows, "c20_h_loop", count=len(hist), timeout=900)
    if not ok:
        c.violation("the monitor loop's report breaks C20 (%s): status file histories through "
                    "report_proxy_agent_aggregate_status" % why, {"machine": "monitor-loop", "broken": why},
                    {"histories": hist, "trace": rows[:3000]})
    monitor_loop(c, bindir, rnd, thorough)
    c.rule = ("S->I: every edge of the complete reachable graphs of Health.tla / HealthRate.tla (real constants) is "
              "replayed on the real object, output compared after every step; I->S: seeded random run-length "
              "histories validated by TLC against the property-level trace specs; the real monitor loop (paused clock) with "
              "sequence-number changes: every <seq>.status read back after every poll, decided by TLC against HealthLoopTrace; "
              "distinct = distinct graph edges exercised + distinct random histories + distinct loop histories")


def replay(c, path):
    run(c)
