"""C20 — extension health hysteresis and notification rate limit.
spec/Health.tla + spec/HealthRate.tla (full reachable graphs at the real constants), S->I transition cover on the
real StatusState / ServiceState, I->S trace validation of seeded random histories against the property."""
import json
import os
import random
import subprocess

from vlib import build, util
from vlib.ctx import validate_trace

ASSUME = [
    "TLC 1.8 and the CommunityModules Json/IOUtils are correct",
    "StatusState and ServiceState are deterministic objects whose only observable is the returned value "
    "(equal outputs on every edge of the complete graph => same automaton)",
    "the ghost run lengths are capped above every constant in the statement (GhostCap > MaxCount)",
    "the rate limiter is exercised with 2 keys x 2 values at the real MAX_STATE_COUNT; keys are independent map entries",
]


def harness(bindir, cmds, timeout=900):
    inp = "\n".join(json.dumps(c) for c in cmds) + "\n"
    p = subprocess.run([os.path.join(bindir, "verif-ext")], input=inp, stdout=subprocess.PIPE,
                       stderr=subprocess.PIPE, text=True, timeout=timeout)
    if p.returncode != 0:
        raise util.ToolError("verif-ext failed rc=%s: %s" % (p.returncode, p.stderr[-2000:]))
    return [json.loads(l) for l in p.stdout.splitlines() if l.strip()]


def graph_from_edges(edges, label_of, out_of):
    ids, labels, outs, lid, oid, E = {}, [], [], {}, {}, []

    def nid(s):
        k = json.dumps(s, sort_keys=True)
        if k not in ids:
            ids[k] = len(ids)
        return ids[k]
    for e in edges:
        s = nid(e["s"])
        t = nid(e["t"])
        lab = json.dumps(label_of(e))
        if lab not in lid:
            lid[lab] = len(labels)
            labels.append(json.loads(lab))
        o = json.dumps(out_of(e))
        if o not in oid:
            oid[o] = len(outs)
            outs.append(json.loads(o))
        E.append((s, lid[lab], t, oid[o]))
    return {"nodes": len(ids), "labels": labels, "outs": outs, "edges": E}


def cap_rle(rle, cap):
    return [(a, b, min(n, cap)) for a, b, n in rle]


def health_rows(inputs_rle, outs_rle):
    """zip an input RLE and an output RLE into (ok, out, n) runs"""
    rows, i, j = [], 0, 0
    ins = [[a, n] for a, n in inputs_rle]
    outs = [[a, n] for a, n in outs_rle]
    while i < len(ins) and j < len(outs):
        n = min(ins[i][1], outs[j][1])
        rows.append((ins[i][0], outs[j][0], n))
        ins[i][1] -= n
        outs[j][1] -= n
        if ins[i][1] == 0:
            i += 1
        if outs[j][1] == 0:
            j += 1
    return rows


def run(c):
    thorough = c.tier == "thorough"
    rnd = random.Random(c.seed)
    c.assumptions = ASSUME
    bindir = build.cargo_build("ext")
    consts = harness(bindir, [{"kind": "constants"}])[0]
    name_of = {consts["success"]: "success", consts["transitioning"]: "transitioning", consts["error"]: "error"}

    # 1. the design: full reachable graphs at the real constants, every invariant in every state
    c.tlc("Health", "Health.cfg", workers=8, deadlock=False, required_actions=["Observe"], timeout=600)
    c.tlc("HealthRate", "HealthRate.cfg", workers=8, required_actions=["Notify"], timeout=900)

    # 2. S->I: transition cover of both graphs on the real objects
    for machine, gen, lab, outf, extra in (
            ("health", "HealthGen", lambda e: e["in"], lambda e: e["out"], {}),
            ("rate", "HealthRateGen", lambda e: [e["k"], e["v"]], lambda e: e["out"], {"max": 120})):
        res = c.tlc(gen, gen + ".cfg", subdir="gen", workers=1, coverage=False, timeout=1200, heap="6g")
        from vlib import tlc as tlcmod
        edges = tlcmod.printed_json(res, "EDGE")
        if not edges:
            raise util.ToolError("generator %s printed no edges" % gen)
        g = graph_from_edges(edges, lab, outf)
        if machine == "health":
            g["outs"] = [{"success": consts["success"], "transitioning": consts["transitioning"],
                          "error": consts["error"]}[o] for o in g["outs"]]
        os.makedirs(util.RUNDIR, exist_ok=True)
        gpath = os.path.join(util.RUNDIR, "c20_%s_graph.json" % machine)
        util.write_json(gpath, g)
        r = harness(bindir, [dict({"kind": "cover", "machine": machine, "graph": gpath}, **extra)], timeout=900)[0]
        util.log("cover %s: %s" % (machine, {k: v for k, v in r.items() if k != "mismatches"}))
        if r["uncovered"]:
            raise util.ToolError("transition cover left %d edges uncovered" % r["uncovered"])
        c.count(n=r["steps"])
        c.traces_validated += r["replays"]
        c.distinct_extra += r["edges"] - r["uncovered"]
        c.extra["cover_" + machine] = {k: v for k, v in r.items() if k != "mismatches"}
        c.extra.setdefault("edges_covered", 0)
        c.extra["edges_covered"] += r["edges"]
        c.sample({"machine": machine, "edge": edges[rnd.randrange(len(edges))]})
        # divergence from the implementation-shaped spec is decided against the *property* by trace validation
        found = False
        for k, m in enumerate(r["mismatches"]):
            if found:
                break
            if machine == "health":
                rows = [{"e": "reset"}]
                for lab_, out_, n in cap_rle(m["replay"], 25):
                    rows += [{"e": "obs", "ok": 1 if lab_ == "ok" else 0, "out": name_of.get(out_, str(out_))}] * n
                ok, why, _ = validate_trace(c, "HealthTrace", "HealthTrace.cfg", rows, "c20_h_mis%d" % k)
            else:
                rows = [{"e": "reset"}]
                for lab_, out_, n in m["replay"]:
                    rows += [{"e": "notify", "k": lab_[0], "v": lab_[1], "emit": bool(out_)}] * n
                ok, why, _ = validate_trace(c, "HealthRateTrace", "HealthRateTrace.cfg", rows, "c20_r_mis%d" % k)
            if not ok:
                found = True
                c.violation("%s: implementation diverges from spec and breaks C20 (%s): got %r, spec %r at step %d"
                            % (machine, why, m["got"], m["want"], m["step"]),
                            {"machine": machine, "broken": why}, {"machine": machine, "replay_rle": m["replay"]})
        if r["mismatch_count"]:
            c.extra["model_drift_" + machine] = ("%d transition-cover steps differ from the implementation-shaped "
                                                 "spec; each was decided against the property by trace validation"
                                                 % r["mismatch_count"])
    c.exhaustive = not any(k.startswith("model_drift") for k in c.extra)

    # 3. I->S: seeded random histories (long runs around the threshold and the saturation point) against the property
    nh = 60 if not thorough else 600
    cmds, plans = [], []
    for _ in range(nh):
        rle = []
        for _ in range(rnd.randint(1, 8)):
            ok = rnd.randint(0, 1)
            n = rnd.choice([1, 1, 2, 3, 19, 20, 21, rnd.randint(1, 40), rnd.choice([9999, 10000, 10001, 10050])])
            rle.append((ok, n))
        plans.append(rle)
        cmds.append({"kind": "health", "rle": rle})
    outs = harness(bindir, cmds)
    rows = []
    for rle, o in zip(plans, outs):
        rows.append({"e": "reset"})
        for ok, out_, n in cap_rle(health_rows(rle, o["out"]), 25):
            rows += [{"e": "obs", "ok": ok, "out": name_of.get(out_, str(out_))}] * n
        c.count(json.dumps(rle))
    c.sample({"history_rle": plans[0], "reports_rle": outs[0]["out"]})
    ok, why, res = validate_trace(c, "HealthTrace", "HealthTrace.cfg", rows, "c20_h_rand", count=nh)
    if not ok:
        c.violation("random health history rejected by HealthTrace: %s" % why, {"machine": "health", "broken": why},
                    {"trace": rows[:2000]})
    # rate limiter
    cmds, plans = [], []
    for _ in range(nh // 2):
        ev = []
        for _ in range(rnd.randint(1, 6)):
            ev.append((rnd.choice(["k1", "k2"]), rnd.choice(["a", "b"]), rnd.choice([1, 2, 119, 120, 121, 240, 241, rnd.randint(1, 300)])))
        plans.append(ev)
        cmds.append({"kind": "rate", "events": ev, "max": 120})
    outs = harness(bindir, cmds)
    rows = []
    for ev, o in zip(plans, outs):
        rows.append({"e": "reset"})
        flat = []
        for k, v, n in ev:
            flat += [(k, v)] * n
        em = []
        for b, n in o["out"]:
            em += [b] * n
        for (k, v), b in zip(flat, em):
            rows.append({"e": "notify", "k": k, "v": v, "emit": b})
        c.count(json.dumps(ev))
    ok, why, res = validate_trace(c, "HealthRateTrace", "HealthRateTrace.cfg", rows, "c20_r_rand", count=len(plans),
                                  timeout=900)
    if not ok:
        c.violation("random notification history rejected by HealthRateTrace: %s" % why,
                    {"machine": "rate", "broken": why}, {"trace": rows[:3000]})
    # 4. the monitor loop's report (service_main.rs), poll by poll through hook H8, with the agent's status file refreshed,
    #    left unchanged, missing, of another version or unreadable before each poll; same property-level trace spec
    nl = 40 if not thorough else 400
    hist = ["m" * 25 + "su" + "mm" + "s" + "m" * 19 + "u" + "m" * 21 + "uu",          # outage first, recovery, blips
            "s" + "mu" * 30 + "uu",                                                       # unchanged file between failures
            "su" + "m" * 20 + "u" + "m" + "uu" + "v" * 22 + "s" + "g" + "ss",
            "v" * 30 + "uu" + "mm" + "u" + "gg" * 12 + "su"]
    hist += ["s" + "u" * 250, "s" * 130 + "m" * 3 + "s" * 125, "v" * 124 + "s" * 3 + "v" * 2]     # beyond 120 repetitions
    for _ in range(nl):
        h = ""
        for _ in range(rnd.randint(2, 9)):
            ch = rnd.choice("suuummvg")
            h += ch * rnd.choice([1, 1, 2, 3, 19, 20, 21, rnd.randint(1, 30)])
        hist.append(h)
    inp = "\n".join(json.dumps({"kind": "report", "polls": h}) for h in hist) + "\n"
    p = subprocess.run(["unshare", "-m", "sh", "-c", "mount -t tmpfs tmpfs /var/log && VERIF_VARLOG_IS_PRIVATE=1 exec " +
                        os.path.join(bindir, "verif-ext")], input=inp, stdout=subprocess.PIPE, stderr=subprocess.PIPE,
                       text=True, timeout=900)
    if p.returncode != 0:
        raise util.ToolError("verif-ext report driver failed rc=%s: %s" % (p.returncode, p.stderr[-2000:]))
    outs = [json.loads(l) for l in p.stdout.splitlines() if l.strip()]
    if len(outs) != len(hist):
        raise util.ToolError("report driver answered %d of %d histories" % (len(outs), len(hist)))
    rows = []
    for h, o in zip(hist, outs):
        rows.append({"e": "reset"})
        for ok_, out_ in zip(o["ok"], o["out"]):
            rows.append({"e": "obs", "ok": ok_, "out": name_of.get(out_, str(out_))})
        c.count("loop:" + h)
    # the state notifications the loop emitted during each poll (read back from the service log): the identical
    # (key, value) notification is emitted on change and then at most once per 120 repetitions, whatever its text says
    nrows = []
    for h, o in zip(hist, outs):
        nrows.append({"e": "reset"})
        for ch, em in zip(h, o["emit"]):
            rs, re_, ve, vs = em
            if ch in "su":
                nrows += [{"e": "notify", "k": "k1", "v": "a", "emit": bool(rs)}, {"e": "notify", "k": "k2", "v": "a", "emit": bool(vs)}]
            elif ch == "v":
                nrows += [{"e": "notify", "k": "k1", "v": "a", "emit": bool(rs)}, {"e": "notify", "k": "k2", "v": "b", "emit": bool(ve)}]
            else:
                nrows.append({"e": "notify", "k": "k1", "v": "b", "emit": bool(re_)})
    if not any(r.get("emit") for r in nrows):
        raise util.ToolError("no state notification was seen in the service log (log format changed?)")
    c.extra["monitor_loop_notifications"] = sum(1 for r in nrows if r["e"] == "notify")
    okn, whyn, resn = validate_trace(c, "HealthRateTrace", "HealthRateTrace.cfg", nrows, "c20_r_loop", count=len(hist), timeout=900)
    if not okn:
        c.violation("the monitor loop's state notifications break the rate limit of C20 (%s): key k1 = ReadProxyAgentStatusFile, "
                    "k2 = FileVersion, value a = success, b = error" % whyn, {"machine": "monitor-loop-notifications", "broken": whyn},
                    {"histories": hist, "trace": nrows[:3000]})
    c.extra["monitor_loop_histories"] = len(hist)
    c.extra["monitor_loop_polls"] = sum(len(h) for h in hist)
    ok, why, res = validate_trace(c, "HealthTrace", "HealthTrace.cfg", rows, "c20_h_loop", count=len(hist), timeout=900)
    if not ok:
        c.violation("the monitor loop's report breaks C20 (%s): status file histories through "
                    "report_proxy_agent_aggregate_status" % why, {"machine": "monitor-loop", "broken": why},
                    {"histories": hist, "trace": rows[:3000]})
    c.rule = ("S->I: every edge of the complete reachable graphs of Health.tla / HealthRate.tla (real constants) is "
              "replayed on the real object, output compared after every step; I->S: seeded random run-length "
              "histories validated by TLC against the property-level trace specs; distinct = distinct graph edges exercised + distinct random histories")


def replay(c, path):
    run(c)
