"""C18 — telemetry is delivered at most once, well-formed, in bounded batches.

spec/Telemetry.tla (reader state machine in the shape of event_reader.rs; properties on ghost variables),
exhaustive TLC runs (sizes x failure patterns with liveness; content classes), S->I: behaviours printed by
spec/gen/TelemetryGen (file set + failure pattern + expected documents) are concretised (sizes at the real
64 KiB boundary, seeded hostile Unicode text) and replayed into the REAL EventReader::start against mock hosts on
the real endpoints (harness/agent vdrv/telemetry.rs, paused tokio clock); every POSTed body is parsed with an
independent XML parser (expat), the CDATA payload is parsed again, event ids/texts are recovered; the observed
documents are compared with the specification's and, I->S, the observed rows are validated by TLC against the
property-level trace specification spec/trace/TelemetryTrace.tla (the verdict).  A seeded random driver adds
larger file sets (I->S only)."""
import concurrent.futures
import json
import os
import random
import shutil
import subprocess
import unicodedata
import xml.parsers.expat as expat

from vlib import build, rig, util
from vlib import tlc as tlcmod
from vlib.ctx import validate_trace

ASSUME = [
    "TLC 1.8 and the CommunityModules Json/IOUtils are correct; expat (Python xml.parsers.expat) decides XML 1.0 "
    "well-formedness",
    "the mock host records the bytes hyper put on the wire; 'the same document retried' = a POST byte-identical to "
    "the previous POST (each event carries a unique token, so two different documents never coincide)",
    "one pass of EventReader::start is delimited by the second goal-state GET (loop_reader went round); the tokio "
    "clock is paused, so 15 s back-offs cost nothing; no timer is pending while socket IO is in flight",
    "'Unicode text free of control characters' is concretised as sequences of assigned, non-Cc, non-surrogate, "
    "non-noncharacter scalar values in the seeded text; the two scalar values XML 1.0 cannot carry in any form "
    "(U+FFFE, U+FFFF: category Cn, not control characters, valid in a Rust String and in the JSON event file) are "
    "judged separately on a minimal one-event input with their own signature (trigger=xml-forbidden-noncharacter); "
    "for exactly those characters (outside the XML 1.0 Char production) U+FFFD in the uploaded text counts as the "
    "event's text appearing as data, every other character must be identical",
    "an event is 'too large for any batch' when envelope + its own element (standard five-entity escaping) is "
    ">= 65536 bytes; element overhead and envelope are measured from a calibration document, not taken from the code",
    "upload failures are concretised as HTTP 400/500/503, connection reset and connection close after the request "
    "was read; the model's Upload(fail) does not distinguish them",
]

MAXB = 65536
M_ABS = 6            # Max of the generator config (Envelope = 0)
STD = {"level": "Informational", "version": "1.0.30", "task": "verif_task", "op": "verif_op",
       "ts": "2024-09-04T02:00:00.222Z", "pid": "4242", "tid": "7"}
MULT = {"level": 1, "message": 1, "version": 1, "task": 1, "op": 1, "ts": 2}
PARAMS_OF = {"level": ["CapabilityUsed"], "message": ["Context1"], "version": ["GAVersion"], "task": ["TaskName"],
             "op": ["Context3"], "ts": ["OpcodeName", "Context2"], "pid": ["EventPid"], "tid": ["EventTid"]}
FAIL_KINDS = ["503", "500", "400", "429", "reset", "close"]
BAD_FILES = ["not json", "", "[{", '[{"EventLevel": 1}]', '[{"Message": "\\ud800"}]', "{}"]


# ------------------------------------------------------------------------------------------------
# seeded text

def _ok_char(cp):
    ch = chr(cp)
    cat = unicodedata.category(ch)
    if cat in ("Cc", "Cs", "Cn"):
        return False
    if 0xFDD0 <= cp <= 0xFDEF or (cp & 0xFFFE) == 0xFFFE:
        return False
    return True


def _pool(ranges, singles=()):
    out = []
    for a, b in ranges:
        out += [chr(x) for x in range(a, b + 1) if _ok_char(x)]
    out += [chr(x) for x in singles if _ok_char(x)]
    return out


P_ASCII = [ch for ch in map(chr, range(0x20, 0x7F)) if ch not in "<>&\"'"]
P_MARK = list("<>&\"'")
P_NONASCII = _pool([(0xA1, 0xFF), (0x391, 0x3C9), (0x410, 0x44F), (0x4E00, 0x4E40), (0x5D0, 0x5EA), (0x627, 0x64A),
                    (0x300, 0x30F), (0x1F600, 0x1F640), (0x1D400, 0x1D433), (0x20000, 0x20010)],
                   [0x200B, 0x200D, 0x2028, 0x2029, 0xFEFF, 0xFFFD, 0xE000, 0xF0000, 0x10FFFD, 0x7FF, 0x800, 0xFFFC,
                    0x10000])
S_MARK = ["</Event>", "</Provider></TelemetryData>", "<Event id=\"7\">", "<Param Name=\"Context1\" Value=\"x\" T=\"mt:wstr\" />",
          "\" T=\"mt:wstr\" /><Param Name=\"Injected\" Value=\"", "' />", "&amp;", "&lt;", "&#x41;", "&#0;", "&bogus;", "&", "<!--",
          "-->", "<?xml version=\"1.0\"?>", "<![CDATA[", "<", ">", "\"", "'", "<<<<<<<<", "&&&&&&&&", "\"\"\"\"", "''''", "/>"]
S_CDATA = ["]]>", "]]]]><![CDATA[>", "]]", "]", "]>", "]]&gt;", "]]>]]>]]>", "]]]]]]>", "]]><x/>", "]]></Event><Event id=\"8\"><![CDATA[",
           "]] >", "]]\u200b>", "]]&#62;"]


def rand_text(rnd, cl, n):
    """n characters of class cl"""
    if n <= 0:
        return ""
    if cl == "plain":
        return "".join(rnd.choices(P_ASCII, k=n))
    out = []
    while sum(len(x) for x in out) < n:
        r = rnd.random()
        if cl == "nonascii":
            out.append(rnd.choice(P_NONASCII) if r < 0.7 else rnd.choice(P_ASCII))
        elif cl == "markup":
            out.append(rnd.choice(S_MARK) if r < 0.35 else rnd.choice(P_MARK) if r < 0.6 else rnd.choice(P_ASCII))
        elif cl == "cdata":
            out.append(rnd.choice(S_CDATA) if r < 0.4 else rnd.choice(P_ASCII))
        else:  # mixed
            out.append(rnd.choice(S_CDATA) if r < 0.15 else rnd.choice(S_MARK) if r < 0.3 else
                       rnd.choice(P_MARK) if r < 0.4 else rnd.choice(P_NONASCII) if r < 0.7 else rnd.choice(P_ASCII))
    return "".join(out)


CLASSES = ["plain", "nonascii", "markup", "cdata", "mixed"]


def esc_len(s):
    """UTF-8 length after the standard five-entity escaping"""
    return (len(s.encode("utf-8")) + 4 * s.count("&") + 5 * (s.count("'") + s.count('"'))
            + 3 * (s.count("<") + s.count(">")))


def expand(recipe):
    if isinstance(recipe, str):
        return recipe
    return "".join(s * n for s, n in recipe)


def recipe_len(recipe):
    if isinstance(recipe, str):
        return esc_len(recipe)
    return sum(esc_len(s) * n for s, n in recipe)


def make_event(rnd, eid, cl, target_elem, cal, tag):
    """An event of content class cl whose <Event> element is predicted to be exactly target_elem bytes
    (None: a short event).  Returns (event dict of recipes, predicted element bytes)."""
    ev = dict(STD)
    if cl != "plain":
        for f in ("level", "version", "task", "op", "ts"):
            if rnd.random() < 0.5:
                ev[f] = rand_text(rnd, cl, rnd.randint(1, 24))
        # the thread id of a foreign / damaged event file may hold any text as well; it is reported as a number (a text
        # that is none becomes 0: one digit, like the calibration's "7", so the predicted element size is unchanged)
        if rnd.random() < 0.25:
            t = rand_text(rnd, cl, rnd.randint(1, 24))
            if not t.strip().lstrip("+").isdigit():
                ev["tid"] = t
    other = sum(MULT[f] * esc_len(ev[f]) for f in MULT if f != "message")
    token = "EVT-%s-%d:" % (tag, eid)
    head = rand_text(rnd, cl, rnd.randint(0, 60))
    tail = rand_text(rnd, cl, rnd.randint(0, 12)) if cl in ("cdata", "markup", "mixed") and rnd.random() < 0.6 else ""
    if cl in ("cdata", "mixed") and rnd.random() < 0.3:
        tail = rnd.choice(["]]", "]", "]]>", "]]]"])
    if target_elem is None:
        want = None
    else:
        want = target_elem - cal["ov_base"] - other       # escaped bytes the message must have
        if want < esc_len(token):
            want = esc_len(token)
    segs = [[token, 1]]
    if want is None:
        segs += [[head, 1], [rand_text(rnd, cl, rnd.randint(0, 300)), 1], [tail, 1]]
    else:
        left = want - esc_len(token)
        if esc_len(head) + esc_len(tail) > left:
            head, tail = "", ""
        left -= esc_len(head) + esc_len(tail)
        segs.append([head, 1])
        # bulk: a random chunk repeated (long runs), then an exact ASCII filler
        if left > 0:
            chunk = rand_text(rnd, cl, rnd.choice([1, 1, 3, 17, 64, 200]))
            cl_len = esc_len(chunk)
            if cl_len > 0 and left // cl_len > 0:
                reps = left // cl_len
                if rnd.random() < 0.5 and reps > 2:
                    reps = rnd.randint(reps // 2, reps)
                segs.append([chunk, reps])
                left -= reps * cl_len
            if left > 0:
                segs.append([rnd.choice("xyzw01 ._-"), left])
        segs.append([tail, 1])
    segs = [s for s in segs if s[0] and s[1] > 0]
    ev["message"] = segs
    pred = cal["ov_base"] + other + recipe_len(segs)
    return ev, pred


# ------------------------------------------------------------------------------------------------
# independent oracle: parse what the host received

def _parse(data, on_start, on_end, on_chars):
    p = expat.ParserCreate()
    p.buffer_text = True
    p.buffer_size = 1 << 20
    p.StartElementHandler = on_start
    p.EndElementHandler = on_end
    p.CharacterDataHandler = on_chars
    p.Parse(data, True)


def parse_document(body):
    """-> (ok, diag, events) ; events: list of dict param-name -> value, plus '_order' and '_shape'."""
    stack, events, cur, junk = [], [], [], []
    shape = []

    def st(name, attrs):
        stack.append(name)
        shape.append((len(stack), name, tuple(sorted(attrs.items())) if name != "Event" or True else ()))
        if name == "Event" and len(stack) == 3:
            cur.append([])

    def en(name):
        if name == "Event" and len(stack) == 3:
            events.append("".join(cur.pop()))
        stack.pop()

    def ch(data):
        if len(stack) == 3 and stack[-1] == "Event":
            cur[-1].append(data)
        elif data.strip():
            junk.append(data[:40])

    try:
        _parse(body, st, en, ch)
    except expat.ExpatError as ex:
        return False, "outer-not-wellformed: %s" % ex, []
    if junk:
        return False, "structure-altered: text outside events %r" % junk[:2], []
    want_prefix = [(1, "TelemetryData"), (2, "Provider")]
    got = [(d, n) for d, n, _ in shape]
    if got[:2] != want_prefix or any(x != (3, "Event") for x in got[2:]):
        return False, "structure-altered: element tree %r" % got[:8], []
    if any(a != (("id", "7"),) for d, n, a in shape[2:]):
        return False, "structure-altered: event attributes", []
    out = []
    for inner in events:
        params, ijunk, order, depth = {}, [], [], [0]

        def ist(name, attrs):
            depth[0] += 1
            if depth[0] == 1:
                return
            order.append((depth[0], name, tuple(sorted(attrs.keys())), attrs.get("Name"), attrs.get("T")))
            if name == "Param" and "Name" in attrs and attrs["Name"] not in params:
                params[attrs["Name"]] = attrs.get("Value")
            elif name == "Param":
                ijunk.append("duplicate/unnamed Param")

        def ien(name):
            depth[0] -= 1

        def ich(data):
            if data.strip():
                ijunk.append(data[:40])
        try:
            _parse(("<r>" + inner + "</r>").encode("utf-8"), ist, ien, ich)
        except expat.ExpatError as ex:
            return False, "inner-not-wellformed: %s" % ex, []
        if ijunk:
            return False, "structure-altered: inside event %r" % ijunk[:2], []
        params["_order"] = order
        out.append(params)
    return True, "", out


def learn_template(c, body):
    ok, diag, evs = parse_document(body)
    if not ok or len(evs) != 2:
        raise util.ToolError("calibration document does not parse: %s" % diag)
    starts, pos = [], 0
    while True:
        i = body.find(b'<Event id="7">', pos)
        if i < 0:
            break
        j = body.find(b"</Event>", i)
        starts.append((i, j + len(b"</Event>")))
        pos = j
    if len(starts) != 2:
        raise util.ToolError("calibration: expected 2 event elements, found %d" % len(starts))
    elem = [b - a for a, b in starts]
    envelope = len(body) - sum(elem)
    return envelope, elem, evs


def xml_carriable(s):
    """the text as XML 1.0 can carry it at best: scalar values outside the Char production
    (#x9 | #xA | #xD | [#x20-#xD7FF] | [#xE000-#xFFFD] | [#x10000-#x10FFFF]) cannot appear in a document in any
    form, so U+FFFD in their place counts as the event's text appearing as data; every other character is exact."""
    def okc(ch):
        o = ord(ch)
        return o in (0x9, 0xA, 0xD) or 0x20 <= o <= 0xD7FF or 0xE000 <= o <= 0xFFFD or 0x10000 <= o <= 0x10FFFF
    return "".join(ch if okc(ch) else "\ufffd" for ch in s)


def check_event(ev_obs, ev_src, template):
    """every Param that carries event text has exactly the text; all other structure equals the calibration's"""
    if ev_obs["_order"] != template["_order"]:
        return "structure-altered: params differ from the calibration document"
    for f, names in PARAMS_OF.items():
        want = xml_carriable(expand(ev_src[f]))
        for nm in names:
            if ev_obs.get(nm) != want:
                if f in ("pid", "tid"):
                    continue
                return "text-altered: %s (%s) differs from the event's text" % (nm, f)
    for k, v in template.items():
        if not k.startswith("_") and k not in template["_text_params"] and ev_obs.get(k) != v:
            return "structure-altered: constant Param %s changed" % k
    return ""


# ------------------------------------------------------------------------------------------------
# running the real reader

def run_driver(name, cases, bindir, timeout=600, wall_limit=25):
    """Runs the cases in one driver process (a new one for the rest after a case hit the wall-clock limit).
    Returns (results, [output dirs], run dir of the first process, panics)."""
    d0, results, outs, panics, left, part = None, [], [], [], list(cases), 0
    while left:
        d, exe = rig.prepare("%s_%d" % (name, part) if part else name, bindir)
        d0 = d0 or d
        out = os.path.join(d, "out")
        sp = os.path.join(d, "script.json")
        with open(sp, "w") as f:
            json.dump({"events_dir": os.path.join(d, "events"), "cases": left, "case_wall_limit_s": wall_limit}, f)
        env = dict(os.environ, VERIF_CMD="telemetry", VERIF_SCRIPT=sp, VERIF_OUT=out, RUST_BACKTRACE="0")
        cmd = rig.NS + ["sh", "-c", rig.NS_SETUP_PRIVATE + " && exec " + exe]
        try:
            with open(os.path.join(d, "stdout.txt"), "w") as so:
                p = subprocess.run(cmd, env=env, cwd=d, stdout=so, stderr=subprocess.PIPE, timeout=timeout, text=True,
                                   errors="replace")
        except subprocess.TimeoutExpired:
            raise util.ToolError("telemetry driver %s timed out after %ss" % (name, timeout))
        if p.returncode != 0:
            raise util.ToolError("telemetry driver %s failed rc=%s: %s" % (name, p.returncode, p.stderr[-2000:]))
        res = util.read_ndjson(os.path.join(out, "results.ndjson"))
        if os.path.exists(os.path.join(out, "trace.ndjson")):
            panics += [e for e in util.read_ndjson(os.path.join(out, "trace.ndjson")) if e.get("e") == "Panic"]
        if len(res) != len(left) and not (res and res[-1]["reason"] == "wall-limit"):
            raise util.ToolError("telemetry driver %s: %d results for %d cases" % (name, len(res), len(left)))
        for r in res:
            r["_out"] = out
        results += res
        outs.append(d)
        left = left[len(res):]
        part += 1
        if part >= 2 and left:
            # two cases of this chunk already ran into the wall-clock limit: that is enough to judge; the rest of
            # the chunk is not executed (counted, and the run is incomplete unless a violation is confirmed)
            results += [{"case": x["id"], "reason": "skipped", "posts": [], "remaining": [], "terminated": False,
                         "virtual_ms": 0, "goalstate_gets": 0, "_out": None} for x in left]
            left = []
    return results, outs, d0, panics


def observe(case, res, outdir, cal):
    """Turn one case's result into (rows for the trace spec, observed batches, observed posts, diagnostics)."""
    if res["reason"] == "skipped":
        return [], [], [], [], []
    src = {e["id"]: e for f in case["meta"]["files"] for e in f["events"]}
    rows = [{"e": "Reset", "envelope": cal["envelope"]}]
    for k, f in enumerate(case["meta"]["files"]):
        rows.append({"e": "File", "f": k + 1, "bad": f["bad"],
                     "events": [{"id": e["id"], "sz": e["pred"]} for e in f["events"]]})
    batches, posts, diags = [], [], []
    last = None
    for p in res["posts"]:
        if not p["same"] or last is None:
            with open(os.path.join(outdir, p["file"]), "rb") as fh:
                body = fh.read()
            ok, diag, evs = parse_document(body)
            ids = []
            if ok:
                for e in evs:
                    tok = (e.get("Context1") or "")
                    eid = 0
                    pre = "EVT-%s-" % case["meta"]["tag"]
                    if tok.startswith(pre) and ":" in tok[len(pre):len(pre) + 12]:
                        try:
                            eid = int(tok[len(pre):].split(":", 1)[0])
                        except ValueError:
                            eid = 0
                    ids.append(eid)
                    if eid in src:
                        why = check_event(e, src[eid]["event"], cal["template"])
                        if why:
                            ok, diag = False, why
                    else:
                        ok, diag = False, "text-altered: event token not recovered"
            if not evs:
                # the document did not parse: attribute it to events by scanning the raw bytes for their tokens
                import re
                seen = []
                for m in re.finditer(rb"EVT-%s-(\d+):" % case["meta"]["tag"].encode(), body):
                    if int(m.group(1)) not in seen:
                        seen.append(int(m.group(1)))
                ids = seen
            ctype = p["headers"].get("content-type", "")
            last = {"ids": ids, "bytes": len(body), "wf": ok, "diag": diag, "ctype": ctype}
            if not ok:
                diags.append(diag)
            batches.append(ids)
        rows.append({"e": "Upload", "ids": last["ids"], "bytes": last["bytes"], "wf": last["wf"],
                     "same": bool(p["same"]), "ok": p["reply"] == "ok"})
        posts.append((len(batches), p["reply"] == "ok"))
    names = [f["name"] for f in case["meta"]["files"]]
    remaining = [names.index(n) + 1 for n in res["remaining"] if n in names]
    extra_files = [n for n in res["remaining"] if n not in names]
    rows.append({"e": "Done", "terminated": bool(res["terminated"]), "remaining": remaining})
    return rows, batches, posts, diags, extra_files


def strip(case):
    return {k: v for k, v in case.items() if k != "meta"}


# ------------------------------------------------------------------------------------------------
# concretisation of generated behaviours

def real_sizes(rnd, beh, cal):
    cap = MAXB - cal["envelope"]                 # sum of elements must be <= cap - 1
    unit = (cap - 1) // (M_ABS - 1)
    rem = (cap - 1) - unit * (M_ABS - 1)
    n = len(beh["ev"])
    r = {}
    for i in range(1, n + 1):
        s = beh["ev"][i - 1]["sz"]
        if s < M_ABS - 1:
            r[i] = s * unit
        elif s == M_ABS - 1:
            r[i] = rnd.choice([cap - 1, cap - 1, cap - 2, cap - unit, rnd.randint(cap - unit, cap - 1)])
        else:
            r[i] = rnd.choice([cap, cap, cap + 1, cap + rnd.randint(2, 5000), 2 * MAXB + rnd.randint(0, 999)])
    for b in beh["composed"]:
        if all(beh["ev"][i - 1]["sz"] < M_ABS - 1 for i in b["ids"]) and b["size"] == M_ABS - 1:
            r[b["ids"][0]] += rem                # an exactly full document: 65535 bytes
    return r


def concretise(rnd, beh, cal, tag):
    r = real_sizes(rnd, beh, cal)
    files, sfiles = [], []
    for k, f in enumerate(beh["files"]):
        name = "%04d.json" % (k + 1)
        if f["bad"]:
            files.append({"name": name, "bad": True, "events": []})
            sfiles.append({"name": name, "raw": rnd.choice(BAD_FILES), "events": []})
            continue
        evs, sevs = [], []
        for i in f["ids"]:
            cl = beh["ev"][i - 1]["cl"]
            if cl == "any":
                cl = rnd.choice(CLASSES)
            e, pred = make_event(rnd, i, cl, r[i], cal, tag)
            evs.append({"id": i, "pred": pred, "cl": cl, "abs": beh["ev"][i - 1]["sz"], "event": e})
            sevs.append(e)
        files.append({"name": name, "bad": False, "events": evs})
        sfiles.append({"name": name, "raw": None, "events": sevs})
    replies = ["ok" if p["ok"] else rnd.choice(FAIL_KINDS) for p in beh["posts"]]
    return {"id": tag, "files": sfiles, "replies": replies, "default_reply": "ok",
            "post_limit": 5 * (len(beh["ev"]) + 1) + 10,
            "meta": {"tag": tag, "files": files, "kind": "generated",
                     "expect": {"batches": [b["ids"] for b in beh["composed"]],
                                "posts": [[p["b"], p["ok"]] for p in beh["posts"]], "dropped": beh["dropped"]}}}


def staged_case(rnd, cal, tag):
    """Two tasks share the events directory: while the reader's first pass uploads, the event logger finishes its hand-over
    of the next file (<name>.tmp, complete, is renamed to <name>.json while the second POST of the pass is being answered,
    or when the pass ends, whichever comes first).  Two reader passes: every
    event is uploaded in at most one batch, and both files are gone in the end."""
    files, sfiles, eid = [], [], 0
    for k, nev in enumerate([rnd.choice([1, 3]), rnd.choice([2, 4])]):
        evs, sevs = [], []
        for _ in range(nev):
            eid += 1
            e, pred = make_event(rnd, eid, "plain", None, cal, tag)
            evs.append({"id": eid, "pred": pred, "cl": "plain", "abs": None, "event": e})
            sevs.append(e)
        final = "%04d.json" % (k + 1)
        files.append({"name": final, "bad": False, "events": evs})
        sfiles.append({"name": final if k == 0 else "0002.tmp", "raw": None, "events": sevs})
    return {"id": tag, "files": sfiles, "replies": [], "default_reply": "ok", "post_limit": 5 * (eid + 1) + 10,
            "passes": 2, "publish_at_post": {"n": 1, "from": "0002.tmp", "to": "0002.json"},   # (or when the first pass ends)
            "meta": {"tag": tag, "files": files, "kind": "staged", "expect": None}}


def random_case(rnd, cal, tag, thorough):
    cap = MAXB - cal["envelope"]
    nfiles = rnd.choice([1, 1, 2, 3, 4])
    files, sfiles, eid = [], [], 0
    budget = rnd.choice([3, 6, 12]) * MAXB
    for k in range(nfiles):
        name = "%04d.json" % (k + 1)
        if rnd.random() < 0.12:
            files.append({"name": name, "bad": True, "events": []})
            sfiles.append({"name": name, "raw": rnd.choice(BAD_FILES), "events": []})
            continue
        evs, sevs = [], []
        nev = rnd.choice([0, 1, 2, 5, 20, 45, rnd.randint(1, 70)])
        for _ in range(nev):
            if budget <= 0:
                break
            eid += 1
            r = rnd.random()
            if r < 0.6:
                target = None
            elif r < 0.8:
                target = rnd.randint(3000, 30000)
            elif r < 0.9:
                target = cap + rnd.choice([-3, -2, -1, 0, 1, 2]) - rnd.choice([0, 0, 0, cal["ov_small"]])
            else:
                target = cap + rnd.randint(0, 70000)
            e, pred = make_event(rnd, eid, rnd.choice(CLASSES), target, cal, tag)
            budget -= pred
            evs.append({"id": eid, "pred": pred, "cl": "random", "abs": None, "event": e})
            sevs.append(e)
        files.append({"name": name, "bad": False, "events": evs})
        sfiles.append({"name": name, "raw": None, "events": sevs})
    replies, mode = [], rnd.choice(["ok", "flaky", "flaky", "down", "bursts"])
    for _ in range(400):
        if mode == "ok":
            replies.append("ok")
        elif mode == "flaky":
            replies.append("ok" if rnd.random() < 0.6 else rnd.choice(FAIL_KINDS))
        elif mode == "down":
            replies.append(rnd.choice(FAIL_KINDS))
        else:
            replies += [rnd.choice(FAIL_KINDS)] * rnd.choice([1, 4, 5, 6, 9]) + ["ok"] * rnd.randint(1, 3)
    replies = replies[:400]
    stuck = None
    if tag.startswith("stuck"):
        # the host answers every post the same way for good (down, or throttling): "any pattern of upload failures" includes
        # the patterns that never end; processing still terminates and removes what it consumed
        stuck = FAIL_KINDS[int(tag[5:]) % len(FAIL_KINDS)]
        replies = []
    return {"id": tag, "files": sfiles, "replies": replies, "default_reply": stuck or rnd.choice(["ok", "503", "429"]),
            "post_limit": 5 * (eid + 1) + 10,
            "meta": {"tag": tag, "files": files, "kind": "random", "expect": None}}


# ------------------------------------------------------------------------------------------------

class CalibrationBroken(Exception):
    def __init__(self, inv, diag, case):
        Exception.__init__(self, diag)
        self.inv, self.diag, self.case = inv, diag, case


def calibrate(bindir):
    e1 = dict(STD, message=[["calibration-one", 1]])
    e2 = dict(STD, message=[["calibration-two-", 1], ["x", 40]])
    case = {"id": "cal", "files": [{"name": "0001.json", "raw": None, "events": [e1, e2]}], "replies": [],
            "default_reply": "ok", "post_limit": 10}
    res, outs, d, _ = run_driver("c18_cal", [case], bindir)
    r = res[0]
    out = r["_out"]
    if r["reason"] in ("panic", "wall-limit", "post-limit") or not r["posts"]:
        # two short plain-ASCII events and a host that answers 200: not noise, the reader itself failed
        raise CalibrationBroken("P_Terminates" if r["posts"] or r["reason"] != "pass-complete" else "P_NotBlocked",
                                "benign input: reader ended with reason=%s, %d POST(s), files left: %s"
                                % (r["reason"], len(r["posts"]), r["remaining"]), case)
    body = open(os.path.join(out, r["posts"][0]["file"]), "rb").read()
    ok, diag, _evs = parse_document(body)
    if not ok:
        raise CalibrationBroken("P_WellFormed", "benign input: " + diag, case)
    envelope, elem, evs = learn_template(None, body)
    # the document lists events in pop order: e2 first
    by_msg = {e["Context1"]: (k, e) for k, e in enumerate(evs)}
    k1 = by_msg[expand(e1["message"])][0]
    ov = elem[k1] - sum(MULT[f] * esc_len(expand(e1[f])) for f in MULT)
    k2 = by_msg[expand(e2["message"])][0]
    ov2 = elem[k2] - sum(MULT[f] * esc_len(expand(e2[f])) for f in MULT)
    if ov != ov2:
        raise util.ToolError("calibration: per-event overhead not constant (%d vs %d)" % (ov, ov2))
    template = dict(evs[k1])
    template["_text_params"] = sorted({n for names in PARAMS_OF.values() for n in names})
    shutil.rmtree(d, ignore_errors=True)
    return {"envelope": envelope, "ov_base": ov, "template": template,
            "ov_small": elem[k1]}


def locate_case(res, index):
    """row number (l) of the last state of TLC's counterexample -> case position"""
    import re
    m = re.findall(r"/\\ l = (\d+)", res.stdout)
    if not m:
        return None
    l = int(m[-1]) - 1          # l points at the next row; the offending row is l - 1 (1-based) => index l - 2
    row = max(0, l - 1)
    pos = None
    for k, (a, b) in enumerate(index):
        if a <= row < b:
            pos = k
    return pos


def judge(c, cases, observed, name):
    """I->S over all cases; returns list of (case position, reason) rejected by the property-level trace spec."""
    rejected = []
    todo = list(range(len(cases)))
    for _round in range(6):
        rows, index = [], []
        for k in todo:
            a = len(rows)
            rows += observed[k]["rows"]
            index.append((a, len(rows)))
        if not rows:
            break
        ok, why, res = validate_trace(c, "TelemetryTrace", "TelemetryTrace.cfg", rows, "%s_r%d" % (name, _round),
                                      count=len(todo), timeout=900)
        if ok:
            break
        pos = locate_case(res, index)
        if pos is None:
            raise util.ToolError("trace rejected (%s) but the offending case could not be located" % why)
        k = todo[pos]
        ok1, why1, _ = validate_trace(c, "TelemetryTrace", "TelemetryTrace.cfg", observed[k]["rows"],
                                      "%s_case%d" % (name, k), count=0)
        if ok1:
            raise util.ToolError("case %s rejected in the batch (%s) but accepted alone" % (cases[k]["id"], why))
        rejected.append((k, why1))
        todo.remove(k)
    return rejected


def run_cases(c, cases, bindir, cal, name, workers=4, chunk=120):
    chunks = [cases[i:i + chunk] for i in range(0, len(cases), chunk)]
    observed = [None] * len(cases)
    panics_all = []

    def work(ci):
        res, outs, d, panics = run_driver("%s_%d" % (name, ci), [strip(x) for x in chunks[ci]], bindir)
        obs = []
        for case, r in zip(chunks[ci], res):
            rows, batches, posts, diags, extra_files = observe(case, r, r["_out"], cal)
            obs.append({"rows": rows, "batches": batches, "posts": posts, "diags": diags,
                        "extra_files": extra_files, "reason": r["reason"], "virtual_ms": r["virtual_ms"],
                        "nposts": len(r["posts"]), "goalstate_gets": r["goalstate_gets"]})
        for x in outs:
            shutil.rmtree(x, ignore_errors=True)
        return ci, obs, panics

    with concurrent.futures.ThreadPoolExecutor(max_workers=workers) as ex:
        for ci, obs, panics in ex.map(work, range(len(chunks))):
            for j, o in enumerate(obs):
                observed[ci * chunk + j] = o
            panics_all += panics
    return observed, panics_all


def confirm_and_report(c, case, why, obs, bindir, cal, label):
    """save the artefact, re-execute once from it, report only a verdict that reproduces"""
    art = {"case": strip(case), "meta": case["meta"], "calibration": {k: cal[k] for k in ("envelope", "ov_base")},
           "broken": why, "diag": obs["diags"][:3]}
    res, outs, d, _ = run_driver("c18_confirm_%s" % label, [strip(case)], bindir)
    rows, batches, posts, diags, extra = observe(case, res[0], res[0]["_out"], cal)
    shutil.rmtree(d, ignore_errors=True)
    ok, why2, _ = validate_trace(c, "TelemetryTrace", "TelemetryTrace.cfg", rows, "c18_confirm_%s" % label, count=0)
    if ok:
        c.extra.setdefault("unreproduced", []).append({"case": case["id"], "first": why, "second": why2})
        return False
    if why2 != why:
        # rejected again, by another clause of the property (timing-dependent behaviour): the second verdict is reported
        c.extra.setdefault("reproduced_under_another_clause", []).append({"case": case["id"], "first": why, "second": why2})
        why, obs = why2, dict(obs, diags=diags)
    inv = why.replace("invariant ", "")
    diag = (diags[0] if diags else obs["reason"] if inv == "P_Terminates" else "").split(":")[0]
    nev = sum(len(f["events"]) for f in case["meta"]["files"])
    sig = {"broken": inv, "diag": diag}
    if case["meta"].get("trigger"):
        sig["trigger"] = case["meta"]["trigger"].split(" ")[0]
    c.violation("C18 broken on the real EventReader: %s (%s); case %s [%s] with %d event(s) in %d file(s), %d POST(s); "
                "first diagnostic: %s" % (inv, diag, case["id"], case["meta"].get("trigger", case["meta"]["kind"]), nev,
                                          len(case["meta"]["files"]), len(posts), (diags[0] if diags else "-")[:300]),
                sig, art)
    return True


def noncharacter_cases(cal):
    """minimal inputs: one file, one short event whose message holds U+FFFE / U+FFFF.  These are Unicode scalar
    values of category Cn (not control characters) that a Rust String / the JSON event file carry unchanged, but
    that the XML 1.0 Char production excludes in every form."""
    cases = []
    for k, ch in enumerate(["\ufffe", "\uffff"]):
        tag = "nc%d" % k
        e = dict(STD, message=[["EVT-%s-1:" % tag, 1], [ch, 1]])
        pred = cal["ov_base"] + sum(MULT[f] * recipe_len(e[f]) for f in MULT)
        cases.append({"id": tag, "files": [{"name": "0001.json", "raw": None, "events": [e]}], "replies": [],
                      "default_reply": "ok", "post_limit": 10,
                      "meta": {"tag": tag, "kind": "noncharacter", "expect": None,
                               "trigger": "xml-forbidden-noncharacter U+%04X" % ord(ch),
                               "files": [{"name": "0001.json", "bad": False,
                                          "events": [{"id": 1, "pred": pred, "cl": "noncharacter", "abs": None,
                                                      "event": e}]}]}})
    return cases


def run(c):
    thorough = c.tier == "thorough"
    rnd = random.Random(c.seed)
    c.assumptions = ASSUME
    bindir = build.cargo_build("agent")

    # 1. the design: exhaustive, safety + liveness, no state constraint
    acts = ["ReadFile", "ReadFail", "CleanFile", "Finish", "NewBatch", "FileDone", "AddFits", "PutBack",
            "DropOversize", "SkipEmpty", "Compose", "UploadOk", "UploadFail", "GiveUp"]
    if not os.environ.get("VERIF_C18_SKIP_MC"):      # development knob for mutation experiments only
        c.tlc("Telemetry", "Telemetry.cfg", workers=8, required_actions=acts, timeout=900, heap="8g")
        c.tlc("Telemetry", "TelemetryContent.cfg", workers=8, required_actions=acts, timeout=600)
    else:
        c.extra["mc_skipped"] = True

    # 2. behaviours of the specification
    res = c.tlc("TelemetryGen", "TelemetryGen.cfg", subdir="gen", workers=1, coverage=False, timeout=900, heap="6g")
    behs = tlcmod.printed_json(res, "REPLAY")
    if len(behs) < 1000:
        raise util.ToolError("generator printed only %d behaviours" % len(behs))
    groups = {}
    for b in behs:
        groups.setdefault(json.dumps([b["files"], b["ev"]]), []).append(b)
    keys = sorted(groups)
    rnd.shuffle(keys)
    nsets = len(keys) if thorough else min(len(keys), 330)
    picked = []
    for k in keys[:nsets]:
        g = groups[k]
        picked.append(rnd.choice(g))
        if thorough or rnd.random() < 0.35:
            # the extreme patterns of this file set: everything fails, and 4 failures then success for every batch
            allfail = [b for b in g if not any(p["ok"] for p in b["posts"])]
            late = [b for b in g if b["composed"] and len(b["posts"]) == 5 * len(b["composed"])
                    and sum(p["ok"] for p in b["posts"]) == len(b["composed"])]
            picked += allfail[:1] + late[:1]
        if thorough:
            picked += rnd.sample(g, min(3, len(g)))
    c.extra["generated_behaviours"] = len(behs)
    c.extra["generated_file_sets"] = len(keys)

    # 3. calibration (envelope, per-event overhead, document template) and concretisation
    try:
        cal = calibrate(bindir)
    except CalibrationBroken as first:
        # the simplest possible input already breaks the property: re-execute once, then report; nothing else can
        # be sized without a calibration document
        try:
            calibrate(bindir)
            raise util.ToolError("calibration failed once (%s) and succeeded on re-execution" % first.diag)
        except CalibrationBroken as again:
            if again.inv != first.inv:
                raise util.ToolError("calibration failed differently on re-execution: %s / %s" % (first.diag, again.diag))
            c.violation("C18 broken on the real EventReader for a benign input (one file, two short ASCII events, "
                        "host answers 200): %s: %s" % (again.inv, again.diag[:300]),
                        {"broken": again.inv, "diag": again.diag.split(":")[1].strip() if ":" in again.diag else "",
                         "trigger": "benign"}, {"case": again.case})
            c.sample({"case": "calibration", "diag": again.diag[:300]})
            c.rule = "calibration input only: the benign document already violates the property"
            c.exhaustive = False
            return
    c.extra["calibration"] = {"envelope_bytes": cal["envelope"], "event_overhead_bytes": cal["ov_base"]}
    cases = [concretise(rnd, b, cal, "g%d" % i) for i, b in enumerate(picked)]
    nrand = 300 if thorough else 36
    cases += [random_case(rnd, cal, "r%d" % i, thorough) for i in range(nrand)]
    cases += [random_case(rnd, cal, "stuck%d" % i, thorough) for i in range(len(FAIL_KINDS) * (1 if not thorough else 4))]
    cases += [staged_case(rnd, cal, "staged%d" % i) for i in range(3 if not thorough else 12)]
    t = util.Timer()
    observed, panics = run_cases(c, cases, bindir, cal, "c18_run")
    util.log("replayed %d cases in %ss" % (len(cases), t.s()))
    c.extra["hosts_failing_for_good"] = {cs["default_reply"]: {"posts": o["nposts"], "ended": o["reason"]}
                                         for cs, o in zip(cases, observed) if cs["id"].startswith("stuck") and o}
    if panics:
        c.extra["panics"] = [{"location": p.get("location"), "message": str(p.get("message"))[:200]} for p in panics[:5]]

    # 4. S->I: what the host saw vs what the specification expects
    drift, exact, full_docs, over_events, max_doc = [], 0, 0, 0, 0
    skipped = sum(1 for o in observed if o["reason"] == "skipped")
    if skipped:
        c.extra["cases_skipped_after_wall_limit"] = skipped
    for case, o in zip(cases, observed):
        if o["reason"] == "skipped":
            continue
        exp = case["meta"]["expect"]
        nev = sum(len(f["events"]) for f in case["meta"]["files"])
        c.count(json.dumps([[[e["abs"] or e["pred"], e["cl"]] for e in f["events"]] if not f["bad"] else "bad"
                            for f in case["meta"]["files"]] + [case["replies"][:o["nposts"]]]))
        for r in o["rows"]:
            if r["e"] == "Upload":
                max_doc = max(max_doc, r["bytes"])
                full_docs += r["bytes"] == MAXB - 1 and not r["same"]
        over_events += sum(1 for f in case["meta"]["files"] for e in f["events"] if cal["envelope"] + e["pred"] >= MAXB)
        if exp is None:
            continue
        same = o["batches"] == exp["batches"] and [[b, ok] for b, ok in o["posts"]] == exp["posts"]
        if same:
            exact += 1
        else:
            drift.append({"case": case["id"], "expected": exp, "observed": {"batches": o["batches"],
                                                                           "posts": [[b, ok] for b, ok in o["posts"]]}})
    ngen = len(picked)
    c.traces_validated += exact
    c.extra["replays_matching_spec"] = exact
    c.extra["replays_generated"] = ngen
    c.extra["random_cases"] = nrand
    c.extra["documents_of_exactly_65535_bytes"] = int(full_docs)
    c.extra["largest_document_bytes"] = int(max_doc)
    c.extra["oversize_events_exercised"] = int(over_events)
    c.extra["virtual_seconds_slept"] = int(sum(o["virtual_ms"] for o in observed) // 1000)
    if drift:
        c.extra["model_drift"] = {"count": len(drift), "first": drift[:3],
                                  "note": "observed documents/posts differ from the implementation-shaped spec; "
                                          "each case is decided against the property by TelemetryTrace"}
    extra_files = [(cases[k]["id"], o["extra_files"]) for k, o in enumerate(observed) if o["extra_files"]]
    if extra_files:
        c.extra["stray_files_left"] = extra_files[:5]

    # 5. I->S: the verdict, by the property-level trace specification
    rejected = judge(c, cases, observed, "c18")
    for n, (k, why) in enumerate(rejected[:4]):
        confirm_and_report(c, cases[k], why, observed[k], bindir, cal, str(n))
    # binding self-check: a corrupted copy of an accepted case must be rejected
    good = [k for k in range(len(cases)) if k not in [r[0] for r in rejected] and len(observed[k]["batches"]) >= 1
            and observed[k]["reason"] == "pass-complete"]
    if good:
        k = good[0]
        rows = [dict(r) for r in observed[k]["rows"]]
        up = [i for i, r in enumerate(rows) if r["e"] == "Upload"][-1]
        dup = dict(rows[up], same=False, ok=True)
        bad_rows = rows[:up + 1] + [dup] + rows[up + 1:]
        okb, whyb, _ = validate_trace(c, "TelemetryTrace", "TelemetryTrace.cfg", bad_rows, "c18_neg_dup", count=0)
        rows2 = [dict(r) for r in rows]
        first = [i for i, r in enumerate(rows) if r["e"] == "Upload"][0]
        rows2[first]["bytes"] = MAXB
        okc, whyc, _ = validate_trace(c, "TelemetryTrace", "TelemetryTrace.cfg", rows2, "c18_neg_size", count=0)
        if okb or okc:
            raise util.ToolError("trace specification accepted a corrupted trace (dup=%s size=%s)" % (okb, okc))
        c.extra["negative_controls_rejected"] = [whyb, whyc]
    # the two scalar values XML 1.0 cannot carry (kept out of the seeded text so they cannot mask anything else)
    nc = noncharacter_cases(cal)
    nc_obs, _ = run_cases(c, nc, bindir, cal, "c18_nc")
    nc_rej = []
    for k in range(len(nc)):
        ok_, why_, _ = validate_trace(c, "TelemetryTrace", "TelemetryTrace.cfg", nc_obs[k]["rows"], "c18_nc%d" % k, count=1)
        if not ok_:
            nc_rej.append((k, why_))
    c.extra["noncharacter_probe"] = {x["meta"]["trigger"]: (o["diags"][0] if o["diags"] else "document parses, text intact")
                                     for x, o in zip(nc, nc_obs)}
    for n, (k, why) in enumerate(nc_rej[:1]):
        confirm_and_report(c, nc[k], why, nc_obs[k], bindir, cal, "nc%d" % n)

    for case, o in list(zip(cases, observed))[:1] + list(zip(cases, observed))[ngen:ngen + 1]:
        c.sample({"case": case["id"], "kind": case["meta"]["kind"],
                  "files": [{"name": f["name"], "bad": f["bad"],
                             "events": [{"id": e["id"], "element_bytes": e["pred"], "class": e["cl"],
                                         "message_head": expand(e["event"]["message"])[:80]} for e in f["events"][:6]]}
                            for f in case["meta"]["files"]],
                  "replies": case["replies"][:o["nposts"]], "expected": case["meta"]["expect"],
                  "observed_documents": o["batches"][:8], "observed_posts": [[b, ok] for b, ok in o["posts"]][:12],
                  "virtual_ms": o["virtual_ms"]})
    c.exhaustive = False
    c.rule = ("TLC: exhaustive over every set of <=2 files / <=4 events x 5 size classes x every failure pattern "
              "(5 tries), safety + liveness, and over 5 content classes; S->I: a seeded sample of the %d behaviours "
              "(%d file sets) printed by TelemetryGen, concretised at the 65536-byte boundary with seeded hostile "
              "Unicode text and replayed into the real EventReader, observed documents compared with the spec's; "
              "I->S: every replay and every seeded random case validated by TLC against TelemetryTrace (C18's "
              "formulas on the observed rows). distinct = distinct (file set shape with sizes/classes, reply pattern) "
              "pairs executed" % (len(behs), len(keys)))
    if skipped and not c.violations:
        raise util.ToolError("%d cases were not executed after wall-clock limits and no violation was confirmed" % skipped)
    if c.extra.get("unreproduced") and not c.violations:
        c.finish()
        raise util.ToolError("a rejected trace did not reproduce from its artefact: %s" % c.extra["unreproduced"])


def replay(c, path):
    art = util.read_json(path)["case"]
    c.assumptions = ASSUME
    bindir = build.cargo_build("agent")
    cal = calibrate(bindir)
    case = dict(art["case"], meta=art["meta"])
    res, outs, d, _ = run_driver("c18_replay", [strip(case)], bindir)
    rows, batches, posts, diags, extra = observe(case, res[0], res[0]["_out"], cal)
    shutil.rmtree(d, ignore_errors=True)
    ok, why, _ = validate_trace(c, "TelemetryTrace", "TelemetryTrace.cfg", rows, "c18_replay", count=1)
    c.sample({"case": case["id"], "observed_documents": batches, "posts": posts, "diags": diags})
    c.rule = "replay of one saved case"
    if not ok:
        inv = why.replace("invariant ", "")
        diag = (diags[0] if diags else res[0]["reason"] if inv == "P_Terminates" else "").split(":")[0]
        c.violation("C18 broken on replay: %s %s" % (inv, diags[:1]), {"broken": inv, "diag": diag}, art)
