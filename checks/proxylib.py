"""Shared pipeline for the proxy properties (C01 C03 C05 C11 C15; C07/C10/C04/C14 add their own scenarios).

 1. TLC: exhaustive factored configurations of spec/Proxy.tla (+ Authz) -- the design.
 2. TLC generator (spec/gen/ProxyGen.tla): every scenario of the single-connection model with the outcome the
    specification prescribes.
 3. S->I: each scenario is concretised (seeded) into raw HTTP traffic against the real ProxyServer in the rig and the
    observed outcome compared with the prescribed one (differences = drift unless a property is broken).
 4. I->S: every request observed is abstracted to one `obs` event; spec/trace/ProxyTrace.tla recomputes what the
    property statements require from the recorded inputs (Authz!Result, Rbac!Decision) and TLC checks the invariants
    of the property being decided on every event.
The run is cached under .build/cache keyed by a content hash of the repository sources, the seed and the tier, so the
five properties share one execution when not a byte of the code changed."""
import concurrent.futures
import email.utils
import grp
import json
import os
import pwd
import random
import re
import time

from vlib import build, rig, tlc as tlcmod, util
from vlib.ctx import validate_trace

LOW = 102400
LARGE = 104857600
OWNED = ("x-ms-azure-host-claims", "x-ms-azure-host-date", "x-ms-azure-host-authorization")
GUID = "5e1fb2a9-1111-4222-8333-444455556666"
KEYHEX = "a1b2c3d4e5f60718293a4b5c6d7e8f90112233445566778899aabbccddeeff00"

ASSUME = [
    "TLC 1.8 + CommunityModules; Proxy.tla/Authz.tla/Rbac.tla transcribe the statements",
    "the kernel's audit map is replaced by the cfg-guarded stand-in (hook H2); records are injected before connect()",
    "mock hosts on the real endpoint addresses in a private network namespace capture raw bytes",
    "callers: uids resolved by the OS (root, daemon, bin, nobody), process = the harness process or helper processes",
    "one request per connection in the scenario replay; keep-alive, port reuse and concurrency are decided by C07/C14",
]


def rand_case(rnd, s):
    return "".join(ch.upper() if rnd.random() < 0.5 else ch.lower() for ch in s)


def caller_of(uid, exe, cmd):
    p = pwd.getpwuid(uid)
    groups = [grp.getgrgid(g).gr_name for g in os.getgrouplist(p.pw_name, p.pw_gid)]
    return {"user": p.pw_name, "groups": groups, "proc": os.path.basename(exe), "exe": exe, "cmd": cmd}


# ------------------------------------------------------------------------------------------------
# Rbac.tla representation <-> AuthorizationItem JSON

def chars(s):
    return list(s)


def doc_to_tla(item):
    """AuthorizationItem JSON -> Rbac.tla Doc (strings looked into character-wise become char arrays)"""
    r = item.get("rules") or {}

    def priv(x):
        q = x.get("queryParameters") or {}
        return {"name": x["name"], "path": chars(x["path"]), "q": [{"k": chars(k), "v": chars(v)} for k, v in q.items()]}

    def ident(x):
        return {"name": x["name"], "user": x.get("userName", "NONE"), "group": x.get("groupName", "NONE"),
                "proc": x.get("processName", "NONE"), "exe": x.get("exePath", "NONE")}
    return {
        "mode": item["mode"].lower(), "allow": item["defaultAccess"].lower() == "allow",
        "privs": [priv(x) for x in r.get("privileges") or []], "hasPrivs": r.get("privileges") is not None,
        "roles": [{"name": x["name"], "privs": list(x["privileges"])} for x in r.get("roles") or []],
        "hasRoles": r.get("roles") is not None,
        "ids": [ident(x) for x in r.get("identities") or []], "hasIds": r.get("identities") is not None,
        "asg": [{"role": x["role"], "ids": list(x["identities"])} for x in r.get("roleAssignments") or []],
        "hasAsg": r.get("roleAssignments") is not None,
    }


EMPTY_DOC = {"mode": "disabled", "allow": True, "privs": [], "hasPrivs": False, "roles": [], "hasRoles": False,
             "ids": [], "hasIds": False, "asg": [], "hasAsg": False}


def url_to_tla(target):
    path, _, query = target.partition("?")
    q = []
    if query:
        for pair in query.split("&"):
            k, _, v = pair.partition("=")
            if k == "":
                continue
            q.append({"k": chars(k), "v": chars(v)})
    return {"path": chars(path), "q": q}


def make_doc(rnd, mode, want_allow, path, caller, n):
    d = _make_doc(rnd, mode, want_allow, path, caller, n)
    if rnd.random() < 0.2:
        d["mode"] = rnd.choice([d["mode"].capitalize(), d["mode"].upper()])      # the three mode words, in any letter case
    return d


def _make_doc(rnd, mode, want_allow, path, caller, n):
    """A rule document in `mode` whose declared decision for (caller, path) is want_allow."""
    lp = path.lower()
    pre = lp[:max(1, rnd.randint(1, len(lp)))] if rnd.random() < 0.5 else lp
    if rnd.random() < 0.3:
        pre = rand_case(rnd, pre)          # rule-side letter case must not matter
    if want_allow:
        how = rnd.choice(["default", "user", "group", "proc", "exe"])
        if how == "default":
            return {"defaultAccess": "allow", "mode": mode, "id": "doc%d" % n,
                    "rules": {"privileges": [{"name": "p", "path": "/zz-not-matching"}], "roles": [], "identities": [],
                              "roleAssignments": []}}
        ident = {"name": "me"}
        if how == "user":
            ident["userName"] = caller["user"]
        elif how == "group":
            ident["groupName"] = caller["groups"][0] if caller["groups"] else "none"
            if not caller["groups"]:
                ident = {"name": "me", "userName": caller["user"]}
        elif how == "proc":
            ident["processName"] = caller["proc"]
        else:
            ident["exePath"] = caller["exe"]
        return {"defaultAccess": rnd.choice(["allow", "deny"]), "mode": mode, "id": "doc%d" % n,
                "rules": {"privileges": [{"name": "p", "path": pre}], "roles": [{"name": "r", "privileges": ["p"]}],
                          "identities": [ident, {"name": "other", "userName": "someone-else"}],
                          "roleAssignments": [{"role": "r", "identities": ["me"]}]}}
    how = rnd.choice(["default", "nobody", "wronguser", "wrongproc"])
    if how == "default":
        return {"defaultAccess": "deny", "mode": mode, "id": "doc%d" % n,
                "rules": {"privileges": [{"name": "p", "path": "/zz-not-matching"}], "roles": [], "identities": [],
                          "roleAssignments": []}}
    ident = {"name": "them", "userName": "someone-else"}
    if how == "wrongproc":
        ident = {"name": "them", "userName": caller["user"], "processName": "not-" + caller["proc"]}
    asg = [] if how == "nobody" else [{"role": "r", "identities": ["them"]}]
    return {"defaultAccess": rnd.choice(["allow", "deny"]), "mode": mode, "id": "doc%d" % n,
            "rules": {"privileges": [{"name": "p", "path": pre}], "roles": [{"name": "r", "privileges": ["p"]}],
                      "identities": [ident], "roleAssignments": asg}}


# ------------------------------------------------------------------------------------------------
# concretisation of one generated scenario

PATHS = ["/machine", "/machine/plugins", "/metadata/instance", "/metadata/identity/oauth2/token", "/Secret/Area",
         "/a", "/vmSettings", "/extensionArtifact"]
QUERIES = ["", "", "?comp=goalstate", "?api-version=2021-02-01&format=json", "?comp=config&type=hosting&keyOnly"]
NEAR_EXEMPT = [("POST", "/vmAgentLog"), ("GET", "/machine/?comp=telemetrydata"), ("PUT", "/machine/?comp=telemetrydata"),
               ("GET", "/vmagentlog"), ("PUT", "/vmagentlog?x=1"), ("POST", "/machine?comp=telemetrydata"),
               ("PUT", "/vmagentlog/"), ("POST", "/machine/?comp=telemetrydata&x=1"), ("DELETE", "/machine/?comp=telemetrydata")]


_BIG = {"left": 3, "exact": 2}
# the record's is-admin field is 1 for an elevated caller; every other value (0 on Linux; a negative error code or another
# number from another producer of records) means "not elevated" to the authorizer AND in the claims the host is told
NOT_ELEVATED = [0, 0, 0, 0, 2, -1, -22]


def concretize(case, rnd, n, harness_exe, thorough, session=None):
    """-> (steps, meta) for one scenario; meta carries the inputs of the obs event and the prescribed outcome.
    With `session` = (conn name, uid) the request is sent on that already open keep-alive connection."""
    sh = case["shape"]
    own = case["own"]
    cid = session[0] if session else "c%d" % n
    rid = "r%d" % n
    steps = []
    uid = session[1] if session else (0 if own["elevated"] else rnd.choice([1, 2, 65534]))
    caller = caller_of(uid if own["has"] else 0, harness_exe, harness_exe)
    # request line
    if sh["prov"]:
        method, target = rnd.choice(["GET", "GET", "POST"]), "/provision"
    elif sh["exempt"]:
        method, target = rnd.choice([("PUT", "/vmAgentLog"), ("POST", "/machine/?comp=telemetrydata")])
        target = rand_case(rnd, target) if rnd.random() < 0.7 else target
    else:
        if rnd.random() < 0.15:
            method, target = rnd.choice(NEAR_EXEMPT)
        else:
            method = rnd.choice(["GET", "GET", "POST", "PUT", "DELETE", "PATCH"])
            target = rnd.choice(PATHS) + rnd.choice(QUERIES)
    if sh["trav"] and not sh["prov"]:
        p, _, q = target.partition("?")
        p = rnd.choice([p + "/../x", "/.." + p, p + "/..", p + "/a..b", "/..%2f" + p.lstrip("/")])
        target = p + ("?" + q if q else "")
    exempt = (method == "PUT" and target.lower() == "/vmagentlog") or \
             (method == "POST" and target.lower() == "/machine/?comp=telemetrydata")
    limit = LARGE if exempt else LOW
    skip = None
    # body
    declared = None
    if sh["over"]:
        if exempt:
            if sh["framing"] == "cl":
                blen, declared = 64, LARGE + rnd.choice([1, 2, 4096])   # refused on the declared length alone
            else:
                blen = LARGE + 1
                # 100 MiB bodies are sampled: the first few scenarios of a run in which the request gets as far as the
                # body (attributed, elevated caller, no rule set, not malformed), plus a random few in the thorough tier
                reaches_body = own["has"] and own["elevated"] and not sh["trav"] and not sh["prov"] and \
                    own["dest"] in ("ws", "ga", "imds") and case["rules"].get(own["dest"], "none") in ("none", "disabled") and \
                    not case["fault"] and not session
                if reaches_body and _BIG["left"] > 0:
                    _BIG["left"] -= 1
                elif not thorough or rnd.random() > 0.02:
                    skip = "100 MiB chunked bodies are sampled (a few per run)"
        else:
            blen = LOW + rnd.choice([1, 1, 2, 1000, 100000])
    else:
        if exempt:
            blen = rnd.choice([0, 1, 1000, LOW, LOW + 1, LOW * 3, 1 << 20])
            # the large limit itself: exactly 100 MiB (and one byte less) is accepted and relayed intact; sampled (2 per run)
            reaches_body = own["has"] and own["elevated"] and not sh["trav"] and not sh["prov"] and \
                own["dest"] in ("ws", "ga", "imds") and case["rules"].get(own["dest"], "none") in ("none", "disabled") and \
                not case["fault"] and not session
            if reaches_body and _BIG["exact"] > 0:
                _BIG["exact"] -= 1
                blen = LARGE - (_BIG["exact"] % 2)
        else:
            blen = rnd.choice([0, 0, 1, 17, 4096, LOW - 1, LOW])
    if method == "GET" and not sh["over"] and rnd.random() < 0.7:
        blen = 0
    framing = sh["framing"] if blen > 0 or sh["framing"] == "chunked" else "none"
    if framing == "cl" and blen == 0:
        framing = "none"
    body_len_seen = declared if declared is not None else blen
    # headers
    headers = [["Host", "168.63.129.16"]]
    if sh["prov"]:
        headers.append(["Metadata", "true"])
    for i in range(rnd.randint(0, 2)):
        headers.append(["x-custom-%d" % i, "v%d" % rnd.randint(0, 99)])
    spoof = {h: 0 for h in OWNED}
    for h in OWNED:
        for _ in range(sh["spoof"] if rnd.random() < 0.85 else rnd.randint(0, 3)):
            val = {"x-ms-azure-host-claims": '{"isRoot":"true","by":"client"}', "x-ms-azure-host-date": "Thu, 01 Jan 1970 00:00:00 GMT",
                   "x-ms-azure-host-authorization": "Azure-HMAC-SHA256 %s deadbeef" % GUID}[h]
            headers.insert(rnd.randint(1, len(headers)), [rand_case(rnd, h), val])
            spoof[h] += 1
    trailers = None
    if not session and framing == "chunked" and blen > 0 and rnd.random() < 0.25:
        # a trailer section naming the proxy-owned fields (any letter case): trailers are not header fields of the request
        # the proxy stamps; whatever is done with them, the host sees exactly the proxy's values under those names
        trailers = []
        for h in OWNED[:2]:
            val = {"x-ms-azure-host-claims": '{"isRoot":"true","by":"client"}', "x-ms-azure-host-date": "Thu, 01 Jan 1970 00:00:00 GMT"}[h]
            trailers.append([rand_case(rnd, h), val])
            spoof[h] += 1
        trailers.append(["X-Checksum", "abc"])
    if rnd.random() < 0.1:
        # a Connection header that nominates proxy-owned names as hop-by-hop must not make the proxy drop its stamps
        headers.insert(rnd.randint(1, len(headers)), ["Connection", "keep-alive, %s, %s" % (rand_case(rnd, OWNED[0]), OWNED[1])])
    if rnd.random() < 0.05:
        headers.insert(rnd.randint(1, len(headers)), ["X-Note", "caf\u00e9 \u00ff"])      # obs-text (bytes >= 0x80) in a field value
    if not session and rnd.random() < 0.04:
        # as many header fields as the listener accepts (100 in all): the proxy's own stamps must still all be there
        want_total = rnd.choice([96, 97, 98, 99, 100])
        have = len(headers) + 1 + (0 if framing == "none" else 1)          # + x-verif-id + the framing header the client adds
        for i in range(max(0, want_total - have)):
            headers.append(["x-fill-%d" % i, "f"])
    # environment
    dest = own["dest"] if own["has"] else "none"
    mode = case["rules"].get(dest, "none") if dest in ("ws", "ga", "imds") else "none"
    doc = None
    for ep in ("ws", "ga", "imds"):
        if ep == dest and mode != "none":
            doc = make_doc(rnd, mode, bool(sh["rbac"]) or mode == "disabled" and rnd.random() < 0.5, target.partition("?")[0],
                           caller, n)
            steps.append({"op": "set_rules", "ep": ep, "doc": doc})
        else:
            steps.append({"op": "set_rules", "ep": ep, "doc": None})
    if case["key"] != "nokey":
        steps.append({"op": "set_key", "guid": GUID, "key": KEYHEX})
    else:
        steps.append({"op": "clear_key"})
    steps.append({"op": "fault", "rules_lookup_fails": bool(case["fault"])})
    # the secure-channel state string the key keeper publishes is not an input of any decision about a request
    steps.append({"op": "set_channel_state", "state": rnd.choice(["Unknown", "disabled", "wireserver", "wireserverandimds",
                                                                  "WireServer Enforce -  IMDS Audit - HostGA Enforce"])})
    steps.append({"op": "snapshot", "tag": rid + ":before"})
    attr = None
    if own["has"]:
        dip, dport = rig.DEST[dest]
        attr = {"uid": uid, "admin": 1 if own["elevated"] else rnd.choice(NOT_ELEVATED), "dip": dip, "dport": dport}
    if not session:
        steps.append({"op": "connect", "conn": cid, "attr": attr})
    host_status = rnd.choice([200, 200, 201, 404, 500, 403, 401])    # (the host may refuse a relayed request itself)
    host_fault = "reset" if (not session and case["forwarded"] and rnd.random() < 0.12) else "none"
    wire_target = target
    if not session and not sh["prov"] and not exempt and rnd.random() < 0.05:
        # (not for the two exempt uploads: the statements name them by their origin-form URL; how another spelling of the
        #  request target is classified is not specified)
        # absolute-form request target naming ANOTHER authority than the recorded destination: what is done with the request
        # is decided by the connection's record, not by what the request line claims
        other = rnd.choice(["169.254.169.254", "168.63.129.16", "10.1.2.3:8080", "127.0.0.1:3080"])
        wire_target = "http://%s%s" % (other, target)
    req = {"op": "request", "conn": cid, "id": rid, "method": method, "target": wire_target, "headers": headers,
           "body": {"seed": n, "len": blen}, "framing": framing,
           "resp": {"status": host_status, "headers": [["content-type", "text/plain"], ["x-host-says", rid]],
                    "body": {"text": "host-" + rid}}}
    if host_fault == "reset":
        req["resp"]["framing"] = "reset"
    if session and len(session) > 2 and session[2] == "close-after" and case["forwarded"]:
        req["resp"]["framing"] = "cl-close"     # the host answers (keep-alive style) and then closes its side of the upstream
    if framing == "chunked":
        req["chunks"] = [rnd.randint(1, max(1, blen // 3 + 1)) for _ in range(rnd.randint(0, 3))] if blen < (1 << 20) else [1 << 20] * 200
    if declared is not None:
        req["declared_len"] = declared
    if trailers:
        req["trailers"] = trailers
    steps.append(req)
    if not session:
        steps.append({"op": "close", "conn": cid})
    steps.append({"op": "snapshot", "tag": rid + ":after"})
    steps.append({"op": "fault", "rules_lookup_fails": False})
    steps.append({"op": "mark", "tag": "end:" + rid})
    meta = {
        "id": rid, "conn": cid, "case": case, "attributed": bool(own["has"]), "elevated": bool(own["elevated"]), "dest": dest,
        "wireTarget": wire_target,
        "uid": uid, "caller": caller, "rules": mode, "doc": doc, "fault": bool(case["fault"]),
        "keyPresent": case["key"] != "nokey", "method": method, "target": target, "trav": ".." in target.partition("?")[0],
        "prov": target == "/provision", "exempt": exempt, "bodyLen": body_len_seen, "sentLen": blen, "framing": framing,
        "spoof": spoof, "hostStatus": host_status, "skip": skip, "headers": headers, "attr": attr,
        "session": bool(session), "hostFault": host_fault,
        "upstreamClosed": bool(session and len(session) > 2 and session[2] == "closed"),
        "port_of": None,
    }
    return steps, meta


# ------------------------------------------------------------------------------------------------
# abstraction: events of one rig run -> obs rows

def census(headers):
    out = {}
    for n, v in headers:
        out.setdefault(n.lower(), []).append(v)
    return out


def date_is_proxy(v, spoofed_values, recv_ms=None):
    """the proxy's current time: RFC1123, within a few seconds of the instant the host received the request"""
    if v in spoofed_values:
        return False
    try:
        t = email.utils.parsedate_to_datetime(v).timestamp()
    except Exception:
        return False
    ref = recv_ms / 1000.0 if recv_ms else time.time()
    return -3.0 <= ref - t <= 5.0


def failed_bag(snapshot):
    bag = {}
    for e in snapshot or []:
        key = (e.get("userName"), e.get("ip"), e.get("port"), e.get("processFullPath"), e.get("processCmdLine"),
               e.get("responseStatus"))
        bag[key] = bag.get(key, 0) + e.get("count", 0)
    return bag


def observe(events, metas):
    by_id = {m["id"]: m for m in metas}
    host_recv, resp, snaps = {}, {}, {}
    conn_window = {}          # conn -> [seq_start, seq_end]
    hconns = []               # (seq, hconn)
    hclose = {}
    for e in events:
        k = e.get("e")
        if k == "HostRecv":
            host_recv.setdefault(e["id"], []).append(e)
        elif k in ("Response", "ResponseError"):
            resp[e["id"]] = e
        elif k == "Failed" and e.get("source") == "getter":
            snaps[e.get("tag")] = e
        elif k == "Connect":
            conn_window[e["conn"]] = [e["seq"], None]
        elif k == "KernelRecord":
            pass
        elif k == "Close":
            if e["conn"] in conn_window:
                conn_window[e["conn"]][1] = e["seq"]
        elif k == "HostConn":
            hconns.append((e["seq"], e["hconn"]))
        elif k == "HostClose":
            hclose[e["hconn"]] = e
    rows, drifts = [], []
    for m in metas:
        if m["skip"]:
            continue
        rid = m["id"]
        r = resp.get(rid)
        if r is None:
            raise util.ToolError("no response event for %s" % rid)
        status = r.get("status", 0) if r["e"] == "Response" else 0
        hr = host_recv.get(rid, [])
        relayed = len(hr) > 0
        # stray bytes: bytes that reached a host connection opened during this case without forming a relayed request
        w = conn_window.get(m["conn"], [0, 0])
        stray = 0
        for seq, h in hconns:
            if w[0] - 2 <= seq <= (w[1] or 1 << 60):
                hc = hclose.get(h)
                if hc is not None:
                    stray += hc["bytesTotal"] - hc["bytesParsed"]      # bytes that never formed a complete request
        row = {"e": "obs", "id": rid, "attributed": m["attributed"], "elevated": m["elevated"], "dest": m["dest"],
               "rules": m["rules"], "doc": doc_to_tla(m["doc"]) if m["doc"] else EMPTY_DOC,
               "caller": {k: m["caller"][k] for k in ("user", "groups", "proc", "exe")},
               "url": url_to_tla(m["target"]), "fault": m["fault"], "keyPresent": m["keyPresent"], "trav": m["trav"],
               "prov": m["prov"], "exempt": m["exempt"], "bodyLen": m["bodyLen"], "framing": m["framing"],
               "status": status, "relayed": relayed, "strayBytes": stray, "hostStatus": m["hostStatus"],
               "hostFault": m.get("hostFault", "none"), "upstreamClosed": bool(m.get("upstreamClosed"))}
        if relayed:
            h = hr[0]
            cz = census(h["headers"])
            claims = cz.get(OWNED[0], [])
            dates = cz.get(OWNED[1], [])
            auths = cz.get(OWNED[2], [])
            spoofed = {v for n, v in m["headers"] if n.lower() in OWNED}
            row.update({
                "bodyIntact": h["bodyLen"] == m["sentLen"] and h["bodySha"] == util.sha(rig.gen_body(int(rid[1:]), m["sentLen"])) and len(hr) == 1
                              and h["method"] == m["method"] and h["target"] == m.get("wireTarget", m["target"]),
                "hClaims": len(claims),
                "hClaimsElevated": bool(claims) and claims[0] == '{ "isRoot": "true"}',   # what the header states
                "hDate": len(dates), "hDateIsProxy": bool(dates) and date_is_proxy(dates[0], spoofed, h.get("t")),
                "hClientCopies": sum(1 for v in claims + dates if v in spoofed) +
                                 (sum(1 for v in auths if v in spoofed) if (m["keyPresent"] and not m["exempt"]) else 0),
                "hAuth": len(auths),
                "hAuthIsProxy": bool(auths) and auths[0].startswith("Azure-HMAC-SHA256 %s " % GUID) and auths[0] not in spoofed,
            })
            if claims and claims[0] not in ('{ "isRoot": "true"}', '{ "isRoot": "false"}'):
                row["hClaimsElevated"] = not m["elevated"]       # not the proxy's rendering at all: states nothing true
        else:
            row.update({"bodyIntact": False, "hClaims": 0, "hClaimsElevated": False, "hDate": 0, "hDateIsProxy": False,
                        "hClientCopies": 0, "hAuth": 0, "hAuthIsProxy": False})
        before = failed_bag(snaps.get(rid + ":before", {}).get("failed"))
        after = failed_bag(snaps.get(rid + ":after", {}).get("failed"))
        delta = {k: after.get(k, 0) - before.get(k, 0) for k in set(after) | set(before)}
        delta = {k: v for k, v in delta.items() if v != 0}
        row["failedDelta"] = sum(delta.values())
        dip, dport = rig.DEST.get(m["dest"], ("None", 0))
        want_key = (m["caller"]["user"], dip, dport, m["caller"]["exe"], m["caller"]["cmd"])
        row["failedKeyOk"] = len(delta) == 1 and all(k[:5] == want_key for k in delta)
        rows.append(row)
        # S->I comparison with the outcome the implementation-shaped spec prescribes
        cs = m["case"]
        if m.get("upstreamClosed") and cs["forwarded"]:
            cs = dict(cs, forwarded=relayed, status=status)      # the spec has no host-closed-upstream action: not compared
        exp_status = cs["status"] if cs["status"] != 299 else m["hostStatus"]
        mism = []
        if relayed != cs["forwarded"]:
            mism.append("forwarded spec=%s impl=%s" % (cs["forwarded"], relayed))
        if status != exp_status and m.get("hostFault", "none") == "none":
            mism.append("status spec=%s impl=%s" % (exp_status, status))
        if row["failedDelta"] != cs["failed"]:
            mism.append("failedDelta spec=%s impl=%s" % (cs["failed"], row["failedDelta"]))
        if relayed and (row["hAuth"] >= 1 and row["hAuthIsProxy"]) != cs["up"]["signed"]:
            mism.append("signed spec=%s impl=%s" % (cs["up"]["signed"], row["hAuth"]))
        if mism:
            drifts.append({"id": rid, "mismatch": mism, "method": m["method"], "target": m["target"], "dest": m["dest"],
                           "shape": cs["shape"]})
    return rows, drifts


# ------------------------------------------------------------------------------------------------
# the cached pipeline run

def _machinery_hash():
    """the pipeline's own sources: a cached run made by older machinery is never reused"""
    import hashlib
    h = hashlib.sha256()
    roots = [os.path.join(util.VERIF, "checks", "proxylib.py"), os.path.join(util.VERIF, "lib", "vlib"),
             os.path.join(util.VERIF, "harness", "agent", "src"), os.path.join(util.VERIF, "spec")]
    for r in roots:
        files = [r] if os.path.isfile(r) else sorted(
            os.path.join(dp, f) for dp, _, fs in os.walk(r) for f in fs
            if f.endswith((".py", ".rs", ".tla", ".cfg")))
        for f in files:
            try:
                h.update(f.encode() + b"\0" + open(f, "rb").read())
            except OSError:
                pass
    return h.hexdigest()


def _cache_path(c):
    h = util.repo_tree_hash()[:16] + "_" + _machinery_hash()[:12]
    d = os.path.join(util.BUILD, "cache")
    os.makedirs(d, exist_ok=True)
    return os.path.join(d, "proxy_%s_%s_%d.json" % (h, c.tier, c.seed))


def run_batch(args):
    bi, steps, metas, name = args
    script = {"steps": steps, "status_task": None, "drain_ms": 300}
    ev, d, out = rig.run_rig(script, name, timeout=900)
    panics = [e for e in ev if e.get("e") == "Panic"]
    rows, drifts = observe(ev, metas)
    import shutil
    shutil.rmtree(d, ignore_errors=True)
    return rows, drifts, panics, len(ev)


def pipeline(c):
    """returns dict(rows, drifts, tlc stats, metas by id); cached per (repo hash, tier, seed)"""
    cp = _cache_path(c)
    if os.path.exists(cp) and not os.environ.get("VERIF_NOCACHE"):
        util.log("proxy pipeline: reusing cached run %s" % os.path.basename(cp))
        return util.read_json(cp)
    thorough = c.tier == "thorough"
    rnd = random.Random(c.seed)
    bindir = build.cargo_build("agent")
    res = tlcmod.run("ProxyGen", "ProxyGen.cfg", os.path.join(util.SPEC, "gen"), workers=4, coverage=False, timeout=900,
                     java_opts=["-DTLA-Library=" + util.SPEC], heap="6g")
    if not res.ok:
        raise tlcmod.TlcError("ProxyGen failed: %s %s" % (res.invariant_violated, res.error_lines[:3]))
    cases = tlcmod.printed_json(res, "CASE")
    if len(cases) < 1000:
        raise util.ToolError("ProxyGen printed only %d cases" % len(cases))
    cases = [k for k in cases if not (k["shape"]["trav"] and k["shape"]["prov"])]   # "/provision" cannot contain ".."
    rnd.shuffle(cases)
    if not thorough:
        cases = cases[:4000]
    # the executable path the OS will report for the harness process: per batch run dir; fixed up below
    nb = 8
    batches = [[] for _ in range(nb)]
    for i, cs in enumerate(cases):
        batches[i % nb].append((i, cs))
    jobs = []
    for bi, b in enumerate(batches):
        name = "proxy_b%d_%d" % (bi, os.getpid())
        exe = os.path.join(util.RUNDIR, name, "verif-agent")
        steps, metas = [], []
        prev_conn = None
        for i, cs in b:
            st, m = concretize(cs, rnd, i, exe, thorough)
            if m["skip"]:
                metas.append(m)
                continue
            if not cs["own"]["has"] and prev_conn and rnd.random() < 0.5:
                # a direct connection that reuses the source port of an earlier (closed) attributed connection
                for x in st:
                    if x.get("op") == "connect":
                        x["port_of"] = prev_conn
                        m["port_of"] = prev_conn
            steps += st
            metas.append(m)
            if cs["own"]["has"]:
                prev_conn = m["conn"]
        jobs.append([bi, steps, metas, name])
    # keep-alive sessions: several scenarios with the same attribution on ONE connection (the environment may
    # change between the requests); a shape that leaves an unread body on the wire goes last
    by_own = {}
    for k in cases:
        by_own.setdefault(json.dumps(k["own"], sort_keys=True), []).append(k)
    nsess = 700 if not thorough else 6000
    sess_jobs = [[] for _ in range(nb)]
    base = len(cases) + 1000
    for si in range(nsess):
        group = by_own[rnd.choice(sorted(by_own))]
        fw = [k for k in group if k["forwarded"] and not k["shape"]["over"]]
        if fw and si % 3 != 0:
            # a relayed request first (anything the proxy might cache per connection is now warm), then anything
            seq = [rnd.choice(fw) for _ in range(rnd.randint(1, 2))] + [rnd.choice(group)]
        else:
            seq = [rnd.choice(group) for _ in range(rnd.randint(2, 4))]
            seq = [k for k in seq if not k["shape"]["over"]] + [k for k in seq if k["shape"]["over"]][:1]
        own = seq[0]["own"]
        uid = 0 if own["elevated"] else rnd.choice([1, 2, 65534])
        bi = si % nb
        name, exe = jobs[bi][3], os.path.join(util.RUNDIR, jobs[bi][3], "verif-agent")
        conn = "k%d" % si
        attr = None
        if own["has"]:
            dip, dport = rig.DEST[own["dest"]]
            attr = {"uid": uid, "admin": 1 if own["elevated"] else rnd.choice(NOT_ELEVATED), "dip": dip, "dport": dport}
        ssteps, smetas, first = [], [], True
        upstream = "open"
        for j, k in enumerate(seq):
            mark = "closed" if upstream == "closed" else ("close-after" if (j < len(seq) - 1 and k["forwarded"] and rnd.random() < 0.2) else "open")
            st, m = concretize(k, rnd, base + si * 10 + j, exe, thorough, session=(conn, uid, mark))
            if mark == "close-after" and not m["skip"]:
                upstream = "closed"
            if m["skip"]:
                continue
            if first:
                # the connection is opened after the first request's environment is in place
                idx = next(i for i, x in enumerate(st) if x.get("op") == "request")
                st.insert(idx, {"op": "connect", "conn": conn, "attr": attr})
                first = False
            m["conn"] = conn
            ssteps += st
            smetas.append(m)
            if not k["forwarded"] and (m["sentLen"] > 0 or m["framing"] != "none"):
                break       # answered without reading the body: hyper closes such a connection; the session ends here
        if not smetas:
            continue
        ssteps.append({"op": "close", "conn": conn})
        jobs[bi][1].extend(ssteps)
        jobs[bi][2].extend(smetas)
    rows, drifts, panics, nev = [], [], [], 0
    t = util.Timer()
    with concurrent.futures.ProcessPoolExecutor(max_workers=4) as ex:
        for r, d, p, n in ex.map(run_batch, jobs):
            rows += r
            drifts += d
            panics += p
            nev += n
    util.log("proxy pipeline: %d scenarios replayed (%d events) in %ss, %d drifts, %d panics" % (
        len(rows), nev, t.s(), len(drifts), len(panics)))
    steps_by_id = {}
    for bi, steps, metas, _ in jobs:
        cur = []
        for s in steps:
            cur.append(s)
            closes = s.get("op") == "close" and str(s.get("conn", "")).startswith("k")
            single_end = (s.get("op") == "mark" and str(s.get("tag", "")).startswith("end:")
                          and not any(str(x.get("conn", "")).startswith("k") for x in cur))
            if closes or single_end:
                for x in cur:
                    if x.get("op") == "request":
                        steps_by_id[x["id"]] = cur
                cur = []
    batch_steps, batch_pos = {}, {}
    for bi, steps, metas, bname in jobs:
        batch_steps[str(bi)] = steps
        for idx, st_ in enumerate(steps):
            if st_.get("op") == "request":
                batch_pos[st_["id"]] = [str(bi), idx, bname]
    out = {"rows": rows, "drifts": drifts, "panics": panics, "events": nev, "cases": len(cases),
           "batch_steps": batch_steps, "batch_pos": batch_pos,
           "gen": {"distinct": res.distinct, "generated": res.generated},
           "skipped": sum(1 for j in jobs for m in j[2] if m["skip"]),
           "steps_by_id": steps_by_id, "meta_by_id": {m["id"]: m for j in jobs for m in j[2] if not m["skip"]}}
    util.write_json(cp, out)
    return out


def replay_steps(c, prop, steps, meta, old_name=None):
    """re-execute one scenario and decide the property on the fresh observation; True = still violated"""
    name = "proxy_re_%s_%d" % (prop, os.getpid())
    meta = dict(meta)
    new_exe = os.path.join(util.RUNDIR, name, "verif-agent")
    if old_name:
        # (a cached pipeline run was made under another invocation's scratch directory)
        pat = re.compile(r'[^"]*/run/[^"/]+/%s/verif-agent' % re.escape(old_name))
        steps = json.loads(pat.sub(new_exe, json.dumps(steps)))
        meta = json.loads(pat.sub(new_exe, json.dumps(meta)))
    else:
        old_exe = meta["caller"]["exe"]
        steps = json.loads(json.dumps(steps).replace(old_exe, new_exe))
        meta = json.loads(json.dumps(meta).replace(old_exe, new_exe))
    ev, d, _ = rig.run_rig({"steps": steps, "drain_ms": 300}, name, timeout=300)
    rows, _ = observe(ev, [meta])
    ok, why, _ = validate_trace(c, "ProxyTrace", write_cfg(prop, property_invariants(prop), "re"), rows,
                                "proxy_%s_re" % prop, count=0)
    return not ok


MC_CONFIGS = [("MC_Proxy", "Proxy_one.cfg"), ("MC_Proxy", "Proxy_two.cfg"), ("MC_Proxy", "Proxy_key.cfg")]
MC_CONFIGS_DEEP = [("MC_Proxy", "Proxy_one_deep.cfg"), ("MC_Proxy", "Proxy_two_deep.cfg")]   # thorough: 4M + 0.9M states
REQUIRED = ["ClientConnect", "AcceptLookup", "AcceptRemove", "StartRequest", "Eval", "GetRules", "Authorize", "Collect",
            "Send", "SetRules", "SetKey"]


def model_check(c, configs=None):
    for mod, cfg in (configs or MC_CONFIGS) + (MC_CONFIGS_DEEP if c.tier == "thorough" and configs is None else []):
        res = c.tlc(mod, cfg, workers=6, timeout=900, required_actions=REQUIRED if cfg == "Proxy_one.cfg" else None)
        if res.violated:
            raise tlcmod.TlcError("design-level violation in %s: %s\n%s" % (cfg, res.invariant_violated or res.property_violated,
                                                                           res.trace_text[:3000]))
    res = c.tlc("MC_Authz", "MC_Authz.cfg", workers=1, coverage=False, timeout=600)
    if res.violated:
        raise tlcmod.TlcError("Authz.tla fails its statement-level properties")


def property_invariants(prop):
    txt = open(os.path.join(util.SPEC, "trace", "ProxyTrace.tla")).read()
    return sorted(set(re.findall(r"^(P_%s_[A-Za-z0-9]+) ==" % prop, txt, flags=re.M)))


def write_cfg(prop, invs, tag):
    d = os.path.join(util.BUILD, "cfg")
    os.makedirs(d, exist_ok=True)
    path = os.path.join(d, "ProxyTrace_%s_%s_%d.cfg" % (prop, tag, os.getpid()))
    with open(path, "w") as f:
        f.write("SPECIFICATION Spec\nINVARIANTS %s\nPOSTCONDITION Accepted\nCHECK_DEADLOCK FALSE\n" % " ".join(invs))
    return path


def id_from_trace(res):
    m = re.findall(r'id \|-> "(r\d+)"', res.trace_text or res.stdout)
    return m[-1] if m else None


def decide(c, prop, *, relevant=lambda row: True):
    """Run the shared pipeline and decide `prop` with spec/trace/ProxyTrace_<prop>.cfg."""
    c.assumptions = ASSUME
    model_check(c)
    data = pipeline(c)
    rows = data["rows"]
    c.extra["scenarios_generated"] = data["cases"]
    c.extra["scenarios_replayed"] = len(rows)
    c.extra["scenarios_skipped"] = data["skipped"]
    c.extra["spec_vs_impl_drifts"] = len(data["drifts"])
    if data["drifts"]:
        c.extra["drift_examples"] = data["drifts"][:5]
    rel = [r for r in rows if relevant(r)]
    c.distinct_extra = len(rel)
    c.evaluations = len(rows)
    c.sample({"obs": {k: v for k, v in (rel or rows)[0].items() if k not in ("doc",)}})
    # the property, by TLC on every observed request.  A rejection that matches a known finding removes the
    # observations of that structural class (after checking them against the property's OTHER invariants) and the
    # rest is validated again, so a listed finding never hides a different violation.
    invs = property_invariants(prop)
    remaining = rows
    from vlib import findings
    for _round in range(6):
        cfg = write_cfg(prop, invs, "all")
        ok, why, res = validate_trace(c, "ProxyTrace", cfg, remaining, "proxy_%s" % prop, count=len(remaining),
                                      timeout=1200, heap="4g")
        if ok:
            break
        rid = id_from_trace(res)
        row = next((r for r in remaining if r["id"] == rid), None)
        if row is None:
            raise util.ToolError("trace rejected (%s) but the offending observation could not be identified" % why)
        steps = data["steps_by_id"].get(rid)
        broken = why.replace("invariant ", "")
        sig = {"broken": broken, "dest": row.get("dest"), "rules": row.get("rules"), "attributed": row.get("attributed"),
               "elevated": row.get("elevated"), "prov": row.get("prov"), "trav": row.get("trav")}
        if steps and not replay_steps(c, prop, steps, data["meta_by_id"][rid]):
            # the behaviour may depend on state left by earlier scenarios of the same run (a cache, a stale record):
            # replay the batch from its start up to and including this scenario
            bi, idx, bname = data["batch_pos"][rid]
            pre = data["batch_steps"][bi]
            end = next((j for j in range(idx, len(pre)) if pre[j].get("op") == "mark" and str(pre[j].get("tag", "")).startswith("end:")
                        or (pre[j].get("op") == "close" and str(pre[j].get("conn", "")).startswith("k"))), len(pre) - 1)
            steps = pre[:end + 1]
            if not replay_steps(c, prop, steps, data["meta_by_id"][rid], old_name=bname):
                c.extra["unreproduced"] = {"id": rid, "why": why}
                raise util.ToolError("a rejected observation (%s, %s) did not reproduce from its artefact; not believed" % (rid, why))
        kf = findings.match(prop, sig)
        c.violation("%s broken on observed request %s: %s; obs=%s" % (
            prop, rid, why, json.dumps({k: v for k, v in row.items() if k not in ("doc", "url", "caller")})),
            sig, {"steps": steps, "meta": data["meta_by_id"].get(rid), "obs": row})
        if kf is None:
            break
        fields = {k: v for k, v in kf["signature"].items() if k in row and k != "broken"}
        cls = [r for r in remaining if all(r.get(k) == v for k, v in fields.items())]
        rest = [r for r in remaining if not all(r.get(k) == v for k, v in fields.items())]
        others = [i for i in invs if i != broken]
        if others and cls:
            ok2, why2, res2 = validate_trace(c, "ProxyTrace", write_cfg(prop, others, "others"), cls, "proxy_%s_cls" % prop,
                                             count=0, timeout=600)
            if not ok2:
                rid2 = id_from_trace(res2)
                row2 = next((r for r in cls if r["id"] == rid2), {})
                c.violation("%s broken (%s) on an observation inside a known-finding class: %s" % (prop, why2, rid2),
                            {"broken": why2.replace("invariant ", ""), "dest": row2.get("dest"), "rules": row2.get("rules"),
                             "prov": row2.get("prov"), "trav": row2.get("trav"), "attributed": row2.get("attributed"),
                             "elevated": row2.get("elevated")}, {"obs": row2, "steps": data["steps_by_id"].get(rid2)})
                break
        c.extra["known_finding_class_size"] = len(cls)
        remaining = rest
    else:
        raise util.ToolError("too many known-finding rounds")
    c.rule = ("scenarios = terminal states of the single-connection Proxy.tla model (attribution x identity x destination "
              "x rule mode x fault x key x request shape), each concretised with seeded random method/URL/headers/body; "
              "non-trivial = observed requests to which this property's antecedents apply")
    c.extra["panics_seen"] = len(data["panics"])
    return data


def replay(c, prop, path):
    r = util.read_json(path)["case"]
    c.assumptions = ASSUME
    build.cargo_build("agent")
    c.states = c.transitions = 1
    c.count("replay")
    if "steps" not in r:
        # an artefact of one of the dedicated scenarios (identity history, status file, ...): the scenario is re-executed
        c.count("scenario")
        if util.read_json(path)["signature"].get("kind") == "identity-remembered-across-connections":
            identity_history(c, prop)
            return
        import importlib
        return importlib.import_module("checks." + prop.lower()).run(c)
    c.count(r["meta"]["id"])
    c.sample({"replayed": r["meta"]["id"]})
    if replay_steps(c, prop, r["steps"], r["meta"]):
        c.violation("replayed scenario still violates %s" % prop, util.read_json(path)["signature"], r)


# ------------------------------------------------------------------------------------------------
# callers whose identity changes between two connections (exec keeps pid and start time, replaces the program)

def identity_history(c, prop):
    """A helper process connects, exec()s another program, and connects again; rule documents grant by executable path or
    process name.  Every decision is judged by spec/trace/RbacTrace.tla from (document, the caller's identity AT THAT
    connection, URL) alone: attribution is per connection, never remembered per pid.  Returns the number of decisions."""
    import shutil
    name = "idhist_%s" % prop.lower()
    sh, sl = os.path.realpath(shutil.which("sh")), os.path.realpath(shutil.which("sleep"))
    root = caller_of(0, sh, sh)

    def doc(n, ident):
        return {"defaultAccess": "deny", "mode": "enforce", "id": "idoc%d" % n, "rules": {
            "privileges": [{"name": "p", "path": "/metadata"}], "roles": [{"name": "r", "privileges": ["p"]}],
            "identities": [dict({"name": "i"}, **ident)], "roleAssignments": [{"role": "r", "identities": ["i"]}]}}
    # a path the rules may state that is a symbolic link to the shell on this guest: "equals the caller's" is about the
    # attribute strings (the caller's path is the one the agent resolved), not about what the stated path points to today
    link = os.path.join(util.RUNDIR, "idhist-link-to-sh")
    os.makedirs(util.RUNDIR, exist_ok=True)
    if not os.path.lexists(link):
        os.symlink(sh, link)
    idents = [{"exePath": sh}, {"exePath": sl}, {"processName": os.path.basename(sh)}, {"processName": os.path.basename(sl)},
              {"userName": "root", "exePath": sh}, {"exePath": link}]
    if c.tier == "thorough":
        idents = idents * 3
    steps, meta = [], {}
    for vi, ident in enumerate(idents):
        d, h = doc(vi, ident), "xh%d" % vi
        steps += [{"op": "set_rules", "ep": "imds", "doc": d},
                  {"op": "spawn", "name": h, "exe": sh, "args": ["-c", "sleep 1.2; exec sleep 30"]}, {"op": "sleep", "ms": 150}]
        for phase in ("a", "b", "c"):
            if phase == "b":
                steps.append({"op": "sleep", "ms": 1700})
            rid, cn = "ih%d%s" % (vi, phase), "ihc%d%s" % (vi, phase)
            steps += [{"op": "helper_exe", "name": h, "tag": rid + ":pre"},
                      {"op": "connect", "conn": cn, "attr": {"uid": 0, "admin": 1, "dip": "169.254.169.254", "dport": 80, "helper": h}},
                      {"op": "request", "conn": cn, "id": rid, "method": "GET", "target": "/metadata/instance?n=%s" % rid, "headers": [["Host", "h"]]},
                      {"op": "helper_exe", "name": h, "tag": rid + ":post"}, {"op": "close", "conn": cn}]
            meta[rid] = d
    ev, _, _ = rig.run_rig({"steps": steps, "drain_ms": 200}, name, timeout=600)
    exe_at = {e["tag"]: e for e in ev if e["e"] == "HelperExe"}
    resp = {e["id"]: e for e in ev if e["e"] == "Response"}
    host = {e["id"] for e in ev if e["e"] == "HostRecv" and e.get("id")}
    rows, changed = [], 0
    for rid, d in meta.items():
        pre, post, r = exe_at.get(rid + ":pre"), exe_at.get(rid + ":post"), resp.get(rid)
        if not pre or not post or not r or not pre["exe"] or pre["exe"] != post["exe"]:
            continue                      # the exec fell into this exchange: which program was attributed is not determined
        if rid in host:
            allowed = True
        elif r["status"] == 403:
            allowed = False
        else:
            continue
        changed += pre["exe"] == sl
        rows.append({"e": "dec", "id": rid, "doc": doc_to_tla(d), "url": url_to_tla("/metadata/instance?n=%s" % rid), "allowed": allowed,
                     "caller": {"user": root["user"], "groups": root["groups"], "proc": os.path.basename(pre["exe"]), "exe": pre["exe"]}})
    if len(rows) < len(meta) * 0.6 or not changed or changed == len(rows):
        raise util.ToolError("identity-history scenario is vacuous: %d of %d decisions, %d after the exec" % (len(rows), len(meta), changed))
    c.extra["identity_history_decisions"] = len(rows)
    ok, why, res = validate_trace(c, "RbacTrace", "RbacTrace.cfg", rows, "idhist_%s" % prop, count=0, timeout=300)
    if not ok:
        ids = re.findall(r'id \|-> "(ih\d+[abc])"', res.trace_text or "")
        bad = next((r for r in rows if ids and r["id"] == ids[-1]), rows[0])
        c.violation("a connection was not judged on what its caller is running at that connection: %s by %s (%s) was %s under %s" % (
            bad["id"], bad["caller"]["exe"], "after the helper exec()ed" if bad["caller"]["exe"] == sl else "before the exec",
            "allowed" if bad["allowed"] else "denied", json.dumps(meta[bad["id"]]["rules"]["identities"])),
            {"kind": "identity-remembered-across-connections"}, {"rows": rows})
    return len(rows)
