"""C12 -- the latched key value never leaves the key store.
Design: spec/KeySecret.tla, a taint model of every flow of a value obtained from the host's key endpoint (key file, MACs,
status message -> logs / events / status.json / provision answers, signing errors -> connection log); TLC checks NoLeak
and AclBeforeFirstKeyFile for the design with redacted error texts and exhibits the leaking histories of the design that
quotes the key in error texts.  Binding: the real key keeper, proxy, status task and event logger run against a scripted
mock WireServer that issues CANARY secrets through every history class of the model (latch, rotation, non-hex key,
undeserialisable key reply, local fetch of a bad key, disable) while clients send proxied requests and /provision
queries; after the run every output of the agent (log files, event files, status.json, status.tag, rule dumps,
stdout/stderr, every byte returned to clients, every request sent to the host) is scanned for every rendering of every
canary; the key-directory system calls are read from strace.  TLC validates the sink and fs events against
spec/trace/KeySecretTrace.tla."""
import base64
import json
import shutil
import os
import re
import stat

from checks import proxylib
from vlib import build, rig, tlc as tlcmod, util
from vlib.ctx import validate_trace

ASSUME = proxylib.ASSUME[:3] + [
    "secrets are canaries: unique 64-character strings; a sink leaks iff it contains a canary in its issued form, in "
    "upper/lower case, or (for hex canaries) the decoded bytes raw or in base64",
    "outputs scanned: everything under the run's log/event/status directories, the key directory, stdout+stderr, client "
    "responses, host requests; the serial console write goes to /dev/console which is not capturable here (it carries "
    "start-up messages only)",
    "strace reports the key-directory calls in program order (single key-keeper task)",
]

G = ["c12c12c1-0001-4000-8000-00000000000%d" % i for i in range(1, 6)]
CAN = {
    "ok1": "a1" * 8 + "5ec0de01" * 6,
    "ok2": "b2" * 8 + "5ec0de02" * 6,
    "nonhex": "zq" * 8 + "5ec0dezz" * 6,
    "malformed": "c3" * 8 + "5ec0de04" * 6,
    "stale": "zs" * 8 + "5ec0dest" * 6,        # non-hex key material left in the store by an earlier version
    "ok3": "d4" * 8 + "5ec0de05" * 6,
    "non200": "e5" * 8 + "5ec0de06" * 6,       # a key document delivered with a status other than 200
    "badutf8": "f6" * 8 + "5ec0de07" * 6,      # a key document with a byte that is not UTF-8 next to the key
    "k192": "a7" * 4 + "5ec0de08" * 5,         # a 192-bit key (valid hex, not 64 digits): HMAC takes any key length
    "k512": "b8" * 8 + "5ec0de09" * 14,        # a 512-bit key
}
G += ["c12c12c1-0001-4000-8000-00000000000%d" % i for i in range(6, 9)]
G += ["c12c12c1-0001-4000-8000-0000000000a%d" % i for i in range(1, 6)]


def renderings(c):
    r = {c.encode(), c.upper().encode(), c.lower().encode()}
    # the text of the key as a list of byte values (a Debug-printed buffer, a hex dump of the document)
    for sep in (", ", ",", " "):
        r.add(sep.join(str(b) for b in c.encode()).encode())
    r |= {c.encode().hex().encode(), c.encode().hex().upper().encode(), " ".join("%02x" % b for b in c.encode()).encode(),
          base64.b64encode(c.encode())}
    try:
        raw = bytes.fromhex(c)
        r |= {raw, base64.b64encode(raw), base64.urlsafe_b64encode(raw)}
    except ValueError:
        pass
    return r


def status_doc(guid, enabled=True):
    return {"authorizationScheme": "Azure-HMAC-SHA256", "keyDeliveryMethod": "http", "keyGuid": guid,
            "requiredClaimsHeaderPairs": None, "secureChannelEnabled": enabled, "version": "2.0",
            "authorizationRules": {"wireserver": {"defaultAccess": "deny", "mode": "enforce", "id": "r1",
                                                   "rules": {"privileges": [{"name": "p", "path": "/machine"}], "roles": [{"name": "r", "privileges": ["p"]}],
                                                             "identities": [{"name": "i", "userName": "root"}],
                                                             "roleAssignments": [{"role": "r", "identities": ["i"]}]}}}}


def plan(idk, status, body, ctype="application/json"):
    return {"op": "set_plan", "id": idk, "resp": {"status": status, "headers": [["content-type", ctype]],
                                                   "body": {"text": body if isinstance(body, str) else json.dumps(body)}}}


def key_doc(guid, secret):
    return {"authorizationScheme": "Azure-HMAC-SHA256", "guid": guid, "incarnationId": 1, "issued": "2021-05-05T 12:00:00Z", "key": secret}


def traffic(tag):
    st = []
    for i, (attr, target, hs) in enumerate([
            ({"uid": 0, "admin": 1, "dip": "168.63.129.16", "dport": 80}, "/machine?comp=goalstate", [["Host", "h"]]),
            ({"uid": 1, "admin": 0, "dip": "168.63.129.16", "dport": 80}, "/machine", [["Host", "h"]]),
            ({"uid": 0, "admin": 1, "dip": "168.63.129.16", "dport": 80}, "/other/denied", [["Host", "h"]]),
            (None, "/direct", [["Host", "h"]]),
            (None, "/provision", [["Host", "h"], ["Metadata", "true"], ["x-ms-azure-time_tick", "1"]]),
            ({"uid": 0, "admin": 1, "dip": "169.254.169.254", "dport": 80}, "/provision", [["Host", "h"], ["Metadata", "true"], ["x-ms-azure-notify", "1"]])]):
        c = "%s_%d" % (tag, i)
        st += [{"op": "connect", "conn": c, "attr": attr},
               {"op": "request", "conn": c, "id": c, "method": "GET", "target": target, "headers": hs},
               {"op": "close", "conn": c}]
    st.append({"op": "own_call", "kind": "goalstate", "tag": tag + "_own"})
    return st


def fs_rows_of(sl, keydir):
    """key-directory calls from an strace log, in order: mkdir / restrict (chmod) / create (a file in the directory)"""
    fs_rows = []
    pending = {}
    for raw in open(sl, errors="replace"):
        # strace -f splits a call that another thread interrupts into "<unfinished ...>" and "<... call resumed>" lines
        # (common on a loaded machine): a call is judged only with its result, at the position where it completed
        mp = re.match(r"^(\d+)\s+(.*)$", raw.rstrip("\n"))
        pid, text = (mp.group(1), mp.group(2)) if mp else ("", raw.rstrip("\n"))
        if text.endswith("<unfinished ...>"):
            pending[pid] = text[:-len("<unfinished ...>")]
            continue
        mr = re.match(r"^<\.\.\. \w+ resumed>(.*)$", text)
        if mr:
            text = pending.pop(pid, "") + mr.group(1)
        line = pid + " " + text
        if keydir not in line:
            continue
        m = re.search(r"\b(mkdir|mkdirat|chmod|fchmodat|chown|fchownat|openat|creat|rename|renameat2?)\(", line)
        if not m or " = -1 " in line:
            continue
        call = m.group(1)
        if call.startswith("mkdir") and re.search(r'"%s/?"' % re.escape(keydir), line):
            fs_rows.append({"e": "fs", "op": "mkdir", "mode": "default"})
        elif call in ("chmod", "fchmodat") and re.search(r'"%s/?"' % re.escape(keydir), line):
            mm = re.search(r", 0?(\d{3,4})\)?", line)
            fs_rows.append({"e": "fs", "op": "restrict", "mode": "0" + mm.group(1)[-3:] if mm else "?"})
        elif call in ("openat", "creat") and ("O_CREAT" in line or call == "creat") and keydir + "/" in line:
            fs_rows.append({"e": "fs", "op": "create", "mode": "file"})
    return fs_rows


def ownership_fault(c):
    """fault dimension: every chown of the latch run fails (EPERM: no CAP_CHOWN, a seccomp filter, a volume that cannot
    record ownership).  The directory must still be restricted (mode 0700) before the first key file is created in it."""
    import subprocess
    name = "c12_chownfail"
    d, exe = rig.prepare(name)
    steps = [plan("GET /secure-channel/status", 200, status_doc(None)),
             plan("POST /secure-channel/key", 200, key_doc(G[0], CAN["ok1"])),
             plan("POST /secure-channel/key/*", 200, ""),
             {"op": "start_key_keeper", "interval_ms": 40}, {"op": "sleep", "ms": 1200}, {"op": "key_state", "tag": "chownfail"}]
    sp, out = os.path.join(d, "script.json"), os.path.join(d, "trace.ndjson")
    json.dump({"steps": steps, "hosts": rig.HOSTS, "proxy_port": 3080, "drain_ms": 100}, open(sp, "w"))
    env = dict(os.environ, VERIF_CMD="rig", VERIF_SCRIPT=sp, VERIF_OUT=out, RUST_BACKTRACE="0")
    sl = os.path.join(d, "strace.log")
    calls = "chown,fchown,fchownat,lchown"
    launcher = ("strace -f -qq -o %s -e trace=mkdir,mkdirat,chmod,fchmod,fchmodat,%s,openat,creat -e inject=%s:error=EPERM %s"
                % (sl, calls, calls, exe))
    try:
        p = subprocess.run(rig.NS + ["sh", "-c", rig.NS_SETUP_PRIVATE + " && exec " + launcher], env=env, cwd=d,
                           stdout=subprocess.PIPE, stderr=subprocess.STDOUT, timeout=180, text=True, errors="replace")
    except subprocess.TimeoutExpired:
        raise util.ToolError("chown-fault run timed out")
    keydir = os.path.join(d, "keys")
    log = open(sl, errors="replace").read() if os.path.exists(sl) else ""
    injected = sum(1 for l in log.splitlines() if "(INJECTED)" in l and keydir in l)
    rows = fs_rows_of(sl, keydir)
    if os.path.isdir(keydir):
        rows.append({"e": "sink", "sink": "keydir", "where": "keys (chown fails)", "canary": False, "phase": "chownfail",
                     "mode": "%04o" % stat.S_IMODE(os.stat(keydir).st_mode)})
    c.extra["chown_fault"] = {"injected_on_key_dir": injected, "key_files_created": sum(1 for r in rows if r.get("op") == "create"),
                              "key_file_present": os.path.isdir(keydir) and any(f.endswith(".key") for f in os.listdir(keydir))}
    shutil.rmtree(d, ignore_errors=True)
    if not any(r.get("op") == "create" for r in rows) and not c.extra["chown_fault"].get("key_file_present"):
        raise util.ToolError("chown-fault run: no key file was created (rc=%s)" % p.returncode)
    return [{"e": "fs", "op": "mkdir", "mode": "default"}] + rows if not any(r.get("op") == "mkdir" for r in rows) else rows


def busy_pool(c):
    """environment dimension: the runtime's blocking pool is saturated while the key keeper starts (it cannot grow: thread
    limit) and the host answers at once.  Restricting the key directory is ordered before the first key file whatever the
    pool does."""
    name = "c12_busypool"
    steps = [{"op": "hog_blocking_pool", "n": 2, "ms": 2500}, {"op": "sleep", "ms": 100},
             plan("GET /secure-channel/status", 200, status_doc(None)),
             plan("POST /secure-channel/key", 200, key_doc(G[0], CAN["ok1"])),
             plan("POST /secure-channel/key/*", 200, ""),
             {"op": "start_key_keeper", "interval_ms": 40}, {"op": "sleep", "ms": 4000}, {"op": "key_state", "tag": "busypool"}]
    ev, d, _ = rig.run_rig({"steps": steps, "max_blocking_threads": 2, "drain_ms": 100}, name, timeout=180,
                           strace="mkdir,mkdirat,chmod,fchmod,fchmodat,openat,creat")
    keydir = os.path.join(d, "keys")
    rows = fs_rows_of(os.path.join(d, "strace.log"), keydir)
    if not any(e["e"] == "PoolHogged" for e in ev):
        raise util.ToolError("busy-pool run: the pool was not hogged")
    if os.path.isdir(keydir):
        rows.append({"e": "sink", "sink": "keydir", "where": "keys (blocking pool busy)", "canary": False, "phase": "busypool",
                     "mode": "%04o" % stat.S_IMODE(os.stat(keydir).st_mode)})
    present = os.path.isdir(keydir) and any(f.endswith(".key") for f in os.listdir(keydir))
    c.extra["busy_pool"] = {"key_files_created": sum(1 for r in rows if r.get("op") == "create"), "key_file_present": present}
    shutil.rmtree(d, ignore_errors=True)
    if not any(r.get("op") == "create" for r in rows) and not present:
        raise util.ToolError("busy-pool run: no key file was created")
    return [{"e": "fs", "op": "mkdir", "mode": "default"}] + rows if not any(r.get("op") == "mkdir" for r in rows) else rows


def preexisting_dir(c):
    """start-up dimension: the key folder is already there when the service starts, with the permissions anybody may have
    given it (0755, left by a package script or an earlier version).  It is restricted before the first key file all the same."""
    name = "c12_preexist"
    kdir = os.path.join(util.RUNDIR, "c12_preexist_keys")
    shutil.rmtree(kdir, ignore_errors=True)
    os.makedirs(kdir)
    os.chmod(kdir, 0o755)
    steps = [plan("GET /secure-channel/status", 200, status_doc(None)),
             plan("POST /secure-channel/key", 200, key_doc(G[0], CAN["ok1"])),
             plan("POST /secure-channel/key/*", 200, ""),
             {"op": "start_key_keeper", "interval_ms": 40}, {"op": "sleep", "ms": 1200}, {"op": "key_state", "tag": "preexist"}]
    ev, d, _ = rig.run_rig({"steps": steps, "drain_ms": 100, "agent_config": {"latchKeyFolder": kdir}}, name, timeout=180,
                           strace="mkdir,mkdirat,chmod,fchmod,fchmodat,openat,creat,rename,renameat,renameat2")
    rows = fs_rows_of(os.path.join(d, "strace.log"), kdir)
    have_key = any(f.endswith(".key") for f in os.listdir(kdir))
    rows.append({"e": "sink", "sink": "keydir", "where": "keys (found at start with mode 0755)", "canary": False, "phase": "preexist",
                 "mode": "%04o" % stat.S_IMODE(os.stat(kdir).st_mode)})
    c.extra["preexisting_key_dir"] = {"mode_at_end": rows[-1]["mode"], "key_file": have_key}
    shutil.rmtree(d, ignore_errors=True)
    shutil.rmtree(kdir, ignore_errors=True)
    if not have_key:
        raise util.ToolError("pre-existing-folder run: no key file was stored")
    # the folder was made by somebody else: a (re-)created, unrestricted directory as far as the trace is concerned
    return [{"e": "fs", "op": "mkdir", "mode": "default"}] + [r for r in rows if r.get("op") != "mkdir"]


def after_provision(c):
    """second-order state: the key is latched (directory restricted), THEN provisioning finishes and its tag files are
    written into the same directory.  The key directory stays restricted for as long as it holds key files."""
    name = "c12_afterprov"
    steps = [plan("GET /secure-channel/status", 200, status_doc(None)),
             plan("POST /secure-channel/key", 200, key_doc(G[0], CAN["ok1"])),
             plan("POST /secure-channel/key/*", 200, ""),
             {"op": "start_key_keeper", "interval_ms": 40}, {"op": "sleep", "ms": 600},
             plan("GET /secure-channel/status", 200, status_doc(G[0])), {"op": "sleep", "ms": 200},
             {"op": "key_state", "tag": "latched"}, {"op": "provision_timeup"}, {"op": "sleep", "ms": 200}]
    ev, d, _ = rig.run_rig({"steps": steps, "drain_ms": 100}, name, timeout=600)
    keydir = os.path.join(d, "keys")
    if not any(e["e"] == "ProvisionTimeup" for e in ev) or not any(e["e"] == "KeyState" and e.get("guid") for e in ev):
        raise util.ToolError("after-provision run: key not latched or the deadline handler did not run")
    files = sorted(os.listdir(keydir)) if os.path.isdir(keydir) else []
    if not any(f.endswith(".key") for f in files) or not any(f.endswith(".tag") for f in files):
        raise util.ToolError("after-provision run: expected a key file and the tag files in %s, found %s" % (keydir, files))
    rows = [{"e": "sink", "sink": "keydir", "where": "keys (after provisioning finished)", "canary": False, "phase": "afterprov",
             "mode": "%04o" % stat.S_IMODE(os.stat(keydir).st_mode)}]
    for f in files:
        if f.endswith(".key"):
            # the key file itself: not readable by group/others
            m = stat.S_IMODE(os.stat(os.path.join(keydir, f)).st_mode)
            c.extra.setdefault("after_provision", {})["key_file_mode"] = "%04o" % m
    c.extra.setdefault("after_provision", {})["dir_mode"] = rows[0]["mode"]
    shutil.rmtree(d, ignore_errors=True)
    return rows


def crash_leftovers(c, needles):
    """fault dimension: the process is killed at the k-th rename of the latch run (the temp-file -> final-name step of
    whatever is being published: the key file among them); whatever it leaves behind anywhere -- the run directory and a
    private TMPDIR -- is scanned: key material may only be found inside the key directory.
    Returns sink rows."""
    import subprocess
    rows = []
    for k in (1, 2, 3):
        name = "c12_kill%d" % k
        d, exe = rig.prepare(name)
        tmp = os.path.join(d, "tmp")
        os.makedirs(tmp)
        steps = [plan("GET /secure-channel/status", 200, status_doc(None)),
                 plan("POST /secure-channel/key", 200, key_doc(G[0], CAN["ok1"])),
                 plan("POST /secure-channel/key/*", 200, ""),
                 {"op": "start_key_keeper", "interval_ms": 40}, {"op": "sleep", "ms": 1200}]
        sp, out = os.path.join(d, "script.json"), os.path.join(d, "trace.ndjson")
        json.dump({"steps": steps, "hosts": rig.HOSTS, "proxy_port": 3080, "drain_ms": 100}, open(sp, "w"))
        env = dict(os.environ, VERIF_CMD="rig", VERIF_SCRIPT=sp, VERIF_OUT=out, RUST_BACKTRACE="0", TMPDIR=tmp)
        sl = os.path.join(d, "strace.log")
        launcher = ("strace -f -qq -o %s -e trace=rename,renameat,renameat2 -e inject=rename,renameat,renameat2:signal=SIGKILL:when=%d %s"
                    % (sl, k, exe))
        try:
            p = subprocess.run(rig.NS + ["sh", "-c", rig.NS_SETUP_PRIVATE + " && exec " + launcher], env=env, cwd=d,
                               stdout=subprocess.PIPE, stderr=subprocess.STDOUT, timeout=600, text=True, errors="replace")
        except subprocess.TimeoutExpired:
            raise util.ToolError("kill-injection run %s timed out" % name)
        killed = "SIGKILL" in (open(sl, errors="replace").read() if os.path.exists(sl) else "") or p.returncode not in (0,)
        keydir = os.path.join(d, "keys")
        nfiles = 0
        for root, _, files in os.walk(d):
            for f in files:
                fp = os.path.join(root, f)
                if f in ("verif-agent", "script.json", "trace.ndjson", "strace.log", "proxy-agent.json"):
                    continue
                data = open(fp, "rb").read()
                nfiles += 1
                hit = any(nd in data for nd in needles)
                inside = fp.startswith(keydir + os.sep)
                rows.append({"e": "sink", "sink": "keyfile" if inside else ("tempDir" if fp.startswith(tmp + os.sep) else "afterKill"),
                             "where": ("kill@rename%d:" % k) + os.path.relpath(fp, d)[-60:], "canary": bool(hit), "phase": "killed" if killed else "ran"})
                c.count(("kill", k, os.path.relpath(fp, d)))
        c.extra.setdefault("kill_injection_runs", []).append({"rename": k, "killed": bool(killed), "files_scanned": nfiles})
        shutil.rmtree(d, ignore_errors=True)
    if not any(r["killed"] for r in c.extra["kill_injection_runs"]):
        raise util.ToolError("no kill-injection run was actually killed: %s" % c.extra["kill_injection_runs"])
    return rows


def run(c):
    c.assumptions = ASSUME
    build.cargo_build("agent")
    r1 = c.tlc("KeySecret", "KeySecret_redacted.cfg", workers=2, timeout=600,
               required_actions=["AcquireOk", "AcquireNonHex", "AcquireMalformed", "FetchLocal", "PublishStatus", "ProvisionQuery", "ProxySign",
                                 "UndeliveredReply", "AcquireNon200", "CrashDuringStore"])
    if r1.violated:
        raise tlcmod.TlcError("KeySecret.tla (redacted design) violates %s" % r1.invariant_violated)
    r2 = c.tlc("KeySecret", "KeySecret_asfound.cfg", workers=2, timeout=600, expect_ok=False)
    c.extra["design_quoting_key_in_errors_leaks"] = bool(r2.invariant_violated)
    r3 = c.tlc("KeySecret", "KeySecret_stageout.cfg", workers=2, timeout=600, expect_ok=False)
    c.extra["design_staging_key_outside_key_dir_leaks"] = bool(r3.invariant_violated)
    name = "c12_rig"
    d0 = os.path.join(util.RUNDIR, name)
    status_dir = os.path.join(d0, "logs")
    phases = []
    steps = [plan("GET /secure-channel/status", 200, status_doc(None)),
             plan("POST /secure-channel/key", 200, key_doc(G[0], CAN["ok1"])),
             plan("POST /secure-channel/key/*", 200, ""),
             {"op": "start_key_keeper", "interval_ms": 40}, {"op": "start_event_reader", "interval_ms": 120}, {"op": "sleep", "ms": 600},
             plan("GET /secure-channel/status", 200, status_doc(G[0])), {"op": "sleep", "ms": 200},
             {"op": "key_state", "tag": "latched"}] + traffic("t1") + [{"op": "cancel_key_calls", "n": 25}, {"op": "mark", "tag": "phase:latch"}]
    # rotation to a key the guest does not hold
    steps += [plan("POST /secure-channel/key", 200, key_doc(G[1], CAN["ok2"])),
              plan("GET /secure-channel/status", 200, status_doc(G[1])), {"op": "sleep", "ms": 500},
              {"op": "key_state", "tag": "rotated"}] + traffic("t2") + [{"op": "mark", "tag": "phase:rotation"}]
    # the host delivers a key that is not hex: stored, attestation cannot be signed; later found locally and used
    steps += [plan("POST /secure-channel/key", 200, key_doc(G[2], CAN["nonhex"])),
              plan("GET /secure-channel/status", 200, status_doc(G[2])), {"op": "sleep", "ms": 600},
              {"op": "key_state", "tag": "nonhex"}] + traffic("t3") + [{"op": "mark", "tag": "phase:nonhex"}]
    # a key reply that cannot be deserialised but carries a secret
    steps += [plan("POST /secure-channel/key", 200, '{"authorizationScheme": "Azure-HMAC-SHA256", "key": "%s", "guid": 7}' % CAN["malformed"]),
              plan("GET /secure-channel/status", 200, status_doc(G[3])), {"op": "sleep", "ms": 500},
              {"op": "key_state", "tag": "malformed"}] + traffic("t4") + [{"op": "mark", "tag": "phase:malformed"}]
    # the key request is answered with a status other than 200 (201 Created, then 500) whose body is a complete key document:
    # the agent treats it as a failure; whatever it says about that failure must not quote the body
    steps += [plan("POST /secure-channel/key", 201, key_doc(G[9], CAN["non200"])),
              plan("GET /secure-channel/status", 200, status_doc(G[9])), {"op": "sleep", "ms": 400},
              plan("POST /secure-channel/key", 500, key_doc(G[9], CAN["non200"])), {"op": "sleep", "ms": 300},
              {"op": "key_state", "tag": "non200"}] + traffic("t8") + [{"op": "mark", "tag": "phase:non200"}]
    # the key request is answered 200 with a key document in which one byte is not UTF-8 (a stray 0xFF inside `issued`)
    bad = json.dumps(key_doc(G[10], CAN["badutf8"])).encode().replace(b"2021-05-05T", b"2021-05-05\xffT")
    steps += [{"op": "set_plan", "id": "POST /secure-channel/key", "resp": {"status": 200, "headers": [["content-type", "application/json"]],
                                                                             "body": {"hex": bad.hex()}}},
              plan("GET /secure-channel/status", 200, status_doc(G[10])), {"op": "sleep", "ms": 500},
              {"op": "key_state", "tag": "badutf8"}] + traffic("t9") + [{"op": "mark", "tag": "phase:badutf8"}]
    # keys of other lengths than 256 bits (valid hex): stored, attested and used like any other
    for gi, nm in ((11, "k192"), (12, "k512")):
        steps += [plan("POST /secure-channel/key", 200, key_doc(G[gi], CAN[nm])),
                  plan("GET /secure-channel/status", 200, status_doc(G[gi])), {"op": "sleep", "ms": 500},
                  {"op": "key_state", "tag": nm}] + traffic("tk" + nm) + [{"op": "mark", "tag": "phase:" + nm}]
    # a key file left by an earlier run/version holds key material that is not hex; the host names that key
    keys_dir = os.path.join(d0, "keys")
    steps += [{"op": "write_file", "path": os.path.join(keys_dir, G[5] + ".key"), "text": json.dumps(key_doc(G[5], CAN["stale"]))},
              plan("GET /secure-channel/status", 200, status_doc(G[5])), {"op": "sleep", "ms": 400},
              {"op": "key_state", "tag": "stale"}] + traffic("t6") + [{"op": "mark", "tag": "phase:stale"}]
    # ... and a damaged (truncated) key file
    steps += [{"op": "write_file", "path": os.path.join(keys_dir, G[6] + ".key"), "text": json.dumps(key_doc(G[6], CAN["stale"]))[:150]},
              plan("POST /secure-channel/key", 500, "no key for you", "text/plain"),
              plan("GET /secure-channel/status", 200, status_doc(G[6])), {"op": "sleep", "ms": 300},
              {"op": "mark", "tag": "phase:damaged"}]
    # the key directory disappears while the agent runs, then the host rotates the key
    steps += [{"op": "remove_dir", "path": keys_dir},
              plan("POST /secure-channel/key", 200, key_doc(G[7], CAN["ok3"])),
              plan("GET /secure-channel/status", 200, status_doc(G[7])), {"op": "sleep", "ms": 500},
              {"op": "key_state", "tag": "dirgone"}] + traffic("t7") + [{"op": "mark", "tag": "phase:dirgone"}]
    # host errors, then disable
    steps += [plan("GET /secure-channel/status", 500, "internal error é" * 50, "text/plain"), {"op": "sleep", "ms": 200},
              plan("GET /secure-channel/status", 200, status_doc(None, enabled=False)), {"op": "sleep", "ms": 400},
              {"op": "key_state", "tag": "disabled"}] + traffic("t5") + [{"op": "mark", "tag": "phase:disable"}]
    steps += [{"op": "sleep", "ms": 500}, {"op": "snapshot", "tag": "final", "status_file": os.path.join(status_dir, "status.json")}]
    ev, d, _ = rig.run_rig({"steps": steps, "status_task": {"interval_ms": 50, "dir": status_dir}, "event_logger": True, "drain_ms": 400},
                           name, timeout=1200, keep_output=True,
                           strace="mkdir,mkdirat,chmod,fchmod,fchmodat,chown,fchown,fchownat,openat,creat,rename,renameat,renameat2")
    kc = next((e for e in ev if e["e"] == "KeyCallsCancelled"), {})
    c.extra["key_calls_dropped_before_reply"] = kc.get("dropped", 0)
    if kc.get("dropped", 0) < 20:
        raise util.ToolError("cancel_key_calls: only %s calls were dropped before the actor replied (vacuous)" % kc.get("dropped"))
    ks = {e.get("tag"): e for e in ev if e["e"] == "KeyState"}
    c.extra["key_states"] = {k: v.get("guid") for k, v in ks.items()}
    if not ks.get("latched", {}).get("guid"):
        raise util.ToolError("the key keeper did not latch the first key (mock protocol mismatch?): %s" % ks)
    needles = {}
    for nm, can in CAN.items():
        for r in renderings(can):
            needles[r] = nm
    rows = []
    leaks = {}

    def scan(sink, where, data):
        hit = [nm for nd, nm in needles.items() if nd in data]
        rows.append({"e": "sink", "sink": sink, "where": where[-80:], "canary": bool(hit), "phase": "final"})
        c.count((sink, where))
        if hit and sink != "keyfile":
            ctx = ""
            for nd in needles:
                i = data.find(nd)
                if i >= 0:
                    ctx = data[max(0, i - 160):i].decode("latin-1", "replace")[-160:]
                    break
            leaks.setdefault((sink, tuple(sorted(set(hit)))), []).append((where, ctx))
    keydir = os.path.join(d, "keys")
    for root, _, files in os.walk(d):
        for f in files:
            fp = os.path.join(root, f)
            if f in ("verif-agent", "script.json", "trace.ndjson", "strace.log", "proxy-agent.json"):
                continue
            data = open(fp, "rb").read()
            rel = os.path.relpath(fp, d)
            if fp.startswith(keydir + os.sep):
                sink = "keyfile"
            elif f == "stdout.txt":
                sink = "console"
            elif rel.startswith("logs/events"):
                sink = "event"
            elif f == "status.json":
                sink = "statusJson"
            elif f.startswith("status.tag"):
                sink = "statusTag"
            elif f.startswith("AuthorizationRules_"):
                sink = "ruleDump"
            elif "Connection" in f:
                sink = "connLog"
            else:
                sink = "agentLog"
            scan(sink, rel, data)
    for e in ev:
        if e["e"] == "Response":
            scan("clientResponse", "response " + e["id"], json.dumps(e["headers"]).encode() + e.get("bodyText", "").encode())
        elif e["e"] == "HostRecv":
            scan("hostRequest", "host %s %s" % (e["method"], e["target"][:40]), json.dumps(e["headers"]).encode() + bytes.fromhex(e.get("bodyHex", "")))
    if os.path.isdir(keydir):
        mode = stat.S_IMODE(os.stat(keydir).st_mode)
        rows.append({"e": "sink", "sink": "keydir", "where": "keys", "canary": False, "phase": "final", "mode": "%04o" % mode})
    fs_rows = fs_rows_of(os.path.join(d, "strace.log"), keydir)
    if not any(r["op"] == "create" for r in fs_rows):
        raise util.ToolError("strace saw no file creation in the key directory")
    c.extra["key_dir_exists_at_end"] = os.path.isdir(keydir)
    c.extra["fs_events"] = len(fs_rows)
    c.extra["sinks_scanned"] = len(rows)
    c.sample({"fs_order": [r["op"] + ":" + r["mode"] for r in fs_rows[:6]], "sinks": sorted({r["sink"] for r in rows})})
    krows = crash_leftovers(c, needles)
    for r_ in krows:
        if r_["canary"] and r_["sink"] != "keyfile":
            leaks.setdefault((r_["sink"], ("key material",)), []).append((r_["where"], ""))
    rows += krows
    allrows = fs_rows + rows + ownership_fault(c) + busy_pool(c) + after_provision(c) + preexisting_dir(c)
    remaining = allrows
    c.traces_validated += 1
    for _ in range(10):
        ok, why, res = validate_trace(c, "KeySecretTrace", "KeySecretTrace.cfg", remaining, "c12", count=0, timeout=300)
        if ok:
            break
        broken = why.replace("invariant ", "")
        if broken == "P_C12_NoLeak":
            m = re.findall(r'sink \|-> "([^"]+)"', res.trace_text)
            sink = m[-1] if m else "?"
            hits = [(k, v) for k, v in leaks.items() if k[0] == sink]
            kinds = sorted({x for k, _ in hits for x in k[1]})
            where, ctx = hits[0][1][0] if hits else ("?", "")
            c.violation("a secret issued by the host (%s) appears in sink %s (%s); preceding text: ...%s" % (
                kinds, sink, where, ctx[-200:]), {"broken": broken, "sink": sink, "secret_kind": kinds},
                {"sink": sink, "where": where, "kinds": kinds})
            remaining = [r for r in remaining if not (r["e"] == "sink" and r["sink"] == sink)]
        else:
            c.violation("C12 %s violated: key-store order %s" % (broken, [r["op"] + ":" + r["mode"] for r in fs_rows[:8]]),
                        {"broken": broken}, {"fs": fs_rows[:20]})
            remaining = [r for r in remaining if r["e"] != "fs" and r.get("sink") != "keydir"]
    c.rule = ("one scripted run through every history class of KeySecret.tla with canary secrets; cases = (sink, file/response) "
              "pairs scanned; distinct = distinct scanned outputs")


def replay(c, path):
    run(c)
