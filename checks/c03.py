"""C03 -- decided by the shared proxy pipeline (checks/proxylib.py): Proxy.tla/Authz.tla model checking, TLC-generated
scenarios replayed on the real ProxyServer, and TLC trace validation of every observed request against
spec/trace/ProxyTrace.tla with the C03 invariants."""
from checks import proxylib


def run(c):
    proxylib.decide(c, "C03", relevant=lambda row: row['attributed'] and (row['dest'] in ('ws','ga') and not row['elevated'] or row['dest']=='self'))
    # a direct connection never becomes an elevated caller's connection because a record appears under its port number later
    from checks import c07
    c07.late_record(c, "C03")
    # ... nor because an elevated caller's reset connection from the same source port is still in the accept queue
    c07.burst_reuse_check(c, "C03", 100 if c.tier != "thorough" else 400)
    # "not running elevated" is what the kernel program records: is-root must be (uid == 0) for every caller, uid != gid
    # included (linux-ebpf/ebpf_cgroup.c in the user-space shim, judged by spec/trace/EbpfTrace.tla; shared with C06)
    from checks import c06
    for f in c06.kernel_side_random(c, "c03k"):
        if f["sig"].get("kind") in ("uid-from-gid", "record-admin", "record-logon", "record-for-unlisted", "stale-record-on-reused-port",
                                    "record-under-other-key"):
            c.violation("the kernel program's record misstates whether the caller runs elevated: " + f["whats"][0],
                        {"kind": "kernel-record-misstates-elevation"}, {"witness": f.get("witness"), "sites": f["sites"]})


def replay(c, path):
    proxylib.replay(c, "C03", path)
