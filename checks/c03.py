"""C03 -- decided by the shared proxy pipeline (checks/proxylib.py): Proxy.tla/Authz.tla model checking, TLC-generated
scenarios replayed on the real ProxyServer, and TLC trace validation of every observed request against
spec/trace/ProxyTrace.tla with the C03 invariants."""
from checks import proxylib


def run(c):
    proxylib.decide(c, "C03", relevant=lambda row: row['attributed'] and (row['dest'] in ('ws','ga') and not row['elevated'] or row['dest']=='self'))
    # a direct connection never becomes an elevated caller's connection because a record appears under its port number later
    from checks import c07
    c07.late_record(c, "C03")
    # ... nor because an elevated caller's reset connection from the same source port is still in the accept queue
    c07.burst_reuse_check(c, "C03", 100 if c.tier != "thorough" else 400)
    group_members(c)
    # "not running elevated" is what the kernel program records: is-root must be (uid == 0) for every caller, uid != gid
    # included (linux-ebpf/ebpf_cgroup.c in the user-space shim, judged by spec/trace/EbpfTrace.tla; shared with C06)
    from checks import c06
    for f in c06.kernel_side_random(c, "c03k"):
        if f["sig"].get("kind") in ("uid-from-gid", "record-admin", "record-logon", "record-for-unlisted", "stale-record-on-reused-port",
                                    "record-under-other-key"):
            c.violation("the kernel program's record misstates whether the caller runs elevated: " + f["whats"][0],
                        {"kind": "kernel-record-misstates-elevation"}, {"witness": f.get("witness"), "sites": f["sites"]})


def group_members(c):
    """'not running elevated' is the kernel's record (uid 0), not the account's groups: daemon and bin are made members of
    root / sudo / wheel / adm / Administrators in a private /etc/group of the run; their connects (record: not elevated) to
    WireServer and HostGAPlugin must be answered 403 and nothing relayed, with no rules and with allow-everything rules in
    audit mode.  Judged by spec/trace/RootOnlyTrace."""
    from vlib import rig, util
    from vlib.ctx import validate_trace
    groups = {"root": ["daemon", "bin"], "sudo": ["daemon", "bin"], "wheel": ["bin"], "adm": ["daemon"], "Administrators": ["bin"]}
    steps, meta = [], {}
    n = 0
    for rnd_ in range(2):
        for uid, adm in ((1, 0), (2, 0), (0, 1)):
            for dest, port, target in (("ws", 80, "/machine?comp=goalstate"), ("ga", 32526, "/vmSettings")):
                n += 1
                cn, rid = "gm%d" % n, "gm%d_r" % n
                steps += [{"op": "connect", "conn": cn, "attr": {"uid": uid, "admin": adm, "dip": "168.63.129.16", "dport": port}, "wait": True},
                          {"op": "request", "conn": cn, "id": rid, "method": "GET", "target": target, "headers": [["Host", "h"]]},
                          {"op": "close", "conn": cn}]
                meta[rid] = {"dest": dest, "kernelElevated": bool(adm), "uid": uid}
    ev, _, _ = rig.run_rig({"steps": steps, "drain_ms": 200, "etc_group": groups}, "c03_groups", timeout=300)
    resp = {e["id"]: e for e in ev if e["e"] in ("Response", "ResponseError")}
    relayed = {e["id"] for e in ev if e["e"] == "HostRecv"}
    rows = []
    for rid, m in meta.items():
        if rid not in resp:
            raise util.ToolError("group-membership scenario: no response recorded for %s" % rid)
        rows.append({"e": "req", "id": rid, "dest": m["dest"], "kernelElevated": m["kernelElevated"], "uid": m["uid"],
                     "status": resp[rid].get("status", 0), "relayed": rid in relayed})
    c.extra["group_membership_requests"] = len(rows)
    c.count(n=len(rows))
    ok, why, res = validate_trace(c, "RootOnlyTrace", "RootOnlyTrace.cfg", rows, "c03_groups", count=1, timeout=300)
    if ok:
        return
    if "P_C03_RootOnly" not in why:
        raise util.ToolError("group-membership scenario: %s (the elevated control was not served, or the trace was not followed)" % why)
    bad = [r for r in rows if not r["kernelElevated"] and (r["relayed"] or r["status"] != 403)]
    c.violation("a caller the kernel recorded as not elevated (uid %d), whose account is a member of the groups %s, was not refused "
                "by the root-only endpoint %s: status %s, relayed %s" % (bad[0]["uid"], sorted(groups), bad[0]["dest"], bad[0]["status"], bad[0]["relayed"]),
                {"kind": "elevation-from-group-membership"}, {"rows": rows, "etc_group": groups})


def replay(c, path):
    proxylib.replay(c, "C03", path)
