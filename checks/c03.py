"""C03 -- decided by the shared proxy pipeline (checks/proxylib.py): Proxy.tla/Authz.tla model checking, TLC-generated
scenarios replayed on the real ProxyServer, and TLC trace validation of every observed request against
spec/trace/ProxyTrace.tla with the C03 invariants."""
from checks import proxylib


def run(c):
    proxylib.decide(c, "C03", relevant=lambda row: row['attributed'] and (row['dest'] in ('ws','ga') and not row['elevated'] or row['dest']=='self'))
    # a direct connection never becomes an elevated caller's connection because a record appears under its port number later
    from checks import c07
    c07.late_record(c, "C03")


def replay(c, path):
    proxylib.replay(c, "C03", path)
