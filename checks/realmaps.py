"""The user-space half of the redirector against the REAL kernel maps (shared by C06, C07, C09).

The tree's linux-ebpf/ebpf_cgroup.c is compiled for the bpf target (flags of build-linux.sh; stand-in libbpf headers
harness/ebpf/bpfinc) and loaded by the driver vdrv/realmaps.rs with the agent's own `BpfObject::from_ebpf_file`; the
object is installed in a `RedirectorSharedState` the way `Redirector::start_internal` does.  Nothing is attached to a
cgroup or a kprobe and nothing is pinned: the maps die with the driver process.  The verification stand-in for the
audit map is not enabled in that driver, so lookup_audit / remove_audit take the real-map path.

 policy_map_histories(c)   C06 "an address CURRENTLY listed in the redirect policy" / C09 "interception follows the mode":
     S->I  every history printed by spec/gen/PolicyMapGen (every sequence of MaxOps single instructions (endpoint,
           on/off); every sequence of secure-channel state changes in the key keeper's call order ws, imds, ga with ga
           following ws) is replayed through the REAL async update_*_redirect_policy; after every instruction the
           REAL policy_map (raw bpf(2) walk) is compared with the set the specification lists.  A sample of the
           histories runs on a fresh object each (= agent start, start set installed with update_policy_elem_bpf_map);
           the others are chained on one object, each preceded by three instructions that bring the map to its start set.
     I->S  the recorded rows are judged by TLC with spec/trace/PolicyMapTrace (P_MapAsInstructed); only that decides.
 consume_under_contention(c)   C07 "record consumed at accept": rounds of (kernel-style put of a record, REAL
     lookup_audit, REAL remove_audit, raw probe) while three threads keep calling update_*_redirect_policy; after each
     round the record must be gone from audit_map (P_ConsumedAbsent of the same trace spec).
"""
import concurrent.futures
import json
import os
import random
import shutil

from vlib import build, rig, tlc as tlcmod, util
from vlib.ctx import validate_trace as _validate_trace

INC = os.path.join(util.VERIF, "harness", "ebpf", "bpfinc")
EPS = ("ws", "imds", "ga")
ADDR = {"ws": ("168.63.129.16", 80), "imds": ("169.254.169.254", 80), "ga": ("168.63.129.16", 32526)}
CHAIN = 700           # histories chained on one loaded object
WORKERS = 4           # driver processes side by side
LPORT = 3080
LIP = "127.0.0.1"
TCP = 6

ASSUME = ("real-map part: the eBPF object is the tree's ebpf_cgroup.c compiled with clang -target bpf against stand-in "
          "libbpf headers (harness/ebpf/bpfinc) and loaded with BpfObject::from_ebpf_file into the sandbox kernel; no program "
          "is attached (CONFIG_KPROBES is off, the cgroup root is never touched), so what is bound is the user-space "
          "half: update_*_redirect_policy, lookup_audit, remove_audit on real BPF_MAP_TYPE_HASH / LRU_HASH maps; kernel-"
          "side writes are played with raw bpf(2) updates in socket.h's layout")


def validate_trace(c, module, cfg, rows, name, **kw):
    """vlib's validate_trace; a trace TLC cannot follow to its last row may surface as a TlcError: 'not matched'"""
    try:
        return _validate_trace(c, module, cfg, rows, name, **kw)
    except tlcmod.TlcError as ex:
        if "UNMATCHED" in str(ex):
            return False, "trace not matched to its end", None
        raise


# ------------------------------------------------------------------------------------------------ build
def src_dir():
    return os.environ.get("VERIF_EBPF_SRC") or os.path.join(util.REPO, "linux-ebpf")


def build_object():
    """clang -target bpf build of the tree's ebpf_cgroup.c -> <RUNDIR>/ebpf_cgroup.o (a failure is a tool error)."""
    src = os.path.join(src_dir(), "ebpf_cgroup.c")
    if not os.path.exists(src):
        raise util.ToolError("ebpf source not found: %s" % src)
    if not shutil.which("clang"):
        raise util.ToolError("clang not found: the real-map part cannot build the eBPF object")
    os.makedirs(util.RUNDIR, exist_ok=True)
    out = os.path.join(util.RUNDIR, "ebpf_cgroup.o")
    tmp = out + ".%d" % os.getpid()
    multi = "/usr/include/x86_64-linux-gnu"
    # build-linux.sh: clang -g -target bpf -Werror -O2 -D__TARGET_ARCH_x86 -c ebpf_cgroup.c
    cmd = ["clang", "-g", "-target", "bpf", "-Werror", "-O2", "-D__TARGET_ARCH_x86", "-I", INC, "-I", multi, "-c", src, "-o", tmp]
    p = util.sh(cmd, timeout=600, check=False)
    if p.returncode != 0:
        raise util.ToolError("clang -target bpf failed on %s:\n%s" % (src, (p.stdout or "")[-3000:]))
    os.replace(tmp, out)
    return out


def run_driver(script, name, bindir, timeout=300):
    """one driver process; returns its rows"""
    d, exe = rig.prepare(name, bindir)
    sp, out = os.path.join(d, "script.json"), os.path.join(d, "trace.ndjson")
    with open(sp, "w") as f:
        json.dump(script, f)
    p = util.sh([exe], cwd=d, env={"VERIF_CMD": "realmaps", "VERIF_SCRIPT": sp, "VERIF_OUT": out, "RUST_BACKTRACE": "0"},
                timeout=timeout, check=False)
    rows = util.read_ndjson(out) if os.path.exists(out) else []
    err = next((r for r in rows if r.get("e") == "load_error"), None)
    if err:
        raise util.ToolError("the real eBPF object could not be loaded / installed: %s" % err["what"])
    if p.returncode != 0 or not rows or rows[-1].get("e") != "done":
        panic = next((r for r in rows if r.get("e") == "Panic"), None)
        raise util.ToolError("realmaps driver failed rc=%s %s\n%s" % (p.returncode, panic or "", (p.stdout or "")[-2000:]))
    if not os.environ.get("VERIF_KEEP"):
        shutil.rmtree(d, ignore_errors=True)
    return rows


# ------------------------------------------------------------------------------------------------ policy_map
def _entry(e):
    """observed policy_map entry -> row entry of the trace spec; bits outside (ipv4, 16-bit port) make the key a different one"""
    ip, to_ip = e["ip"], e["to_ip"]
    if e.get("key_extra"):
        ip = "%s+%s" % (ip, e["key_extra"])
    if e.get("value_extra"):
        to_ip = "%s+%s" % (to_ip, e["value_extra"])
    return {"ip": ip, "port": e["port"], "proto": e["proto"], "to_ip": to_ip, "to_port": e["to_port"]}


def _listed(entries):
    """the observed map as a set of endpoint names / foreign keys, and whether every value is the proxy listener"""
    names, ok = set(), True
    rev = {(ip, port, TCP): ep for ep, (ip, port) in ADDR.items()}
    for e in map(_entry, entries):
        names.add(rev.get((e["ip"], e["port"], e["proto"]), "%s:%s/%s" % (e["ip"], e["port"], e["proto"])))
        ok = ok and (e["to_ip"], e["to_port"]) == (LIP, LPORT)
    return names, ok


def _segment_steps(h, chained):
    """driver steps of one history; a chained history first brings the map to its start set by instruction"""
    st = []
    if chained:
        for ep in EPS:
            st.append({"op": "policy", "ep": ep, "redirect": ep in h["start"], "dump": True})
    for s in h["steps"]:
        st.append({"op": "policy", "ep": s["ep"], "redirect": s["on"], "dump": True})
    return st


def _judge_segment(h, chained, want0, rows):
    """rows of one segment (one per instruction, with the map right after it) -> (trace rows for TLC, first divergence
    or None, #steps, what is listed afterwards)
    want0: what the instructions so far leave listed when the segment begins (inputs only)."""
    want = set(want0)
    trows = [{"e": "start", "eps": sorted(want)}]
    expect = []
    if chained:
        for ep in EPS:
            expect.append((ep, ep in h["start"], None))
    for s in h["steps"]:
        expect.append((s["ep"], s["on"], set(s["after"])))
    if len(rows) != len(expect):
        raise util.ToolError("realmaps driver: %d instruction rows for %d steps" % (len(rows), len(expect)))
    bad = None
    for k, ((ep, on, after), ri) in enumerate(zip(expect, rows)):
        rm = ri
        if (ri["ep"], ri["on"]) != (ep, on):
            raise util.ToolError("realmaps driver executed %s, the script said %s" % (ri, (ep, on)))
        (want.add if on else want.discard)(ep)
        if after is not None and after != want:
            raise util.ToolError("PolicyMapGen's expectation %s differs from the last instructions %s" % (after, want))
        trows.append({"e": "instr", "ep": ep, "on": on})
        trows.append({"e": "map", "entries": [_entry(e) for e in rm["entries"]]})
        got, vals = _listed(rm["entries"])
        if bad is None and (got != want or not vals):
            bad = {"step": k + 1, "instruction": {"ep": ep, "on": on}, "spec_lists": sorted(want), "policy_map_lists": sorted(got),
                   "values_are_proxy": vals, "stale": sorted(got - want), "missing": sorted(want - got)}
    return trows, bad, len(expect), want


def _generate(c, thorough):
    hists = []
    for shape in ("free", "keeper"):
        cfg = "PolicyMapGen_%s%s.cfg" % (shape, "_thorough" if thorough else "")
        g = c.tlc("PolicyMapGen", cfg, subdir="gen", workers=1, coverage=False, timeout=600)
        if g.violated:
            raise tlcmod.TlcError("PolicyMap: MapAsInstructed fails on the design (%s)" % cfg)
        hs = tlcmod.printed_json(g, "POLHIST")
        if len(hs) < 50:
            raise util.ToolError("PolicyMapGen/%s printed %d histories" % (cfg, len(hs)))
        for h in hs:
            h["shape"] = shape
        hists += hs
    return hists


def _execute(obj, bindir, plan, name):
    """plan: list of (history, chained) in execution order; chained ones share the object of the first of their chain
    -> list of (trace rows, divergence, want before) per history"""
    runs, layout = [], []          # driver runs; layout[k] = (run index, [history indices])
    for k, (h, chained) in enumerate(plan):
        if chained and runs and runs[-1]["_chain"] and len(layout[-1][1]) < CHAIN:
            runs[-1]["steps"] += _segment_steps(h, True)
            layout[-1][1].append(k)
        else:
            runs.append({"id": len(runs) + 1, "_chain": chained, "start": list(EPS) if chained else h["start"],
                         "steps": _segment_steps(h, chained)})
            layout.append((len(runs), [k]))
    # the runs are independent (an object each): spread them over a few driver processes, heaviest first
    shares = [[0, []] for _ in range(min(WORKERS, len(runs)))]
    for r in sorted(runs, key=lambda r: -len(r["steps"])):
        sh = min(shares, key=lambda x: x[0])
        sh[0] += 200 + len(r["steps"])
        sh[1].append({k: v for k, v in r.items() if k != "_chain"})

    def work(w):
        return run_driver({"obj": obj, "local_port": LPORT, "loggers": True, "runs": shares[w][1]}, "%s_w%d" % (name, w), bindir, timeout=900)
    by_run = {}
    with concurrent.futures.ThreadPoolExecutor(max_workers=len(shares)) as ex:
        for rows in ex.map(work, range(len(shares))):
            for r in rows:
                if "run" in r:
                    by_run.setdefault(r["run"], []).append(r)
    out = [None] * len(plan)
    nsteps = 0
    chain_first = {}
    for rid, idx in layout:
        for k in idx:
            chain_first[k] = idx[0]
        rr = by_run.get(rid, [])
        st = next((r for r in rr if r["e"] == "start"), None)
        if st is None:
            raise util.ToolError("realmaps driver: run %d did not start" % rid)
        chained = plan[idx[0]][1]
        want = set(EPS) if chained else set(plan[idx[0]][0]["start"])
        got0, vals0 = _listed(st["entries"])
        if got0 != want or not vals0:
            # what update_policy_elem_bpf_map (start_internal's path) left is itself judged: a start row + a map row
            out[idx[0]] = ([{"e": "start", "eps": sorted(want)}, {"e": "map", "entries": [_entry(e) for e in st["entries"]]}],
                           {"step": 0, "instruction": "start", "spec_lists": sorted(want), "policy_map_lists": sorted(got0),
                            "values_are_proxy": vals0, "stale": sorted(got0 - want), "missing": sorted(want - got0)}, set(want))
            continue
        body = [r for r in rr if r["e"] == "instr"]
        pos = 0
        for k in idx:
            h = plan[k][0]
            n = len(h["steps"]) + (3 if chained else 0)
            seg = body[pos:pos + n]
            pos += n
            before = set(want)
            trows, bad, ns, want = _judge_segment(h, chained, want, seg)
            nsteps += ns
            out[k] = (trows, bad, before)
    return out, nsteps, len(runs), chain_first


def policy_map_histories(c, label=None):
    """S->I + I->S of the redirect-policy instructions on the real policy_map.  Violations are recorded on c under
    {"kind": "policy-map-not-what-was-instructed"}; evidence in c.extra["realmaps_policy"]."""
    label = label or c.prop.lower()
    thorough = c.tier == "thorough"
    rnd = random.Random(c.seed * 7919 + 11)
    tm = util.Timer()
    obj = build_object()
    bindir = build.cargo_build("agent")
    hists = _generate(c, thorough)
    rnd.shuffle(hists)
    nfresh = 400 if thorough else 50
    fresh = [h for h in hists if h["shape"] == "keeper"][:nfresh] + [h for h in hists if h["shape"] == "free"][:nfresh]
    fresh_ids = {id(h) for h in fresh}
    plan = [(h, False) for h in fresh] + [(h, True) for h in hists if id(h) not in fresh_ids]
    results, nsteps, nloads, chain_first = _execute(obj, bindir, plan, "realmaps_%s_%d" % (label, os.getpid()))
    c.count(n=nsteps)
    for h, _ in plan:
        c.distinct.add("polhist:" + util.sha(json.dumps([h["start"], [(s["ep"], s["on"]) for s in h["steps"]]]))[:16])
    flagged = [k for k, r in enumerate(results) if r[1]]
    # I->S: every fresh run, every diverging segment (the first few) and a seeded sample of the chained ones
    chained_ok = [k for k in range(len(fresh), len(plan)) if not results[k][1]]
    pick = list(range(len(fresh))) + flagged[:5] + rnd.sample(chained_ok, min(6000 if thorough else 1200, len(chained_ok)))
    pick = sorted(set(pick))
    config = {"e": "config", "lip": LIP, "lport": LPORT, "sports": []}
    rows = [config]
    for k in pick:
        rows += results[k][0]
    ok, why, res = validate_trace(c, "PolicyMapTrace", "PolicyMapTrace.cfg", rows, "realmaps_pol_%s" % label, count=len(pick),
                                  timeout=900, heap="4g")
    ev = {"object": "ebpf_cgroup.o built from %s, loaded with BpfObject::from_ebpf_file (nothing attached)" % src_dir(),
          "histories": len(plan), "histories_on_a_fresh_object": len(fresh), "object_loads": nloads,
          "instructions_compared_with_policy_map": nsteps, "histories_judged_by_PolicyMapTrace": len(pick),
          "diverging_histories": len(flagged)}
    c.extra["realmaps_policy"] = ev
    if ok and not flagged:
        c.sample({"kind": "real policy_map after each instruction (first history)",
                  "start": plan[0][0]["start"], "rows": results[0][0][1:7]})
        ev["wall_s"] = tm.s()
        return
    if ok and flagged:
        raise util.ToolError("oracle disagreement: the python comparison flags %s but PolicyMapTrace accepts the rows" % results[flagged[0]][1])
    if why.startswith("trace not matched") or "P_MapAsInstructed" not in why:
        raise util.ToolError("PolicyMapTrace could not follow the recorded rows (%s): %s" % (label, why))
    if not flagged:
        raise util.ToolError("oracle disagreement: PolicyMapTrace rejects (%s) but the python comparison finds nothing" % why)
    # a rejection is believed when it reproduces from its own artefact: the diverging history alone, on a fresh object
    k = flagged[0]
    h, chained = plan[k]
    bad = results[k][1]
    again = _execute(obj, bindir, [(h, False)], "realmaps_%s_rp_%d" % (label, os.getpid()))[0]
    how = "on a fresh object"
    if not again[0][1] and chained:
        # the hidden state may need what ran before it on the same object: replay the chain up to the history
        first = chain_first[k]
        again = [_execute(obj, bindir, plan[first:k + 1], "realmaps_%s_rp2_%d" % (label, os.getpid()))[0][-1]]
        how = "with the %d histories that ran before it on the same object" % (k - first)
    if not again[0][1]:
        c.extra["realmaps_policy_unreproduced"] = bad
        raise util.ToolError("a diverging policy history did not reproduce from its artefact; not believed: %s" % bad)
    ok2, why2, _ = validate_trace(c, "PolicyMapTrace", "PolicyMapTrace.cfg", [config] + again[0][0],
                                  "realmaps_pol_%s_replay" % label, count=0, timeout=300)
    if ok2 or "P_MapAsInstructed" not in why2:
        raise util.ToolError("replayed policy history: python flags %s, PolicyMapTrace says %s" % (again[0][1], why2 or "accepted"))
    b2 = again[0][1]
    ev["first_divergence"] = b2
    for _ in flagged:
        c.violation(
            "the kernel's policy_map is not what the agent was instructed: after update_%s_redirect_policy(%s) (step %d of a "
            "%s history from start set %s, %s) the redirect policy lists %s but policy_map lists %s%s -- connects to an "
            "address that is not currently in the policy keep being diverted / listed ones are not (%d of %d histories diverge)"
            % ({"ws": "wire_server", "imds": "imds", "ga": "hostga"}.get(b2["instruction"]["ep"], "?") if isinstance(b2["instruction"], dict) else "start",
               str(b2["instruction"]["on"]).lower() if isinstance(b2["instruction"], dict) else "", b2["step"], h["shape"],
               sorted(h["start"]), how, b2["spec_lists"], b2["policy_map_lists"],
               "" if b2["values_are_proxy"] else " (a value is not the proxy listener)", len(flagged), len(plan)),
            {"kind": "policy-map-not-what-was-instructed"},
            {"history": h, "chained": chained, "divergence": b2, "rows": again[0][0], "object_source": src_dir()})
    ev["wall_s"] = tm.s()


# ------------------------------------------------------------------------------------------------ audit_map
def _record(i):
    # what the kernel hook writes (socket.h sock_addr_audit_entry): uid, pid, uid == 0, daddr and dport in network order
    ws = i % 2 == 0
    ip = ADDR["ws" if ws else "imds"][0]
    dip = int.from_bytes(bytes(int(x) for x in ip.split(".")), "little")
    dport = int.from_bytes((80).to_bytes(2, "big"), "little")
    return {"logon": 0 if ws else 1000 + i % 7, "pid": 3000 + i, "admin": 1 if ws else 0, "dip": dip, "dport": dport}


def _consume_run(obj, bindir, rounds, name, rnd):
    ports = [rnd.randrange(32768, 60999) for _ in range(8)]
    main = []
    for i in range(rounds):
        a = ports[i % len(ports)]          # source ports come back, as the kernel hands them out again
        by = i % 10 == 0                   # now and then a bystander connection that is not accepted in this round
        b = 20000 + (i // 10) % 100
        if by:
            main.append({"op": "put_audit", "sport": b, "record": _record(i + 1)})
        main += [{"op": "put_audit", "sport": a, "record": _record(i)}, {"op": "lookup", "sport": a}, {"op": "remove", "sport": a},
                 {"op": "probe", "sport": a, "sweep": True}]
        if by:
            main += [{"op": "probe", "sport": b}, {"op": "raw_delete", "sport": b}]
    # what the key keeper does when the rules change mode, from three tasks at once
    bg = [[{"op": "policy", "ep": ep, "redirect": False}, {"op": "policy", "ep": ep, "redirect": True}] for ep in EPS]
    script = {"obj": obj, "local_port": LPORT, "loggers": True,
              "runs": [{"id": 1, "start": list(EPS), "steps": [{"op": "parallel", "main": main, "background": bg}, {"op": "dump_audit"}]}]}
    rows = run_driver(script, name, bindir, timeout=600)
    trows = [{"e": "config", "lip": LIP, "lport": LPORT, "sports": sorted(set(ports) | set(range(20000, 20100)))},
             {"e": "start", "eps": list(EPS)}]
    st = {"rounds": 0, "left": [], "remove_errors": 0, "lookup_mismatch": 0, "bystander_lost": 0, "errs": []}
    put = {}
    consumed = set()
    for r in rows:
        e = r["e"]
        if e == "put_audit":
            if not r["ok"]:
                raise util.ToolError("raw BPF_MAP_UPDATE_ELEM on audit_map failed: errno %s" % r["errno"])
            put[r["sport"]] = r["record"]
            consumed.discard(r["sport"])
            trows.append({"e": "put", "sport": r["sport"], "rec": r["record"]})
        elif e == "lookup":
            want = put.get(r["sport"])
            if not r["found"] or r["rec"] != want:
                st["lookup_mismatch"] += 1
                st["errs"].append({"lookup": r, "put": want})
        elif e == "remove":
            st["rounds"] += 1
            if not r["ok"]:
                st["remove_errors"] += 1
                if len(st["errs"]) < 3:
                    st["errs"].append({"remove": r})
            consumed.add(r["sport"])
            trows.append({"e": "consume", "sport": r["sport"], "ok": r["ok"]})
        elif e == "probe":
            trows.append({"e": "probe", "sport": r["sport"], "present": r["present"]})
            if r["sport"] in consumed and r["present"]:
                st["left"].append({"round": st["rounds"], "sport": r["sport"], "record_still_in_audit_map": r["raw"]})
            if r["sport"] not in consumed and not r["present"]:
                st["bystander_lost"] += 1
        elif e == "raw_delete":
            # the connection on the port is over; a record that is still there is swept by the harness (a put replaces it anyway)
            if r["sport"] not in consumed:
                trows.append({"e": "consume", "sport": r["sport"], "ok": True})
        elif e == "parallel_done":
            st["policy_updates_meanwhile"] = 2 * sum(r["bg_iterations"])
    if st["rounds"] != rounds:
        raise util.ToolError("consume run: %d of %d rounds recorded" % (st["rounds"], rounds))
    if st.get("policy_updates_meanwhile", 0) < rounds:
        raise util.ToolError("consume run: only %s policy updates ran beside %d rounds (no contention)" % (st.get("policy_updates_meanwhile"), rounds))
    return trows, st


def consume_under_contention(c, label=None):
    """C07 on the real audit_map while the redirect policy is being rewritten by other threads.  A violation is recorded
    on c under {"kind": "record-not-consumed-from-kernel-map"}; evidence in c.extra["realmaps_consume"]."""
    label = label or c.prop.lower()
    rnd = random.Random(c.seed * 104729 + 5)
    tm = util.Timer()
    obj = build_object()
    bindir = build.cargo_build("agent")
    rounds = 6000 if c.tier == "thorough" else 1500
    trows, st = _consume_run(obj, bindir, rounds, "realmaps_%s_%d" % (label, os.getpid()), rnd)
    ok, why, res = validate_trace(c, "PolicyMapTrace", "PolicyMapTrace.cfg", trows, "realmaps_aud_%s" % label, count=1, timeout=600, heap="4g")
    ev = {"rounds": rounds, "policy_updates_meanwhile": st["policy_updates_meanwhile"], "records_left_after_consume": len(st["left"]),
          "remove_audit_errors": st["remove_errors"], "lookup_differs_from_put": st["lookup_mismatch"],
          "bystander_records_lost": st["bystander_lost"]}
    c.extra["realmaps_consume"] = ev
    c.count(n=rounds)
    if st["lookup_mismatch"] or st["bystander_lost"]:
        c.extra["model_drift_realmaps"] = st["errs"][:3]
    if ok and not st["left"]:
        c.sample({"kind": "put (kernel style) -> lookup_audit -> remove_audit -> raw probe on the real audit_map", "rows": trows[2:8]})
        ev["wall_s"] = tm.s()
        return
    if ok:
        raise util.ToolError("oracle disagreement: records left %s but PolicyMapTrace accepts" % st["left"][:2])
    if "P_ConsumedAbsent" not in why:
        raise util.ToolError("PolicyMapTrace could not follow the consume rows: %s" % why)
    if not st["left"]:
        raise util.ToolError("oracle disagreement: PolicyMapTrace rejects (%s), python finds no record left" % why)
    # timing dependent: believed when it shows again in a repetition (up to three)
    again = []
    for k in range(3):
        _, s2 = _consume_run(obj, bindir, rounds, "realmaps_%s_rp%d_%d" % (label, k, os.getpid()), rnd)
        again.append(len(s2["left"]))
        if s2["left"]:
            break
    ev["repetitions_records_left"] = again
    if not any(again):
        c.extra["realmaps_consume_unreproduced"] = st["left"][:3]
        raise util.ToolError("a record left in audit_map after remove_audit did not show again in 3 repetitions; not believed")
    c.violation(
        "a record is still in the kernel's audit_map after the accept path consumed it: remove_audit(%d) returned %s while "
        "other threads were in update_*_redirect_policy, and a raw lookup finds the record afterwards (%d of %d rounds; "
        "repetition: %s) -- the next connection from that source port inherits it"
        % (st["left"][0]["sport"], json.dumps(next((e["remove"]["err"] for e in st["errs"] if "remove" in e), "Ok")),
           len(st["left"]), rounds, again),
        {"kind": "record-not-consumed-from-kernel-map"},
        {"left": st["left"][:5], "remove_errors": st["remove_errors"], "errors": st["errs"][:3], "rounds": rounds})
    ev["wall_s"] = tm.s()


# ------------------------------------------------------------------------------------------------ start-up (attach order)
BPF_PROG_QUERY = 16
BPF_CGROUP_INET4_CONNECT = 10


def _cgroup_progs(path, attach_type=BPF_CGROUP_INET4_CONNECT):
    """number of programs attached to the cgroup directory for the attach type (raw bpf(BPF_PROG_QUERY))"""
    import ctypes
    import struct
    libc = ctypes.CDLL(None, use_errno=True)
    fd = os.open(path, os.O_RDONLY | os.O_DIRECTORY)
    try:
        ids = (ctypes.c_uint32 * 64)()
        attr = ctypes.create_string_buffer(struct.pack("IIIIQI", fd, attach_type, 0, 0, ctypes.addressof(ids), 64) + b"\0" * 100)
        if libc.syscall(321, BPF_PROG_QUERY, attr, len(attr)) < 0:
            raise util.ToolError("bpf(BPF_PROG_QUERY) on %s failed: errno %d" % (path, ctypes.get_errno()))
        return struct.unpack_from("I", attr.raw, 24)[0]
    finally:
        os.close(fd)


def _merge_strace(lines):
    """strace -f lines in completion order, '<unfinished ...>' / '<... resumed>' pairs joined"""
    import re
    pend, out = {}, []
    for ln in lines:
        m = re.match(r"^(\d+)\s+(.*)$", ln.rstrip("\n"))
        if not m:
            continue
        pid, rest = m.group(1), m.group(2)
        if rest.endswith("<unfinished ...>"):
            pend[pid] = rest[:-len("<unfinished ...>")]
            continue
        r = re.match(r"^<\.\.\. \w+ resumed>(.*)$", rest)
        if r:
            rest = pend.pop(pid, "") + r.group(1)
        out.append((pid, rest))
    return out


def attach_rows(lines, obj_name="ebpf_cgroup.o"):
    """system-call log -> rows of spec/trace/AttachTrace (nothing but the log is used)
    publish attach: begins with the first of open(kprobe PMU type) / perf_event_open / open(tracefs kprobe_events); it
                    succeeded when ioctl(PERF_EVENT_IOC_SET_BPF) or bpf(BPF_LINK_CREATE, attach_type=BPF_PERF_EVENT) did
    divert attach:  bpf(BPF_LINK_CREATE | BPF_PROG_ATTACH) with attach_type=BPF_CGROUP_INET4_CONNECT and its result
    detach:         a descriptor that holds an attachment is closed (the links of one object go together), or the process ends
    attempt:        the object file is opened for loading"""
    import re
    rows, info = [], {"publish_attempts": 0, "divert_attempts": 0, "kprobe_prog_loads": 0, "cgroup_prog_loads": 0}
    pending = None          # a publish attach under way: {"ok": bool}
    held = set()            # descriptors whose close detaches something

    def flush():
        nonlocal pending
        if pending is not None:
            rows.append({"e": "attach", "hook": "publish", "ok": pending["ok"]})
            pending = None

    def ret(rest):
        m = re.search(r"\)\s+=\s+(-?\d+)", rest)
        return int(m.group(1)) if m else -1
    for pid, rest in _merge_strace(lines):
        if rest.startswith("openat(") and ('/%s"' % obj_name) in rest and ret(rest) >= 0:
            flush()
            rows.append({"e": "attempt"})
        elif (rest.startswith("openat(") and ("/sys/bus/event_source/devices/kprobe/type" in rest or "kprobe_events" in rest)) \
                or rest.startswith("perf_event_open("):
            if pending is None:
                pending = {"ok": False}
                info["publish_attempts"] += 1
            if rest.startswith("perf_event_open(") and ret(rest) >= 0:
                pending.setdefault("fds", set()).add(ret(rest))
        elif rest.startswith("ioctl(") and "PERF_EVENT_IOC_SET_BPF" in rest:
            if pending is None:
                pending = {"ok": False}
                info["publish_attempts"] += 1
            if ret(rest) == 0:
                pending["ok"] = True
                m = re.match(r"ioctl\((\d+),", rest)
                held.add(int(m.group(1)))
                flush()
        elif rest.startswith("bpf(BPF_PROG_LOAD") and "prog_type=BPF_PROG_TYPE_KPROBE" in rest and "insn_cnt=2," not in rest:
            info["kprobe_prog_loads"] += 1
        elif rest.startswith("bpf(BPF_PROG_LOAD") and "prog_type=BPF_PROG_TYPE_CGROUP_SOCK_ADDR" in rest:
            info["cgroup_prog_loads"] += 1
        elif rest.startswith("bpf(BPF_LINK_CREATE") and "attach_type=BPF_PERF_EVENT" in rest:
            if "target_fd=-1" in rest:
                continue            # aya's feature probe for perf links
            if pending is None:
                pending = {"ok": False}
                info["publish_attempts"] += 1
            if ret(rest) >= 0:
                pending["ok"] = True
                held.add(ret(rest))
                held.update(pending.get("fds", ()))
                flush()
        elif (rest.startswith("bpf(BPF_LINK_CREATE") or rest.startswith("bpf(BPF_PROG_ATTACH")) and "BPF_CGROUP_INET4_CONNECT" in rest:
            flush()
            info["divert_attempts"] += 1
            r = ret(rest)
            rows.append({"e": "attach", "hook": "divert", "ok": r >= 0})
            if r >= 0 and rest.startswith("bpf(BPF_LINK_CREATE"):
                held.add(r)
            elif r >= 0:
                held.add(-1)        # no link: stays until BPF_PROG_DETACH
        elif rest.startswith("bpf(BPF_PROG_DETACH") and "BPF_CGROUP_INET4_CONNECT" in rest and ret(rest) == 0:
            flush()
            rows.append({"e": "detach"})
            held.clear()
        elif rest.startswith("close("):
            m = re.match(r"close\((\d+)\)", rest)
            if m and int(m.group(1)) in held and ret(rest) == 0:
                flush()
                rows.append({"e": "detach"})
                held = {-1} if -1 in held else set()
    flush()
    if held - {-1}:
        rows.append({"e": "detach"})       # the process ended: its links are gone
    info["left_attached_without_link"] = -1 in held
    return rows, info


def _attach_run(obj, bindir, name):
    """one driver run in a private mount namespace whose only cgroup2 directory is a private, empty cgroup"""
    p = util.sh("findmnt -t cgroup2 -n -o TARGET | head -n 1", timeout=30, check=False)
    cg2 = (p.stdout or "").strip()
    if not cg2 or not os.path.isdir(cg2):
        raise util.ToolError("no cgroup2 mount: the start-up order cannot be observed")
    if not shutil.which("strace"):
        raise util.ToolError("strace not found")
    d, exe = rig.prepare(name, bindir)
    cgdir = os.path.join(d, "cg")
    os.makedirs(cgdir)
    cfgp = os.path.join(d, "proxy-agent.json")
    cfg = util.read_json(cfgp)
    cfg["cgroupRoot"] = cgdir                      # the configured fallback names the private cgroup too
    util.write_json(cfgp, cfg)
    shutil.copy(obj, os.path.join(d, "ebpf_cgroup.o"))      # where Redirector::load_bpf_object looks (next to the executable)
    sp, out, slog = os.path.join(d, "script.json"), os.path.join(d, "trace.ndjson"), os.path.join(d, "strace.log")
    with open(sp, "w") as f:
        json.dump({"mode": "attach", "obj": os.path.join(d, "ebpf_cgroup.o"), "cgroup": cgdir, "local_port": LPORT,
                   "direct_attempts": 2, "loggers": True}, f)
    private = os.path.join(cg2, "verif_attach_%d_%d" % (os.getpid(), random.randrange(1 << 30)))
    os.mkdir(private)
    try:
        # private mount namespace: the private cgroup is bound into the run directory, every other cgroup mount is detached,
        # so whatever path the tree under test resolves, the only cgroup it can reach is the private, empty one
        inner = ("mount --bind %s %s && umount -R -l /sys/fs/cgroup && exec strace -f -qq -v -s 128 -o %s "
                 "-e trace=bpf,perf_event_open,openat,ioctl,close %s" % (private, cgdir, slog, exe))
        pr = util.sh(["unshare", "-m", "sh", "-c", inner], cwd=d,
                     env={"VERIF_CMD": "realmaps", "VERIF_SCRIPT": sp, "VERIF_OUT": out, "RUST_BACKTRACE": "0"}, timeout=600, check=False)
        left = _cgroup_progs(private)
    finally:
        try:
            os.rmdir(private)           # an empty cgroup: removing it also releases anything still attached to it
        except OSError as ex:
            raise util.ToolError("the private cgroup %s could not be removed: %s" % (private, ex))
    rows = util.read_ndjson(out) if os.path.exists(out) else []
    err = next((r for r in rows if r.get("e") == "load_error"), None)
    if err:
        raise util.ToolError("start-up run: %s" % err["what"])
    if pr.returncode != 0 or not rows or rows[-1].get("e") != "done":
        raise util.ToolError("realmaps driver (attach mode) failed rc=%s\n%s" % (pr.returncode, (pr.stdout or "")[-2000:]))
    if left:
        raise util.ToolError("%d program(s) were still attached to the private cgroup after the driver exited" % left)
    with open(slog, errors="replace") as f:
        lines = f.readlines()
    trows, info = attach_rows(lines)
    info["driver"] = {r["e"]: {k: v for k, v in r.items() if k not in ("e", "seq")} for r in rows if r["e"] in ("start_end", "direct_attempt")}
    if not os.environ.get("VERIF_KEEP"):
        shutil.rmtree(d, ignore_errors=True)
    return trows, info


def attach_order(c, label=None):
    """C06 at start-up: the diverting hook is never in force without the publishing hook.  The REAL Redirector::start
    (retry loop, a fresh object per attempt) and Redirector::attach_bpf_prog run on the tree's eBPF object under strace;
    rows derived from the system-call log are judged by spec/trace/AttachTrace.  Violations are recorded on c under
    {"kind": "diverting-hook-attached-before-publishing-hook"}; evidence in c.extra["realmaps_attach"]."""
    label = label or c.prop.lower()
    tm = util.Timer()
    c.tlc("Attach", "Attach.cfg", workers=2, timeout=900,
          required_actions=["Attempt", "AttachPublish", "AttachDivert", "DetachAll", "Close", "ClientConnect"])
    sw = c.tlc("Attach", "Attach_swapped.cfg", workers=2, timeout=900, coverage=False, expect_ok=False)
    if sw.invariant_violated != "NeverDivertUnpublished":
        raise tlcmod.TlcError("mc/Attach_swapped.cfg (divert attached first) was expected to violate NeverDivertUnpublished "
                              "(anti-vacuity of the clause); got %s" % (sw.invariant_violated or sw.error_lines[:2] or "no violation"))
    # the same clause for every number of retries: the inductive argument is checked by the proof system
    from vlib import tlaps
    pr = tlaps.prove("AttachProof", timeout=300)
    c.extra["attach_proof_tlaps"] = pr
    if not pr["proved"]:
        raise tlcmod.TlcError("spec/proofs/AttachProof.tla is not proved any more (Attach.tla changed?): %s" % pr.get("output_tail", "")[-600:])
    obj = build_object()
    bindir = build.cargo_build("agent")
    trows, info = _attach_run(obj, bindir, "realmaps_att_%s_%d" % (label, os.getpid()))
    nattempts = sum(1 for r in trows if r["e"] == "attempt")
    nattach = sum(1 for r in trows if r["e"] == "attach")
    ev = {"attempts_seen_in_the_syscall_log": nattempts, "attach_rows": [r for r in trows if r["e"] != "attempt"][:8], "syscalls": info}
    c.extra["realmaps_attach"] = ev
    if nattempts < 2 or nattach == 0 or not (info["kprobe_prog_loads"] or info["cgroup_prog_loads"]):
        raise util.ToolError("start-up run: the system-call log shows %d object loads and %d attach attempts -- nothing to judge "
                             "(strace decoding or the start-up path changed): %s" % (nattempts, nattach, info))
    ok, why, res = validate_trace(c, "AttachTrace", "AttachTrace.cfg", trows, "realmaps_att_%s" % label, count=1, timeout=600)
    c.count(n=nattach)
    if ok:
        c.sample({"kind": "start-up rows derived from strace (first attempt)", "rows": trows[:4]})
        ev["wall_s"] = tm.s()
        return
    if "P_C06_NeverDivertUnpublished" not in why:
        raise util.ToolError("AttachTrace could not follow the rows derived from the system-call log: %s" % why)
    # believed when it shows again in a second run
    trows2, info2 = _attach_run(obj, bindir, "realmaps_att_%s_rp_%d" % (label, os.getpid()))
    ok2, why2, _ = validate_trace(c, "AttachTrace", "AttachTrace.cfg", trows2, "realmaps_att_%s_replay" % label, count=0, timeout=600)
    if ok2 or "P_C06_NeverDivertUnpublished" not in why2:
        c.extra["realmaps_attach_unreproduced"] = trows[:12]
        raise util.ToolError("a start-up with the diverting hook in force alone did not show again; not believed")
    k = next(i for i, r in enumerate(trows) if r["e"] == "attach" and r["hook"] == "divert" and r["ok"])
    c.violation(
        "at start-up the diverting hook (cgroup/connect4) is attached while the publishing hook (kprobe tcp_connect) is not: "
        "rows %s of the system-call log of Redirector::start / attach_bpf_prog (%d attempts) -- between the two attaches, and until "
        "the object is dropped when the kprobe attach fails, connects to listed addresses are diverted to the proxy with no record"
        % (json.dumps(trows[max(0, k - 1):k + 3]), nattempts),
        {"kind": "diverting-hook-attached-before-publishing-hook"},
        {"rows": trows, "syscalls": info, "driver": info.get("driver")})
    ev["wall_s"] = tm.s()


# ------------------------------------------------------------------------------------------------ attach scope (which cgroup)
def _scope_run(bindir, name, top, table, k):
    """the resolver of the tree in a private mount namespace whose cgroup2 mounts are bind mounts of top/<table[i]> in order;
    returns (roots read from the namespace's mountinfo, cgroup of the resolved directory, raw event)"""
    d, exe = rig.prepare(name, bindir)
    mps = []
    for i in range(len(table)):
        mp = os.path.join(d, "m%d" % (i + 1))
        os.makedirs(mp)
        mps.append(mp)
    cfgp = os.path.join(d, "proxy-agent.json")
    cfg = util.read_json(cfgp)
    cfg["cgroupRoot"] = mps[0]                    # the configured fallback: the system mount
    util.write_json(cfgp, cfg)
    sp, out, mi = os.path.join(d, "script.json"), os.path.join(d, "trace.ndjson"), os.path.join(d, "mountinfo.txt")
    with open(sp, "w") as f:
        json.dump({"mode": "scope", "loggers": False}, f)
    binds = " && ".join("mount --bind %s %s" % (os.path.join(top, *g), mp) for g, mp in zip(table, mps))
    inner = "%s && umount -R -l /sys/fs/cgroup && cat /proc/self/mountinfo > %s && exec %s" % (binds, mi, exe)
    pr = util.sh(["unshare", "-m", "sh", "-c", inner], cwd=d,
                 env={"VERIF_CMD": "realmaps", "VERIF_SCRIPT": sp, "VERIF_OUT": out, "RUST_BACKTRACE": "0"}, timeout=120, check=False)
    rows = util.read_ndjson(out) if os.path.exists(out) else []
    ev = next((r for r in rows if r.get("e") == "resolved"), None)
    if pr.returncode != 0 or ev is None:
        raise util.ToolError("realmaps driver (scope mode) failed rc=%s\n%s" % (pr.returncode, (pr.stdout or "")[-1500:]))
    topname = "/" + os.path.basename(top)
    seen = []       # (mount point, root as a cgroup below top), in mount order, as the namespace itself reports them
    with open(mi) as f:
        for ln in f:
            left, _, right = ln.partition(" - ")
            fl = left.split()
            if right.split()[0] != "cgroup2":
                continue
            root, mp = fl[3], fl[4]
            if not (root == topname or root.startswith(topname + "/")):
                raise util.ToolError("a cgroup2 mount outside the private hierarchy is visible in the namespace: %s" % ln.strip())
            seen.append((mp, [x for x in root[len(topname):].split("/") if x]))
    if [m for m, _ in seen] != mps:
        raise util.ToolError("the namespace does not show the mount table that was set up: %s vs %s" % (seen, mps))
    path = os.path.normpath(ev["path"])
    best = None
    for mp, root in seen:
        if path == mp or path.startswith(mp + "/"):
            rel = [x for x in path[len(mp):].split("/") if x]
            if best is None or len(mp) > len(best[0]):
                best = (mp, root + rel)
    if best is None:
        raise util.ToolError("the resolved directory %r is not below any cgroup2 mount of the namespace %s" % (path, mps))
    if not os.environ.get("VERIF_KEEP"):
        shutil.rmtree(d, ignore_errors=True)
    return [r for _, r in seen], best[1], ev


def attach_scope(c, label=None):
    """C06, 'for EVERY outbound connect by a process other than the agent': the cgroup the diverting hook is attached to covers
    every cgroup2 sub-tree mounted in the agent's namespace.  Every mount table of spec/gen/CgroupScopeGen (system mount first,
    up to two further bind mounts of sub-trees) is set up for real (private cgroups, private mount namespace); the REAL
    get_cgroup2_mount_path (+ configured fallback) resolves; rows judged by spec/trace/CgroupScopeTrace.  Violations are
    recorded on c under {"kind": "attach-target-does-not-cover-a-mounted-subtree"}; evidence in c.extra["attach_scope"]."""
    label = label or c.prop.lower()
    tm = util.Timer()
    c.tlc("CgroupScope", "CgroupScope.cfg", workers=2, timeout=600, required_actions=["Resolve", "AttachProg", "Connect"])
    neg = c.tlc("CgroupScope", "CgroupScope_last.cfg", workers=2, timeout=600, coverage=False, expect_ok=False)
    if neg.invariant_violated not in ("ScopeCoversMounts", "EveryVisibleConnectDiverted"):
        raise tlcmod.TlcError("mc/CgroupScope_last.cfg (the last mount is taken) was expected to violate the scope clause "
                              "(anti-vacuity); got %s" % (neg.invariant_violated or neg.error_lines[:2] or "no violation"))
    g = c.tlc("CgroupScopeGen", "CgroupScopeGen.cfg", subdir="gen", workers=1, coverage=False, timeout=300)
    tables = tlcmod.printed_json(g, "TABLES")
    if not tables or not tables[0]:
        raise tlcmod.TlcError("CgroupScopeGen printed no mount tables")
    tables = sorted(([list(x) for x in t] for t in tables[0]), key=lambda t: (len(t), t))
    if c.tier == "quick":
        rnd = random.Random(c.seed)
        multi = [t for t in tables if len(t) > 1 and any(x != t[0] for x in t)]
        tables = [t for t in tables if len(t) == 1][:2] + rnd.sample(multi, min(24, len(multi)))
    p = util.sh("findmnt -t cgroup2 -n -o TARGET | head -n 1", timeout=30, check=False)
    cg2 = (p.stdout or "").strip()
    if not cg2 or not os.path.isdir(cg2):
        raise util.ToolError("no cgroup2 mount: the attach scope cannot be observed")
    bindir = build.cargo_build("agent")
    top = os.path.join(cg2, "verif_scope_%d_%d" % (os.getpid(), random.randrange(1 << 30)))
    names = sorted({x for t in tables for g_ in t for x in g_})
    made = []

    def mk(path, depth):
        os.mkdir(path)
        made.append(path)
        if depth > 0:
            for n in names:
                mk(os.path.join(path, n), depth - 1)
    rows, per = [], []
    try:
        mk(top, max(len(g_) for t in tables for g_ in t))
        for k, t in enumerate(tables):
            roots, target, ev = _scope_run(bindir, "scope_%s_%d_%d" % (label, os.getpid(), k), top, t, k)
            if roots != t:
                raise util.ToolError("mount table %s came out as %s" % (t, roots))
            rows.append({"e": "mounts", "roots": roots})
            rows.append({"e": "resolve", "target": target})
            per.append({"mounts": roots, "target": target, "from_table": ev.get("from_table")})
    finally:
        for path in reversed(made):
            try:
                os.rmdir(path)
            except OSError:
                pass
    c.count(n=len(tables))
    c.extra["attach_scope"] = {"mount_tables_replayed": len(tables), "first": per[:3], "wall_s": None}
    ok, why, res = validate_trace(c, "CgroupScopeTrace", "CgroupScopeTrace.cfg", rows, "scope_%s" % label, count=len(tables), timeout=600)
    c.extra["attach_scope"]["wall_s"] = tm.s()
    if ok:
        c.sample({"kind": "attach scope: cgroup2 mount table of the namespace -> cgroup of the resolved attach directory", **per[-1]})
        return
    if "P_C06_AttachScope" not in why:
        raise util.ToolError("CgroupScopeTrace could not follow the rows: %s" % why)
    bad = next(x for x in per if any(x["target"] != m[:len(x["target"])] for m in x["mounts"]))
    c.violation(
        "the directory the agent resolves for the cgroup/connect4 attach does not cover every cgroup2 sub-tree mounted in its "
        "namespace: mounts (roots, mount order) %s -> attach target %s; processes of the cgroups outside the target are "
        "neither diverted nor recorded while the redirector reports RUNNING" % (json.dumps(bad["mounts"]), json.dumps(bad["target"])),
        {"kind": "attach-target-does-not-cover-a-mounted-subtree"},
        {"rows": rows, "case": bad})
