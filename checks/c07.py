"""C07 -- attribution is single-use: a connection never inherits another's identity.
Design: SingleUse on mc/Proxy_two.cfg (two connections, two ports, lookup and remove as separate steps, every
interleaving).  S->I: every history of 5 operations over two connection slots and two source ports printed by
spec/gen/SingleUseGen.tla (connect attributed/direct, keep-alive requests, close, immediate port reuse) is replayed on
the real ProxyServer with real source-port reuse; I->S: those runs plus a concurrent stress run are validated by TLC
against spec/trace/SingleUseTrace.tla (each request is evaluated with its own connection's record, or refused)."""
import concurrent.futures
import json
import os
import random
import shutil

from checks import proxylib
from vlib import build, rig, tlc as tlcmod, util
from vlib.ctx import validate_trace

IDENT = {
    "rootws": {"uid": 0, "admin": 1, "dip": "168.63.129.16", "dport": 80, "dest": "ws", "elevated": True},
    "userimds": {"uid": 1, "admin": 0, "dip": "169.254.169.254", "dport": 80, "dest": "imds", "elevated": False},
    "rootdead": {"uid": 0, "admin": 1, "dip": "10.9.8.7", "dport": 8099, "dest": "dead", "elevated": True},
    "rootga": {"uid": 0, "admin": 1, "dip": "168.63.129.16", "dport": 32526, "dest": "ga", "elevated": True},
}


def hist_steps(h, hi):
    """one generated history -> rig steps + the conn/req events the trace spec needs (inputs only)"""
    steps, gen, portconn, meta = [], {}, {}, []
    live = {}
    for k, op in enumerate(h):
        s = op["slot"]
        if op["op"] == "conn":
            gen[s] = gen.get(s, 0) + 1
            name = "h%d_%s%d" % (hi, s, gen[s])
            live[s] = name
            st = {"op": "connect", "conn": name, "wait": True}
            if op["port"] in portconn:
                st["port_of"] = portconn[op["port"]]
            portconn[op["port"]] = name
            idn = IDENT.get(op["id"])
            if idn:
                st["attr"] = {k2: idn[k2] for k2 in ("uid", "admin", "dip", "dport")}
            else:
                st["attr"] = None
            steps.append(st)
            meta.append({"e": "conn", "conn": name, "attributed": idn is not None,
                         "elevated": bool(idn and idn["elevated"]), "dest": idn["dest"] if idn else "none"})
        elif op["op"] == "req":
            rid = "h%dr%d" % (hi, k)
            steps.append({"op": "request", "conn": live[s], "id": rid, "method": "GET", "target": "/x/%s" % rid,
                          "headers": [["Host", "h"]]})
            meta.append({"e": "req", "conn": live[s], "id": rid, "expect": op["expect"]})
        else:
            steps.append({"op": "close", "conn": live[s]})
    for s, name in live.items():
        steps.append({"op": "close", "conn": name})
    return steps, meta


def rows_from(ev, meta):
    resp = {e["id"]: e for e in ev if e["e"] in ("Response", "ResponseError")}
    recv = {}
    for e in ev:
        if e["e"] == "HostRecv":
            recv.setdefault(e["id"], []).append(e)
    rows = []
    for m in meta:
        if m["e"] == "conn":
            rows.append(m)
            continue
        r = resp.get(m["id"])
        if r is None:
            raise util.ToolError("no response recorded for %s" % m["id"])
        h = recv.get(m["id"], [])
        claims = ""
        if h:
            claims = next((v for n, v in h[0]["headers"] if n.lower() == "x-ms-azure-host-claims"), "")
        rows.append({"e": "req", "conn": m["conn"], "id": m["id"], "status": r.get("status", 0), "relayed": bool(h),
                     "host": h[0]["host"] if h else "none", "claimsElevated": claims == '{ "isRoot": "true"}',
                     "expect": m.get("expect", "?")})
    return rows


def run_batch(args):
    name, steps, meta = args
    ev, d, _ = rig.run_rig({"steps": steps, "drain_ms": 200}, name, timeout=600)
    shutil.rmtree(d, ignore_errors=True)
    return rows_from(ev, meta)


def run(c):
    c.assumptions = proxylib.ASSUME[:4] + ["identities are told apart at the host by destination and by the caller-claims header"]
    rnd = random.Random(c.seed)
    thorough = c.tier == "thorough"
    build.cargo_build("agent")
    res = c.tlc("MC_Proxy", "Proxy_two.cfg", workers=6, timeout=900,
                required_actions=["ClientConnect", "AcceptLookup", "AcceptRemove", "Close", "Reopen", "Send"])
    if res.violated:
        raise tlcmod.TlcError("SingleUse fails on the design: %s" % res.trace_text[:2000])
    if thorough:
        r2 = c.tlc("MC_Proxy", "Proxy_two_deep.cfg", workers=6, timeout=1500)
        if r2.violated:
            raise tlcmod.TlcError("SingleUse fails on the deeper design configuration: %s" % r2.trace_text[:2000])
    g = c.tlc("SingleUseGen", "SingleUseGen.cfg", subdir="gen", workers=2, coverage=False, timeout=300)
    if g.violated:
        raise tlcmod.TlcError("SingleUseGen: record not consumed in the accept-path model")
    hists = tlcmod.printed_json(g, "HIST")
    if len(hists) < 100:
        raise util.ToolError("SingleUseGen printed %d histories" % len(hists))
    rnd.shuffle(hists)
    if not thorough:
        hists = hists[:1500]
    nb = 4
    jobs = []
    for b in range(nb):
        steps, meta = [], []
        for hi in range(b, len(hists), nb):
            st, m = hist_steps(hists[hi], hi)
            steps += st
            meta += m
        jobs.append(("c07_b%d_%d" % (b, os.getpid()), steps, meta))
    rows = []
    with concurrent.futures.ProcessPoolExecutor(max_workers=4) as ex:
        for r in ex.map(run_batch, jobs):
            rows += r
    drifts = 0
    for r in rows:
        if r["e"] == "req":
            want = r["expect"]
            got = "none" if not r["relayed"] else ("rootws" if r["host"] == "ws" else "userimds" if r["host"] == "imds" else "?")
            if want == "rootdead":
                want, got = 502, r["status"]
            if want != got:
                drifts += 1
            c.count()
    c.traces_validated += len(hists)
    c.distinct_extra += len(hists)
    c.extra["histories_replayed"] = len(hists)
    c.extra["spec_vs_impl_drifts"] = drifts
    c.sample({"history": hists[0]})
    # concurrent stress: many connections accepted at once, keep-alive, immediate reuse of the source port
    nbr, rounds = (8, 6) if not thorough else (16, 30)
    branches, smeta = [], []
    for b in range(nbr):
        br = []
        for k in range(rounds):
            idn = IDENT[["rootws", "userimds", "rootga", "rootdead"][(b + k) % 4]]
            a = "s%d_%d_a" % (b, k)
            u = "s%d_%d_u" % (b, k)
            br.append({"op": "connect", "conn": a, "wait": True, "attr": {k2: idn[k2] for k2 in ("uid", "admin", "dip", "dport")}})
            smeta.append({"e": "conn", "conn": a, "attributed": True, "elevated": idn["elevated"], "dest": idn["dest"]})
            for q in range(3):
                rid = "%s_r%d" % (a, q)
                br.append({"op": "request", "conn": a, "id": rid, "method": "GET", "target": "/k/%s" % rid, "headers": [["Host", "h"]]})
                smeta.append({"e": "req", "conn": a, "id": rid})
            br.append({"op": "close", "conn": a})
            br.append({"op": "connect", "conn": u, "port_of": a, "attr": None, "wait": True})
            smeta.append({"e": "conn", "conn": u, "attributed": False, "elevated": False, "dest": "none"})
            rid = "%s_r" % u
            br.append({"op": "request", "conn": u, "id": rid, "method": "GET", "target": "/k/%s" % rid, "headers": [["Host", "h"]]})
            smeta.append({"e": "req", "conn": u, "id": rid})
            br.append({"op": "close", "conn": u})
        branches.append(br)
    ev, d, _ = rig.run_rig({"steps": [{"op": "parallel", "branches": branches}], "drain_ms": 300}, "c07_stress", timeout=600)
    # a reused port may fail to bind/connect while the old socket lingers: such connections made no request
    failed_conns = {e["conn"] for e in ev if e["e"] == "ConnectError"}
    smeta = [m for m in smeta if m["conn"] not in failed_conns]
    srows = rows_from(ev, smeta)
    c.extra["stress_requests"] = sum(1 for r in srows if r["e"] == "req")
    c.extra["stress_connect_errors"] = len(failed_conns)
    allrows = rows + srows
    # aborted-before-accept: the client resets an attributed connection at once; the listener may never see it, so
    # its record is never looked up; later a DIRECT connection reuses that source port
    asteps, ameta = [], []
    nab = 400 if not thorough else 1600
    brs = [[] for _ in range(4)]       # four client threads outpace the accept loop, so resets hit queued connections
    for i in range(nab):
        brs[i % 4] += [{"op": "connect", "conn": "ab%d" % i, "attr": {k2: IDENT["rootws"][k2] for k2 in ("uid", "admin", "dip", "dport")}},
                       {"op": "close", "conn": "ab%d" % i}]
    asteps.append({"op": "parallel", "branches": brs})
    asteps.append({"op": "wait_audit_settled", "tag": "after-aborts", "timeout_ms": 15000})
    for i in range(nab):
        u = "abu%d" % i
        asteps += [{"op": "connect", "conn": u, "port_of": "ab%d" % i, "attr": None, "wait": True, "wait_ms": 1000},
                   {"op": "request", "conn": u, "id": u + "_r", "method": "GET", "target": "/stale/%d" % i, "headers": [["Host", "h"]]},
                   {"op": "close", "conn": u}]
        ameta += [{"e": "conn", "conn": u, "attributed": False, "elevated": False, "dest": "none"},
                  {"e": "req", "conn": u, "id": u + "_r"}]
    aev, ad, _ = rig.run_rig({"steps": asteps, "drain_ms": 300}, "c07_abort", timeout=600)
    afailed = {e["conn"] for e in aev if e["e"] == "ConnectError"}
    ameta = [m for m in ameta if m["conn"] not in afailed]
    arows = rows_from(aev, ameta)
    c.extra["aborted_connects"] = nab
    c.extra["stale_records_after_aborts"] = next((e["n"] for e in aev if e["e"] == "AuditLen"), None)
    okA, whyA, resA = validate_trace(c, "SingleUseTrace", "SingleUseTrace.cfg", arows, "c07_abort", count=1, timeout=300)
    if not okA:
        inherited = [r for r in arows if r["e"] == "req" and (r["relayed"] or r["status"] != 421)]
        c.violation("a direct connection reusing the source port of an attributed connection that was reset at once "
                    "inherits that connection's identity although the listener had caught up (%d of %d relayed as root)"
                    % (len(inherited), nab),
                    {"broken": whyA.replace("invariant ", ""), "scenario": "aborted-before-accept"},
                    {"steps": asteps[:6], "inherited": inherited[:3]})
    # burst reuse: an attributed connection is reset and a direct connection from the same source port follows at once,
    # so both may sit in the accept queue together; the second must still be refused.  Timing dependent by nature:
    # reported only if it shows again in each of three repetitions.
    def burst(tag, n):
        st, meta = [], []
        for i in range(n):
            a, b = "%sa%d" % (tag, i), "%sb%d" % (tag, i)
            st += [{"op": "connect", "conn": a, "attr": {k2: IDENT["rootws"][k2] for k2 in ("uid", "admin", "dip", "dport")}},
                   {"op": "close", "conn": a},
                   {"op": "connect", "conn": b, "port_of": a, "attr": None},
                   {"op": "request", "conn": b, "id": b + "_r", "method": "GET", "target": "/burst/%d" % i, "headers": [["Host", "h"]]},
                   {"op": "close", "conn": b}]
            meta += [{"e": "conn", "conn": b, "attributed": False, "elevated": False, "dest": "none"},
                     {"e": "req", "conn": b, "id": b + "_r"}]
        ev_, d_, _ = rig.run_rig({"steps": st, "drain_ms": 300}, "c07_burst", timeout=600)
        failed_ = {e["conn"] for e in ev_ if e["e"] == "ConnectError"}
        rows_ = rows_from(ev_, [m for m in meta if m["conn"] not in failed_])
        inherited = [r for r in rows_ if r["e"] == "req" and (r["relayed"] or r["status"] != 421)]
        return rows_, inherited
    nburst = 150 if not thorough else 600
    brows, binh = burst("u", nburst)
    c.extra["burst_reuses"] = nburst
    c.extra["burst_inherited_first_run"] = len(binh)
    if binh:
        again = [len(burst("v%d" % k, nburst)[1]) for k in range(3)]
        c.extra["burst_inherited_repetitions"] = again
        if all(x > 0 for x in again):
            okB, whyB, _ = validate_trace(c, "SingleUseTrace", "SingleUseTrace.cfg", brows, "c07_burst", count=1, timeout=300)
            c.violation("a direct connection queued right behind a reset attributed connection from the same source port "
                        "inherits its identity (%d of %d bursts; repetitions %s)" % (len(binh), nburst, again),
                        {"broken": (whyB or "P_C07_UnattributedRefused").replace("invariant ", ""), "scenario": "burst-reuse"},
                        {"inherited": binh[:3]})
    # validate in chunks of whole histories (counterexamples of trace validation are as long as the trace)
    chunks, cur, last_h = [], [], None
    for r in allrows:
        m = None
        import re
        m = re.match(r"(h\d+)_", str(r.get("conn", "")))
        hkey = m.group(1) if m else "stress"
        if hkey != last_h:
            if len(cur) > 2500 and hkey != "stress":
                chunks.append(cur)
                cur = []
            cur.append({"e": "reset"})
            last_h = hkey
        cur.append(r)
    if cur:
        chunks.append(cur)
    unreproduced = 0
    violated = False
    for ci, chunk in enumerate(chunks):
        remaining = chunk
        for _round in range(8):
            ok, why, res = validate_trace(c, "SingleUseTrace", "SingleUseTrace.cfg", remaining, "c07_%d" % ci, count=1, timeout=900, heap="3g")
            if ok:
                break
            ids = re.findall(r'id \|-> "([^"]+)"', res.trace_text)
            bad = next((r for r in remaining if r.get("id") == (ids[-1] if ids else None)), {})
            m = re.match(r"h(\d+)r\d+", bad.get("id", ""))
            if m:
                # a generated history: re-execute it alone (no parallel load, long accept wait); only a verdict that
                # reproduces is reported -- under load an accept can lag behind a client abort, which is not this property
                hi = int(m.group(1))
                st, meta1 = hist_steps(hists[hi], hi)
                for x in st:
                    if x.get("op") == "connect":
                        x["wait_ms"] = 3000
                ev1, d1, _ = rig.run_rig({"steps": st, "drain_ms": 200}, "c07_re", timeout=300)
                rows1 = rows_from(ev1, meta1)
                ok1, why1, _ = validate_trace(c, "SingleUseTrace", "SingleUseTrace.cfg", rows1, "c07_re", count=0, timeout=300)
                if ok1:
                    unreproduced += 1
                    pref = "h%d_" % hi
                    remaining = [r for r in remaining if not str(r.get("conn", "")).startswith(pref)]
                    continue
                c.violation("C07 broken on request %s (history %s): %s; %s" % (bad.get("id"), json.dumps(hists[hi]), why1, json.dumps(bad)),
                            {"broken": why1.replace("invariant ", ""), "relayed": bad.get("relayed"), "status": bad.get("status")},
                            {"history": hists[hi], "obs": bad})
                violated = True
                break
            c.violation("C07 broken on request %s: %s; %s" % (bad.get("id"), why, json.dumps(bad)),
                        {"broken": why.replace("invariant ", ""), "relayed": bad.get("relayed"), "status": bad.get("status")},
                        {"obs": bad})
            violated = True
            break
        else:
            raise util.ToolError("C07: too many rejected histories in one chunk did not reproduce in isolation")
        if violated:
            break
    c.extra["rejected_under_load_not_reproduced"] = unreproduced
    kernel_half(c)
    late_record(c)
    stalled_consume(c)
    real_audit_map(c)
    c.rule = ("histories = every sequence of 5 operations (connect attributed as root->WireServer / user->IMDS or direct, on "
              "either of two source ports incl. reuse; request; close) over two connection slots printed by TLC; plus a "
              "concurrent stress run with keep-alive and immediate port reuse")


def burst_reuse_check(c, prop, nburst):
    """An attributed connection is reset and a direct connection from the same source port follows at once, so both may
    sit in the accept queue together; the second must still be refused (421, nothing relayed).  Timing dependent by nature:
    reported only if it shows in the first run and again in each of three repetitions.  (Shared by C07 and C01.)"""
    def burst(tag, n):
        st, meta = [], []
        for i in range(n):
            a, b = "%sa%d" % (tag, i), "%sb%d" % (tag, i)
            st += [{"op": "connect", "conn": a, "attr": {k2: IDENT["rootws"][k2] for k2 in ("uid", "admin", "dip", "dport")}},
                   {"op": "close", "conn": a},
                   {"op": "connect", "conn": b, "port_of": a, "attr": None},
                   {"op": "request", "conn": b, "id": b + "_r", "method": "GET", "target": "/burst/%d" % i, "headers": [["Host", "h"]]},
                   {"op": "close", "conn": b}]
            meta += [{"e": "conn", "conn": b, "attributed": False, "elevated": False, "dest": "none"},
                     {"e": "req", "conn": b, "id": b + "_r"}]
        ev_, d_, _ = rig.run_rig({"steps": st, "drain_ms": 300}, "burst_%s" % prop.lower(), timeout=600)
        failed_ = {e["conn"] for e in ev_ if e["e"] == "ConnectError"}
        rows_ = rows_from(ev_, [m for m in meta if m["conn"] not in failed_])
        return rows_, [r for r in rows_ if r["e"] == "req" and (r["relayed"] or r["status"] != 421)]
    brows, binh = burst("u", nburst)
    c.extra["burst_reuses"] = nburst
    c.extra["burst_inherited_first_run"] = len(binh)
    if binh:
        again = [len(burst("v%d" % k, nburst)[1]) for k in range(3)]
        c.extra["burst_inherited_repetitions"] = again
        if all(x > 0 for x in again):
            c.violation("a direct connection queued right behind a reset attributed connection from the same source port "
                        "inherits its identity and is relayed (%d of %d bursts; repetitions %s)" % (len(binh), nburst, again),
                        {"broken": "P_C07_UnattributedRefused", "scenario": "burst-reuse"}, {"inherited": binh[:3]})


def late_record(c, prop="C07"):
    """A record appears under a source-port number while a connection with that port number is already open (the kernel
    publishes it for ANOTHER socket: a different local address, or a connect that never reaches accept): the open
    connection keeps what it had at accept -- nothing for a direct connection, its own identity for an attributed one."""
    steps, meta = [], []
    root_ws = {"uid": 0, "admin": 1, "dip": "168.63.129.16", "dport": 80}
    user_imds = {"uid": 1, "admin": 0, "dip": "169.254.169.254", "dport": 80}
    for i in range(6):
        d, a = "lr_d%d" % i, "lr_a%d" % i
        # a direct connection, idle; then a record under its port number; then its first request
        # (the record must appear AFTER the accept: wait until the accept path has looked the port up -- a fixed sleep is
        #  not enough on a loaded machine, and a record that is there at accept time IS the connection's record)
        steps += [{"op": "connect", "conn": d, "wait": True, "wait_ms": 8000}, {"op": "sleep", "ms": 60 if i % 2 else 5},
                  {"op": "inject_record", "conn": d, "attr": root_ws if i % 3 else user_imds}]
        meta.append({"e": "conn", "conn": d, "attributed": False, "elevated": False, "dest": "none"})
        for k in range(2):
            rid = "%s_r%d" % (d, k)
            steps.append({"op": "request", "conn": d, "id": rid, "method": "GET", "target": "/late/%s" % rid, "headers": [["Host", "h"]]})
            meta.append({"e": "req", "conn": d, "id": rid})
        steps.append({"op": "close", "conn": d})
        # an attributed keep-alive connection; a foreign record appears under its port number between two requests
        steps += [{"op": "connect", "conn": a, "attr": root_ws, "wait": True}]
        meta.append({"e": "conn", "conn": a, "attributed": True, "elevated": True, "dest": "ws"})
        for k in range(3):
            rid = "%s_r%d" % (a, k)
            if k == 1:
                steps.append({"op": "inject_record", "conn": a, "attr": user_imds})
            steps.append({"op": "request", "conn": a, "id": rid, "method": "GET", "target": "/late/%s" % rid, "headers": [["Host", "h"]]})
            meta.append({"e": "req", "conn": a, "id": rid})
        steps.append({"op": "close", "conn": a})
    ev, d_, _ = rig.run_rig({"steps": steps, "drain_ms": 200}, "late_%s" % prop.lower(), timeout=300)
    rows = [{"e": "reset"}] + rows_from(ev, meta)
    ok, why, res = validate_trace(c, "SingleUseTrace", "SingleUseTrace.cfg", rows, "late_%s" % prop, count=1, timeout=300)
    c.extra["late_record_requests"] = sum(1 for m in meta if m["e"] == "req")
    if not ok:
        import re
        ids = re.findall(r'id \|-> "(lr_[ad]\d+_r\d+)"', res.trace_text or "")
        bad = next((r for r in rows if ids and r.get("id") == ids[-1]), None)
        c.violation("a connection was served with a record published after it was accepted (for another socket with the same "
                    "source-port number): %s" % bad, {"kind": "record-adopted-after-accept", "broken": why.replace("invariant ", "")},
                    {"rows": rows})


def stalled_consume(c, prop="C07"):
    """The read-then-consume of the record at accept has suspension points (an actor round trip each, H9 gates stand for
    them).  The accept path is held there for longer than any plausible guard timer (450 ms and 1.3 s) and let go: the
    connection must then be served with its own identity or refused, and in EITHER case the record must be gone -- a
    direct connection that reuses the source port afterwards is unattributed."""
    steps, meta = [], []
    root_ws = {k2: IDENT["rootws"][k2] for k2 in ("uid", "admin", "dip", "dport")}
    i = 0
    for label in ("redirector.remove_audit.begin", "redirector.lookup_audit.done"):
        for hold in (450, 1300):
            a, b = "sc_a%d" % i, "sc_b%d" % i
            steps += [{"op": "arm", "label": label, "skip": 0},
                      {"op": "connect", "conn": a, "attr": root_ws},
                      {"op": "wait_arrived", "label": label, "n": 1, "timeout_ms": 3000},
                      {"op": "sleep", "ms": hold}, {"op": "release", "label": label}, {"op": "disarm", "label": label},
                      {"op": "request", "conn": a, "id": a + "_r", "method": "GET", "target": "/stall/%d" % i, "headers": [["Host", "h"]]},
                      {"op": "close", "conn": a}, {"op": "sleep", "ms": 50},
                      {"op": "connect", "conn": b, "port_of": a, "attr": None},
                      {"op": "request", "conn": b, "id": b + "_r", "method": "GET", "target": "/stall/%d/again" % i, "headers": [["Host", "h"]]},
                      {"op": "close", "conn": b}]
            meta += [{"e": "conn", "conn": a, "attributed": True, "elevated": True, "dest": "ws", "may_refuse": True},
                     {"e": "req", "conn": a, "id": a + "_r"},
                     {"e": "conn", "conn": b, "attributed": False, "elevated": False, "dest": "none"},
                     {"e": "req", "conn": b, "id": b + "_r"}]
            i += 1
    ev, d_, _ = rig.run_rig({"steps": steps, "drain_ms": 300}, "stall_%s" % prop.lower(), timeout=300)
    arrived = [e for e in ev if e["e"] == "Arrived"]
    reached = sum(1 for e in arrived if e["n"] >= 1)
    c.extra["stalled_consume_gates_reached"] = reached
    failed_ = {e["conn"] for e in ev if e["e"] == "ConnectError"}
    if failed_:
        raise util.ToolError("stalled-consume scenario: connects failed: %s" % sorted(failed_))
    rows = rows_from(ev, meta)
    c.extra["stalled_consume_rounds"] = i
    inherited = [r for r in rows if r["e"] == "req" and r["id"].startswith("sc_b") and (r["relayed"] or r["status"] != 421)]
    if inherited:
        c.violation("the record of a connection whose accept-time read-then-consume was held up stays behind: a later direct "
                    "connection from the same source port is served with it: %s" % inherited[0],
                    {"broken": "P_C07_UnattributedRefused", "scenario": "stalled-consume"}, {"rows": rows})
    if not inherited and reached == 0:
        # (an accept path that never comes by the gates AND leaves nothing behind: the scenario exercised nothing)
        raise util.ToolError("stalled-consume scenario: the accept path did not reach any gate (%s)" % arrived)
    c.extra["stalled_consume_first_statuses"] = sorted({str(r.get("status")) for r in rows if r["e"] == "req" and r["id"].startswith("sc_a")})


def kernel_half(c):
    """'... are those recorded by the kernel for that very connection': the kernel program's side of single use -- a later
    connection from a source port that still carries an unconsumed record of an earlier connection gets its OWN record
    (linux-ebpf/ebpf_cgroup.c driven in user space, judged by spec/trace/EbpfTrace.tla; shared with C06)."""
    from checks import c06
    for f in c06.kernel_side_random(c, "c07k"):
        if f["sig"].get("kind") in ("stale-record-on-reused-port", "record-for-unlisted", "record-under-other-key", "record-pid",
                                    "record-ip", "record-port"):
            c.violation("the kernel program publishes, under a connection's source port, a record that is not that connection's own: " + f["whats"][0],
                        {"kind": "kernel-record-not-the-connections-own"}, {"witness": f.get("witness"), "sites": f["sites"]})


def real_audit_map(c):
    """'consumed at accept' on the REAL kernel map: the tree's eBPF object loaded with BpfObject::from_ebpf_file (nothing
    attached), records published the way the kernel hook does, the real lookup_audit / remove_audit (the verification
    stand-in is off) while three threads rewrite the redirect policy; after every round the record must be gone from
    audit_map (spec/trace/PolicyMapTrace P_ConsumedAbsent; checks/realmaps.py)."""
    from checks import realmaps
    c.assumptions.append(realmaps.ASSUME)
    realmaps.consume_under_contention(c)


def replay(c, path):
    run(c)
