"""C15 -- decided by the shared proxy pipeline (checks/proxylib.py): Proxy.tla/Authz.tla model checking, TLC-generated
scenarios replayed on the real ProxyServer, and TLC trace validation of every observed request against
spec/trace/ProxyTrace.tla with the C15 invariants.  Uploads on kept-alive connections of some age (the body still
arriving when the connection has been open for half a minute) are judged one by one by spec/trace/LimitTrace.tla."""
from checks import proxylib
from vlib import rig, util
from vlib.ctx import validate_trace

LIMIT = 100 * 1024


def aged_connections(c, prop="C15"):
    """Second-order state: a connection that has been kept alive and served earlier requests; the upload's head arrives when
    the connection is 27.5 s old and its body 4 s later.  The limit applies to it like to any other request."""
    branches, meta = [], {}
    plan = [("over-chunked", "168.63.129.16", 80, LIMIT + 1, "chunked"), ("exact-cl", "169.254.169.254", 80, LIMIT, "cl"),
            ("over-cl-late", "168.63.129.16", 32526, LIMIT + 4096, "chunked")]
    if c.tier == "thorough":
        plan += [("exact-chunked", "10.9.8.7", 8080, LIMIT, "chunked")]
    for i, (nm, dip, dport, n, framing) in enumerate(plan):
        conn, rid = "age%d" % i, "age%d_up" % i
        warm = [{"op": "request", "conn": conn, "id": "age%d_w%d" % (i, k), "method": "GET", "target": "/machine?comp=warm&k=%d" % k,
                 "headers": [["Host", "h"]]} for k in range(2)]
        branches.append([{"op": "connect", "conn": conn, "attr": {"uid": 0, "admin": 1, "dip": dip, "dport": dport}, "timeout_ms": 30000},
                         {"op": "mark", "tag": "open:" + conn}] + warm +
                        [{"op": "sleep", "ms": 27500},
                         {"op": "request", "conn": conn, "id": rid, "method": "POST", "target": "/machine?comp=upload&n=%d" % i,
                          "headers": [["Host", "h"]], "body": {"seed": 500 + i, "len": n}, "framing": framing, "body_delay_ms": 4000,
                          "resp": {"status": 200, "headers": [["X-Host", rid]], "body": {"seed": 1, "len": 5}}},
                         {"op": "mark", "tag": "done:" + conn}, {"op": "close", "conn": conn}])
        meta[rid] = {"name": nm, "len": n, "framing": framing, "seed": 500 + i, "host": {("168.63.129.16", 80): "ws", ("169.254.169.254", 80): "imds",
                     ("168.63.129.16", 32526): "ga"}.get((dip, dport), "other"), "conn": conn}
    # a host that takes the body in slowly (loaded host, slow path: 512 KiB/s through a 64 KiB receive buffer): an exempt
    # upload of 8 MiB -- far within its limit -- needs 16 s to be taken in; it is accepted and relayed intact all the same
    big = 8 << 20
    branches.append([{"op": "connect", "conn": "slowin", "attr": {"uid": 0, "admin": 1, "dip": "10.9.8.7", "dport": 8080}, "timeout_ms": 120000},
                     {"op": "request", "conn": "slowin", "id": "slowin_up", "method": "PUT", "target": "/vmAgentLog", "headers": [["Host", "h"]],
                      "body": {"seed": 777, "len": big}, "framing": "cl",
                      "resp": {"status": 200, "headers": [["X-Host", "slowin_up"]], "body": {"seed": 1, "len": 5}}},
                     {"op": "close", "conn": "slowin"}])
    meta["slowin_up"] = {"name": "within-exempt-slow-intake", "len": big, "framing": "cl", "seed": 777, "host": "other", "conn": "slowin",
                         "limit": 100 << 20}
    # how the client cuts its body is not the body's size: exactly the limit in 4-byte chunks (25600 of them)
    branches.append([{"op": "connect", "conn": "tiny", "attr": {"uid": 0, "admin": 1, "dip": "169.254.169.254", "dport": 80}, "timeout_ms": 120000},
                     {"op": "request", "conn": "tiny", "id": "tiny_up", "method": "POST", "target": "/machine/?comp=exact4", "headers": [["Host", "h"]],
                      "body": {"seed": 640, "len": LIMIT}, "framing": "chunked", "chunks": [4] * (LIMIT // 4),
                      "resp": {"status": 200, "headers": [["X-Host", "tiny_up"]], "body": {"seed": 1, "len": 5}}},
                     {"op": "close", "conn": "tiny"}])
    meta["tiny_up"] = {"name": "exact-in-4-byte-chunks", "len": LIMIT, "framing": "chunked", "seed": 640, "host": "imds", "conn": "tiny"}
    # second-order state: five exempt uploads that are refused (chunked, one byte over 100 MiB; any case of the URL), then
    # exempt uploads within the limit -- what was refused before has no bearing on them
    exs = [{"op": "connect", "conn": "exq", "attr": {"uid": 0, "admin": 1, "dip": "168.63.129.16", "dport": 32526}, "timeout_ms": 120000}]
    for xi, tgt in enumerate(["/vmAgentLog", "/VMAGENTLOG", "/vmagentlog", "/machine/?comp=telemetrydata", "/vmAgentLog"]):
        rid = "exover%d" % xi
        exs += [{"op": "connect", "conn": "ex%d" % xi, "attr": {"uid": 0, "admin": 1, "dip": "168.63.129.16", "dport": 32526}, "timeout_ms": 120000},
                {"op": "request", "conn": "ex%d" % xi, "id": rid, "method": "POST" if "telemetry" in tgt else "PUT", "target": tgt,
                 "headers": [["Host", "h"]], "body": {"seed": 900 + xi, "len": (100 << 20) + 1}, "framing": "chunked",
                 "chunks": [1 << 20] * 8},
                {"op": "close", "conn": "ex%d" % xi}]
        meta[rid] = {"name": "over-exempt-%d" % xi, "len": (100 << 20) + 1, "framing": "chunked", "seed": 900 + xi, "host": "ga",
                     "conn": "ex%d" % xi, "limit": 100 << 20, "nohash": True}
    for xi, (tgt, n) in enumerate([("/vmAgentlog", 1024), ("/machine/?comp=telemetrydata", 4096)]):
        rid = "exok%d" % xi
        exs += [{"op": "request", "conn": "exq", "id": rid, "method": "POST" if "telemetry" in tgt else "PUT", "target": tgt,
                 "headers": [["Host", "h"]], "body": {"seed": 950 + xi, "len": n}, "framing": "cl",
                 "resp": {"status": 200, "headers": [["X-Host", rid]], "body": {"seed": 1, "len": 5}}}]
        meta[rid] = {"name": "within-exempt-after-refusals-%d" % xi, "len": n, "framing": "cl", "seed": 950 + xi, "host": "ga", "conn": "exq",
                     "limit": 100 << 20}
    exs.append({"op": "close", "conn": "exq"})
    branches.append(exs)
    # (the mock hosts keep idle upstream connections for 5 minutes here: an upstream connection the HOST closes after 30 idle
    #  seconds is answered 502 by the proxy, which is another scenario and not what is judged)
    ev, d, _ = rig.run_rig({"steps": [{"op": "parallel", "branches": branches}], "drain_ms": 400}, "aged_%s" % prop.lower(), timeout=600,
                           env_extra={"VERIF_HOST_IDLE_S": "300", "VERIF_HOST_SLOW": "other:524288"})
    resp = {e["id"]: e for e in ev if e["e"] == "Response"}
    rerr = {e["id"]: e for e in ev if e["e"] == "ResponseError"}
    recv = {e["id"]: e for e in ev if e["e"] == "HostRecv" and e.get("id")}
    stray = {}
    for e in ev:
        if e["e"] == "HostClose":
            stray[e["host"]] = stray.get(e["host"], 0) + e.get("bytesTotal", 0) - e.get("bytesParsed", 0)
    for k in range(2):
        for i in range(len(plan)):
            if "age%d_w%d" % (i, k) not in resp:
                raise util.ToolError("aged-connection scenario: warm-up request age%d_w%d was not answered" % (i, k))
    rows = []
    for rid, m in meta.items():
        h = recv.get(rid)
        r = resp.get(rid)
        rows.append({"e": "upload", "id": rid, "name": m["name"], "len": m["len"], "limit": m.get("limit", LIMIT), "framing": m["framing"],
                     "answered": r is not None, "status": (r or {}).get("status", 0), "relayed": h is not None,
                     "hostBytes": stray.get(m["host"], 0) if h is None else h["bodyLen"],
                     "bodyIntact": bool(h) and h["bodyLen"] == m["len"] and (m.get("nohash") or h["bodySha"] == util.sha(rig.gen_body(m["seed"], m["len"]))),
                     "age": 31, "clientError": (rerr.get(rid) or {}).get("kind", "")})
    c.extra["uploads_on_aged_connections"] = [{k: r[k] for k in ("name", "len", "status", "relayed")} for r in rows]
    ok, why, res = validate_trace(c, "LimitTrace", "LimitTrace.cfg", rows, "limit_%s" % prop, count=1, timeout=300)
    if not ok:
        bad = next((r for r in rows if (r["len"] > r["limit"] and not (r["answered"] and 400 <= r["status"] <= 499 and not r["relayed"] and r["hostBytes"] == 0))
                    or (r["len"] <= r["limit"] and not (r["relayed"] and r["bodyIntact"]))), rows[0])
        c.violation("an upload on a connection that had been kept alive for half a minute is not treated by its size: %s" % bad,
                    {"kind": "limit-not-applied-on-aged-connection", "broken": why.replace("invariant ", ""), "which": bad["name"]}, {"rows": rows})


def run(c):
    proxylib.decide(c, "C15", relevant=lambda row: row['bodyLen'] > 0)
    aged_connections(c)


def replay(c, path):
    proxylib.replay(c, "C15", path)
