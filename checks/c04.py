"""C04 -- relayed requests carry a valid HMAC over exactly what the host receives.
Design: spec/Canon.tla defines the string to sign on byte sequences; mc/MC_Canon checks that it covers every header
and every query parameter (Injective / Deterministic over a complete small universe with colliding keys a=bc / ab=c,
duplicate and mixed-case names).  Binding, three phases: (1) seeded adversarial requests (duplicate keys, valueless
keys, prefix keys, mixed case, percent escapes; headers in any order/case with blanks and repeated names; bodies up to
the limit) go through the real proxy (attributed, authorized, key latched) and through hyper_client::build_request
(the agent's own calls); (2) what the mock host received is tokenised and TLC (spec/trace/CanonTrace.tla) computes the
canonical string; (3) HMAC-SHA256 with Python's hmac under the key registered for the announced id must equal the
header's MAC.  Both signing routes are compared on the same request (RoutesAgree)."""
import json
import os
import random

from vlib import build, canon, rig, tlc as tlcmod, util
from vlib.ctx import validate_trace
from vlib import findings

GUID = "0c04aaaa-bbbb-4ccc-8ddd-eeeeffff0004"
KEY = "c4" * 32
AUTH = canon.AUTH

ASSUME = [
    "the documented scheme (Method LF Body LF headers Path LF params) is what the host recomputes; the parameter order "
    "is not fixed by the statement: ordering by (key, value) or by key++value are both accepted",
    "HMAC-SHA256 and hex are Python's hmac/hashlib; TLC (Canon.tla) computes the canonical bytes from the tokens of "
    "the request as received; lib/vlib/canon.py is a second implementation that must agree with TLC",
    "header names arrive lower-cased on the upstream leg (hyper); values byte-exact",
]


def b(s):
    return list(s.encode("latin-1")) if isinstance(s, str) else list(s)


def rand_query(rnd):
    keys = ["a", "ab", "A", "comp", "Comp", "type", "k", "resource", "x-y", "a%20b", "keyOnly", "b"]
    vals = ["", "bc", "c", "b", "1", "config", "https%3a%2f%2fstorage.azure.com%2f", "Again", "again", "z=1", "%41"]
    n = rnd.choice([0, 1, 2, 2, 3, 4, 6])
    parts = []
    for _ in range(n):
        k = rnd.choice(keys)
        v = rnd.choice(vals)
        form = rnd.random()
        if form < 0.2:
            parts.append(k)                 # valueless
        elif form < 0.3:
            parts.append(k + "=")
        else:
            parts.append(k + "=" + v)
    if rnd.random() < 0.25:
        parts += rnd.choice([["a=bc", "ab=c"], ["ab=c", "a=bc"], ["a=b", "ab"], ["k=v", "k=v"], ["K=v", "k=V"], ["", "a=1"]])
    rnd.shuffle(parts)
    return "&".join(parts)


def rand_headers(rnd):
    hs = [["Host", "168.63.129.16"]]
    pool = [("x-ms-version", "2012-11-30"), ("Accept", "*/*"), ("X-Custom", "  padded value  "), ("x-custom", "second"),
            ("Metadata", "true"), ("User-Agent", "curl/8.0"), ("X-Empty", ""), ("accept", "text/plain"),
            ("x-ms-client-request-id", "0f0f"), ("Cache-Control", "no-cache")]
    for n, v in rnd.sample(pool, rnd.randint(0, 6)):
        if rnd.random() < 0.5:
            n = "".join(ch.upper() if rnd.random() < 0.5 else ch.lower() for ch in n)
        hs.append([n, v])
    rnd.shuffle(hs)
    return hs


def tokens(method, target, headers, rid):
    path, _, query = target.partition("?")
    q = []
    for part in (query.split("&") if query else []):
        k, _, v = part.partition("=")
        q.append([b(k), b(v)])
    return {"id": rid, "method": b(method), "path": b(path), "query": q, "headers": [[b(n), b(v)] for n, v in headers]}


def classify(method, target, headers, body, mac_hex, key=None):
    key = key or KEY
    """which (defective) canonicalisation explains a MAC that no accepted canonical string explains"""
    path, _, query = target.partition("?")
    pairs = [(p.partition("=")[0].lower(), p.partition("=")[2]) for p in (query.split("&") if query else []) if p.partition("=")[0]]
    hs = [(n.lower(), v) for n, v in headers if n.lower() != AUTH]

    def sts(ps, hh):
        ps = sorted(ps, key=lambda kv: (kv[0] + kv[1], kv[0], kv[1]))
        q = "&".join(k + ("=" + v if v else "") for k, v in ps)
        hh = sorted(hh, key=lambda x: x[0])
        return (method + "\n").encode() + body + b"\n" + "".join("%s:%s\n" % (n, v.strip()) for n, v in hh).encode("latin-1") + \
            (path + "\n" + q).encode("latin-1")
    last = {}
    for n, v in hs:
        last[n] = v
    dedup = {}
    for k, v in pairs:
        dedup[k + v] = (k, v)
    for name, ps, hh in (("query-pair-dropped", list(dedup.values()), hs),
                         ("repeated-header-last-value-only", pairs, list(last.items())),
                         ("query-pair-dropped+repeated-header-last-value-only", list(dedup.values()), list(last.items()))):
        if canon.mac(key, sts(ps, hh)) == mac_hex.lower():
            return name
    return "unexplained"


def run(c):
    c.assumptions = ASSUME
    rnd = random.Random(c.seed)
    thorough = c.tier == "thorough"
    build.cargo_build("agent")
    res = c.tlc("MC_Canon", "MC_Canon.cfg", workers=6, coverage=False, timeout=600, java_opts=["-Xss64m"])
    if res.violated:
        raise tlcmod.TlcError("Canon.tla does not cover every signed component: %s" % res.trace_text[:1500])
    # phase 1a: proxied route
    n = 400 if not thorough else 12000
    steps = [{"op": "set_key", "guid": GUID, "key": KEY}]
    reqs = {}
    conn = None
    cur = (GUID, KEY)
    rotations = 0
    for i in range(n):
        rid = "q%d" % i
        exempt = rnd.random() < 0.05
        if exempt:
            method, target = rnd.choice([("PUT", "/vmAgentLog"), ("POST", "/machine/?comp=telemetrydata")])
        else:
            method = rnd.choice(["GET", "GET", "POST", "PUT"])
            q = rand_query(rnd)
            target = rnd.choice(["/machine", "/machine/a8016240/49c242ba%2Dc18a.%5Fvm2", "/Metadata/Instance", "/x"]) + ("?" + q if q else "")
            if rnd.random() < 0.06:
                # neighbours of the two exempt uploads: only the exact (method, URL) pairs are exempt, these are signed
                method, target = rnd.choice([("PUT", "/vmAgentLog?comp=config&type=x"), ("PUT", "/VMAGENTLOG?keyOnly"), ("POST", "/vmAgentLog"),
                                             ("POST", "/machine/?comp=telemetrydata&x=1"), ("PUT", "/machine/?comp=telemetrydata"),
                                             ("POST", "/machine?comp=telemetrydata"), ("PUT", "/vmAgentLog/"), ("PUT", "/vmAgentLogs")])
        blen = rnd.choice([0, 0, 1, 33, 200, 4096, 102400]) if method != "GET" else 0
        if i and i % (n // 7) == 0:
            # the key keeper latches a new key while the keep-alive connection stays open: from here on every request,
            # on old and new connections alike, is signed under the key latched when it is relayed
            cur = ("%08x-1111-2222-3333-%012x" % (i, i), "%064X" % rnd.getrandbits(256))
            steps.append({"op": "set_key", "guid": cur[0], "key": cur[1]})
            rotations += 1
        elif conn is None or rnd.random() < 0.3:
            if conn:
                steps.append({"op": "close", "conn": conn})
            conn = "cq%d" % i
            steps.append({"op": "connect", "conn": conn, "attr": {"uid": 0, "admin": 1, "dip": "168.63.129.16", "dport": 80}})
        hs = rand_headers(rnd)
        if blen and rnd.random() < 0.08:
            hs = hs + [[rnd.choice(["Expect", "expect", "EXPECT"]), rnd.choice(["100-continue", "100-Continue"])]]   # curl/.NET style upload
        if rnd.random() < 0.05:
            # the client sends its own copies of the names the proxy stamps (any letter case): what the host receives under
            # those names is the proxy's value alone, and that is what the MAC covers
            hs = hs + [[rnd.choice(["x-ms-azure-host-claims", "X-MS-Azure-Host-Claims"]), '{ "isRoot": "false", "by": "client"}'],
                       [rnd.choice(["x-ms-azure-host-date", "X-Ms-Azure-Host-Date"]), "Thu, 01 Jan 1970 00:00:00 GMT"]]
        steps.append({"op": "request", "conn": conn, "id": rid, "method": method, "target": target, "headers": hs,
                      "body": {"seed": i, "len": blen}, "framing": "cl" if blen and rnd.random() < 0.7 else ("chunked" if blen else "none")})
        reqs[rid] = {"method": method, "target": target, "blen": blen, "seed": i, "exempt": exempt, "key": cur}
    c.extra["key_rotations_on_open_connections"] = rotations
    # slow uploads: the head arrives, the body more than a second later (anything stamped twice differs by then)
    for i in range(3 if not thorough else 25):
        rid = "slow%d" % i
        conn = "cslow%d" % i
        blen = rnd.choice([33, 4096, 65536])
        target = "/machine?comp=slow&n=%d" % i
        steps.append({"op": "connect", "conn": conn, "attr": {"uid": 0, "admin": 1, "dip": "168.63.129.16", "dport": 80}})
        steps.append({"op": "request", "conn": conn, "id": rid, "method": "POST", "target": target, "headers": rand_headers(rnd),
                      "body": {"seed": 7000 + i, "len": blen}, "framing": rnd.choice(["cl", "chunked"]), "body_delay_ms": 1100})
        steps.append({"op": "close", "conn": conn})
        reqs[rid] = {"method": "POST", "target": target, "blen": blen, "seed": 7000 + i, "exempt": False, "key": cur}
    c.extra["slow_uploads"] = 3 if not thorough else 25
    # the key-keeper actor answers late (its reply is held at hook H4's gate for longer than any sensible time-out): the
    # request waits for the key; "while a key is latched, every request relayed upstream carries ..." admits no unsigned relay
    for i in range(2 if not thorough else 6):
        rid, conn = "late%d" % i, "clate%d" % i
        steps += [{"op": "connect", "conn": conn, "attr": {"uid": 0, "admin": 1, "dip": "168.63.129.16", "dport": 80}},
                  {"op": "request", "conn": conn, "id": "pre" + rid, "method": "GET", "target": "/machine?comp=warm&n=%d" % i, "headers": [["Host", "h"]]},
                  {"op": "arm", "label": "key_keeper.get_key", "skip": 0},
                  {"op": "parallel", "branches": [
                      [{"op": "request", "conn": conn, "id": rid, "method": "POST", "target": "/machine?comp=health&n=%d" % i, "headers": [["Host", "h"]],
                        "body": {"seed": 8000 + i, "len": 77}, "timeout_ms": 15000}],
                      [{"op": "wait_arrived", "label": "key_keeper.get_key", "n": 1, "timeout_ms": 5000}, {"op": "sleep", "ms": 1500},
                       {"op": "release", "label": "key_keeper.get_key"}]]},
                  {"op": "disarm", "label": "key_keeper.get_key"}, {"op": "close", "conn": conn}]
        reqs["pre" + rid] = {"method": "GET", "target": "/machine?comp=warm&n=%d" % i, "blen": 0, "seed": 0, "exempt": False, "key": cur}
        reqs[rid] = {"method": "POST", "target": "/machine?comp=health&n=%d" % i, "blen": 77, "seed": 8000 + i, "exempt": False, "key": cur}
    c.extra["requests_with_late_key_reply"] = 2 if not thorough else 6
    # own calls through the real clients
    own_key = {}
    for i, kind in enumerate(["goalstate", "sharedconfig", "imds"]):
        steps.append({"op": "own_call", "kind": kind, "tag": "own%d" % i})
        own_key["own%d" % i] = cur
    # the clients take the endpoint's port as an argument: the same signed call to another listener of the WireServer address
    # (whatever the port, the host verifies the MAC over the header block it receives, Host included)
    steps.append({"op": "own_call", "kind": "goalstate", "tag": "ownalt0", "port": 32526})
    own_key["ownalt0"] = cur
    # an own call races with the key keeper latching another key: the first key lookup of the call passes, any FURTHER
    # lookup the same call makes is held at the H4 gate until the new key is latched.  Whatever the call reads, the host must
    # be able to verify it: the MAC is valid under the key the header NAMES (either key is acceptable, a mix is not)
    all_keys = {}
    race_ids = set()
    for i, kind in enumerate(["imds", "goalstate", "sharedconfig"] * (1 if not thorough else 4)):
        nk = ("%08x-aaaa-4bbb-8ccc-%012x" % (0xA000 + i, i), "%064X" % rnd.getrandbits(256))
        tag = "ownrace%d" % i
        steps += [{"op": "arm", "label": "key_keeper.get_key", "skip": 1},
                  {"op": "parallel", "branches": [
                      [{"op": "own_call", "kind": kind, "tag": tag}],
                      [{"op": "wait_arrived", "label": "key_keeper.get_key", "n": 2, "timeout_ms": 400},
                       {"op": "set_key", "guid": nk[0], "key": nk[1]},
                       {"op": "release", "label": "key_keeper.get_key"}, {"op": "release", "label": "key_keeper.get_key"},
                       {"op": "sleep", "ms": 100}, {"op": "disarm", "label": "key_keeper.get_key"}]]}]
        all_keys[cur[0]] = cur[1]
        all_keys[nk[0]] = nk[1]
        cur = nk
        race_ids.add(tag)
    c.extra["own_calls_racing_a_key_change"] = len(race_ids)
    # the builder route with a body, over the wire (1 byte, 83 bytes, the low limit)
    own_bodies = {}
    for i, n_ in enumerate([1, 83, 102400]):
        steps.append({"op": "own_call", "kind": "post", "tag": "ownpost%d" % i, "rotate": {"len": n_}})
        own_bodies["ownpost%d" % i] = bytes(((j * 7 + 3) & 0xff) for j in range(n_))
    ev, d, _ = rig.run_rig({"steps": steps, "drain_ms": 300}, "c04", timeout=900)
    rows, recv = [], {}
    cur_own = None
    for e in ev:
        if e["e"] == "OwnCall":
            cur_own = e["tag"]
        elif e["e"] == "OwnCallDone":
            cur_own = None
        elif e["e"] == "HostRecv":
            rid = e["id"] or cur_own
            if rid is None:
                continue
            recv[rid] = e
            rows.append(tokens(e["method"], e["target"], e["headers"], rid))
    missing = [r for r in reqs if r not in recv]
    if missing:
        raise util.ToolError("%d requests never reached the host (authorized root caller): %s" % (len(missing), missing[:3]))
    # phase 1b: builder route on arbitrary requests (function table)
    nb = 300 if not thorough else 10000
    cmds = []
    for i in range(nb):
        q = rand_query(rnd)
        url = "http://168.63.129.16:80" + rnd.choice(["/machine", "/secure-channel/key/x/key-attestation", "/metadata/instance"]) + ("?" + q if q else "")
        body = os.urandom(0) if rnd.random() < 0.5 else bytes(rnd.randrange(256) for _ in range(rnd.choice([1, 10, 300])))
        hs = [[n, v] for n, v in rand_headers(rnd) if n.lower() != "host" and v.strip() != ""]
        seen = set()
        hs = [h for h in hs if not (h[0].lower() in seen or seen.add(h[0].lower()))]   # build_request takes a map
        cmds.append({"kind": "build_request", "method": rnd.choice(["GET", "POST"]), "url": url, "headers": hs,
                     "body": body.hex() if body else None, "guid": GUID, "key": KEY})
    built = rig.fn_table(cmds, "c04_build", timeout=600)
    for i, (cmd, r) in enumerate(zip(cmds, built)):
        if "headers" not in r:
            raise util.ToolError("build_request failed: %s" % r)
        rid = "b%d" % i
        rows.append(tokens(r["method"], r["target"], r["headers"], rid))
        recv[rid] = {"method": r["method"], "target": r["target"], "headers": r["headers"], "key": (GUID, KEY),
                     "body": bytes.fromhex(cmd["body"]) if cmd["body"] else b"", "parts_route": r["canon_parts_route"]}
    # phase 2: TLC computes the canonical strings
    path = os.path.join(util.TRACES, "c04.ndjson")
    util.write_ndjson(path, rows)
    res = c.tlc("CanonTrace", "CanonTrace.cfg", subdir="trace", workers=1, coverage=False, dfs_queue=True, timeout=1500,
                env={"TRACE": path}, heap="4g", expect_ok=False)
    if not res.ok:
        raise tlcmod.TlcError("CanonTrace failed: %s %s" % (res.error_lines[:3], res.stdout[-800:]))
    sts = {x["id"]: x for x in tlcmod.printed_json(res, "STS")}
    if len(sts) != len(rows):
        raise util.ToolError("TLC canonicalised %d of %d requests" % (len(sts), len(rows)))
    c.traces_validated += len(rows)
    # phase 3: independent HMAC
    kinds = {}
    nsigned = 0
    for rid, e in recv.items():
        c.count()
        if rid in reqs:
            body = rig.gen_body(reqs[rid]["seed"], reqs[rid]["blen"])
            exempt = reqs[rid]["exempt"]
        elif rid in own_bodies:
            body, exempt = own_bodies[rid], False
        elif "body" in e:
            body, exempt = e["body"], False
        else:
            body, exempt = b"", False
        guid, key = reqs[rid]["key"] if rid in reqs else e.get("key", own_key.get(rid, cur))   # own calls: the key latched then
        hs = e["headers"]
        auths = [v for n, v in hs if n.lower() == AUTH]
        if exempt:
            if auths:
                kinds.setdefault("exempt-request-signed", []).append((rid, e))
            continue
        owned_n = [sum(1 for n, _ in hs if n.lower() == h) for h in ("x-ms-azure-host-claims", "x-ms-azure-host-date")]
        if any(x != 1 for x in owned_n):
            kinds.setdefault("owned-header-count-claims%d-date%d" % tuple(owned_n), []).append((rid, e))
            continue
        if len(auths) != 1:
            kinds.setdefault("authorization-header-count-%d" % len(auths), []).append((rid, e))
            continue
        a = canon.parse_auth(auths[0])
        if rid in race_ids and a and a["guid"] in all_keys:
            guid, key = a["guid"], all_keys[a["guid"]]          # the key the header names
        if not a or a["scheme"] != "Azure-HMAC-SHA256" or a["guid"] != guid:
            kinds.setdefault("bad-scheme-or-key-id", []).append((rid, e))
            continue
        nsigned += 1
        t = sts[rid]
        cand = [bytes(t["pre"]) + body + bytes(t["postKv"]), bytes(t["pre"]) + body + bytes(t["postConcat"])]
        # second implementation must agree with TLC on the (key, value) order
        if canon.string_to_sign(e["method"], e["target"], [(n, v) for n, v in hs], body) != cand[0]:
            raise util.ToolError("canon.py and Canon.tla disagree on %s" % rid)
        if not any(canon.mac(key, s) == a["mac"].lower() for s in cand):
            kinds.setdefault(classify(e["method"], e["target"], hs, body, a["mac"], key), []).append((rid, e))
            continue
        if "parts_route" in e:
            # RoutesAgree: the parts route over the built request yields the same MAC
            if canon.mac(key, bytes.fromhex(e["parts_route"])) != a["mac"].lower():
                kinds.setdefault("routes-disagree", []).append((rid, e))
        c.distinct.add(rid)
    c.extra["signed_requests_verified"] = nsigned
    c.extra["mismatch_kinds"] = {k: len(v) for k, v in kinds.items()}
    c.sample({"received": {k: recv["q0"][k] for k in ("method", "target", "headers")}, "canonical_tail": bytes(sts["q0"]["postKv"]).decode("latin-1")})
    for kind, lst in sorted(kinds.items()):
        rid, e = lst[0]
        c.violation("signature does not cover the request as received (%s, %d requests): %s %s headers=%s" % (
            kind, len(lst), e["method"], e["target"], json.dumps(e["headers"])[:500]),
            {"kind": kind}, {"id": rid, "method": e["method"], "target": e["target"], "headers": e["headers"], "count": len(lst)})
    c.rule = ("requests = seeded adversarial query strings / header sets / bodies through the real proxy and through "
              "build_request; distinct non-trivial = signed requests whose MAC verified under the TLC-computed canonical string")


def replay(c, path):
    run(c)
