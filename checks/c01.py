"""C01 -- decided by the shared proxy pipeline (checks/proxylib.py): Proxy.tla/Authz.tla model checking, TLC-generated
scenarios replayed on the real ProxyServer, and TLC trace validation of every observed request against
spec/trace/ProxyTrace.tla with the C01 invariants."""
from checks import proxylib


def run(c):
    proxylib.decide(c, "C01", relevant=lambda row: True)
    # "only if ... authorized": the caller's identity is the one it has at that connection (a process may exec)
    proxylib.identity_history(c, "C01")
    from checks import c07, c02
    import random
    c02.listener_slice(c, random.Random(c.seed + 11), c.tier == "thorough", prop="C01")
    c07.late_record(c, "C01")
    c07.stalled_consume(c, "C01")
    # nothing sent on a connection without a record of its own is relayed, whatever the accept queue holds
    c07.burst_reuse_check(c, "C01", 100 if c.tier != "thorough" else 400)


def replay(c, path):
    proxylib.replay(c, "C01", path)
