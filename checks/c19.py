"""C19 — disk usage by rolling logs, telemetry event files and authorization-rule dumps stays within bounds.

spec/DiskBounds.tla (three machines in the shape of the code) is explored exhaustively with small constants
(spec/mc/DiskBounds_{log,event,dumps,crash}.cfg); behaviours generated from it (spec/gen/DiskBoundsGen) are
replayed S->I on the REAL RollingLogger / event_logger::start + write_event / AuthorizationRulesForLogging::write_all
through harness/agent `VERIF_CMD=disk`, comparing the directory listing (names, byte sizes, creation identity) after
every operation; everything observed, and long seeded random histories with the real constants, is validated I->S
by TLC against the property-level trace specification spec/trace/DiskBoundsTrace.tla with the real byte numbers.
The statement is the oracle: a listing that differs from the implementation-shaped spec is model drift unless the
trace specification rejects the observed behaviour.

Two further dimensions of the quantifier are driven the same way (spec action -> driver op -> trace line):
* graceful stop of the event logger (EvStopIdle/Write/Drop -> `ev_stop` = event_logger::stop() + the task's last
  flush -> {"e":"ev","kind":"stop"}): push -> stop -> restart cycles over directories found at and beyond the cap
  (generator mode "evstop", and in the random histories);
* a rename fault (LogFaultOn/Off, LogWriteRollFails -> `log_pin`/`log_unpin` = the current log file bind-mounted onto
  itself inside the driver's PRIVATE mount namespace, so that archive_file's fs::rename fails with EBUSY while
  appending works -> {"e":"fault"} lines and refused writes "ok":0): the size bound must hold throughout
  (generator mode "logfault", and in the random histories);
* a run killed INSIDE a roll (LogKilledInRoll -> the driver restarted under `strace inject=unlink:signal=KILL:when=j+1`
  gets a real SIGKILL in archive_file after the rename and j removals; the next run finds what is left ->
  {"e":"killed"}): one file too many per such kill is tolerated only until the next roll completes; after every
  completed roll the count is <= max whatever was found (T_LogCount with the kill debt, T_LogCountAfterRoll)
  (generator mode "rollkill", DiskBounds_kill.cfg, and in the random histories);
* flushes of the event logger that fail after creating their temp file (EvTickFails/EvStopFails -> `ev_tick`/`ev_stop`
  with "fail": RLIMIT_FSIZE=0 and SIGXFSZ ignored while the logger task runs, so File::create works and the write
  fails -> the <nanos>.tmp stays): the cap is a bound on ALL entries of the event directory, counted from the raw
  directory listing whatever the names (generator mode "evfail", directories found with leftover temp files, and in
  the random histories);
* what creating the logger object does: the directories are listed BEFORE log_open (set-up check and "reset" line)
  and AFTER it ("restart" line carrying the files): a restart is an operation judged like any other; crash loops of
  more short runs than the configured count (generator mode "shortruns", and in the random histories);
* no room on the log file system (LogNoRoomOn/Off, LogWriteNoRoomNoRoll/Roll -> `log_write` with "noroom":
  RLIMIT_FSIZE=0 around the RollingLogger call, so renames, removals and the creation of empty files work and
  anything that puts data into a file fails -> {"e":"fault","kind":"noroom"|"room"}): the code's roll needs no room
  and completes, the append is refused; the count bound must hold after every write (generator mode "noroom");
  DiskBounds_variant_copyroll.cfg is the copy + truncate design, which TLC must reject;
* an entry of the dump directory that cannot be stat()ed (DumpListingBreaks/Heals, DumpWriteSkipped -> a dangling
  symbolic link in the directory while write_all runs -> {"e":"fault","kind":"blind"|"unblind"}): >= 10 rule-set
  changes under it; the dump bound and "a rule-set change never adds at or above the bound" must hold (generator mode
  "dumpblind"); DiskBounds_variant_writefirst.cfg is the write-before-clean-up design, which TLC must reject;
* an entry of the LOG directory that cannot be stat()ed while a write rolls (LogListingBreaks/Heals; no action of the
  code changes under it -> a dangling symbolic link present for the duration of each log_write, which is what an
  archive removed by the other rolling logger of the folder between read_dir and fs::metadata looks like ->
  {"e":"fault","kind":"lblind"|"lunblind"}): the roll completes its clean-up, T_LogCount / T_LogCountAfterRoll hold
  (generator mode "logblind", DiskBounds_loglist.cfg); DiskBounds_variant_listfails.cfg is the listing that fails as
  a whole (the code before the repair, known finding C19-roll-listing-fails), which TLC must reject.
Violation signatures carry the environment in force at the rejected line ("under")."""
import collections
import concurrent.futures
import json
import os
import random
import re
import select
import shutil
import subprocess
import time

from vlib import build, rig, tlc as tlcmod, util
from vlib.ctx import validate_trace

UNIT = 64                      # bytes per abstract size unit of DiskBounds.tla
MARK = "@C19@ "
LOG_A = "ProxyAgent.log"       # the names service.rs gives to its two loggers (same directory)
LOG_B = "ProxyAgent.Connection.log"
DUMP_TAGS = ["rules-9", "rules-10", "rules-2", "zz-1", "rules-10", "A0", "rules-9", "b", "0001", "rules-3", "Z9"]
TOKEN = re.compile(r"#([A-Za-z0-9]+)#")
MODEL = {"maxCount": 3, "limit": 4 * UNIT, "cap": 3, "maxDumps": 3}          # = the constants of the .cfg files
REAL = {"maxCount": 5, "limit": 10 * 1024 * 1024, "cap": 30, "maxDumps": 5}  # proxy_agent/src/common/constants.rs

ASSUME = [
    "TLC 1.8 and the CommunityModules Json/IOUtils are correct",
    "operations are atomic as in the statement's quantifier (sequences of whole writes, bursts, rule dumps and "
    "restarts BETWEEN them), with one exception that is part of the verdict: a run killed inside a roll after the "
    "rename and before the removals are complete leaves 'files left by earlier runs'; the count may then exceed "
    "the configured one by the number of such kills until the next roll completes, and never after a completed "
    "roll.  Kills at the other system calls of a write are analysed on the model only (DiskBounds_crash.cfg, "
    "coverage.crash_window)",
    "the kill is a real SIGKILL injected by strace on entering the (j+1)-th unlink of the process; the removal "
    "loop of archive_file is the only code of the driver process that unlinks",
    "one writer per rolling log (no two threads inside RollingLogger::write at once)",
    "the wall clock does not step backwards between two rolls / two dumps (archive and dump names carry the UTC "
    "time and 'oldest' is decided by name order in the code)",
    "log files are identified by the token of the write that created them (first bytes of the file), dumps and "
    "event files by name; sizes are the st_size values of the real files",
    "each write of the check is exactly n*64 bytes (34-byte header + message + newline), so spec units map to "
    "bytes exactly and no tolerance is needed; the bounds themselves are evaluated on the real byte sizes with "
    "the real limit passed to create_new",
    "the event logger's timer runs on tokio's paused clock (virtual time), one instance per harness process",
    "configured counts are >= 1",
    "the rename fault is produced by bind-mounting the current log file onto itself in the driver's private mount "
    "namespace (rename/unlink of the name fail with EBUSY, open-for-append and stat work; the driver verifies that "
    "a rename really fails before it reports the fault as installed); other ways of making the rename fail "
    "(append-only attribute, sticky directory) are taken to look the same to RollingLogger",
    "a failed flush is produced with RLIMIT_FSIZE=0 (SIGXFSZ ignored) for the duration of one driver operation: "
    "File::create succeeds and every write to a regular file fails with EFBIG, the path ENOSPC takes through "
    "json_write_to_file (the driver verifies on a probe file that writes do fail); 'files in the event directory' "
    "are all its entries, whatever their names; the telemetry reader removes *.json files only",
    "'no room on the log file system' is produced with RLIMIT_FSIZE=0 around one RollingLogger write (EFBIG where a "
    "full disk gives ENOSPC; no partial appends); the unstat()able entry of the dump directory is a dangling "
    "symbolic link that exists while write_all runs; the un-stat()able entry of the log directory is the same "
    "kind of link, present while one RollingLogger write runs (the transient condition two loggers sharing the "
    "folder create for each other); a foreign link that STAYS in the directory is outside the quantifier "
    "(coverage.unstatable_entry_and_rolls, information only)",
    "a graceful stop is event_logger::stop() followed by virtual time until the logger task has ended; stop "
    "requests are handled at the loop's next wake-up, i.e. before any further periodic flush",
]


# ----------------------------------------------------------------------------------------------------------------
# driver process

class Died(Exception):
    """the driver process ended while a command was outstanding (expected under kill injection)"""


class Proc:
    def __init__(self, exe, cwd, errpath, kill_at_unlink=0):
        self.err = open(errpath, "ab")
        # private mount namespace: the bind mounts of `log_pin` exist only for this process and vanish with it
        argv = ["unshare", "-m", "--propagation", "private", exe]
        if kill_at_unlink:
            # SIGKILL on entering the N-th unlink of the process: RollingLogger::archive_file's removal loop is the
            # only code of the driver that unlinks, so this is "after the rename and N-1 removals of a roll"
            argv = ["strace", "-f", "-qq", "-o", "/dev/null", "-e", "trace=unlink,unlinkat",
                    "-e", "inject=unlink,unlinkat:signal=KILL:when=%d" % kill_at_unlink] + argv
        self.p = subprocess.Popen(argv, cwd=cwd,
                                  stdin=subprocess.PIPE, stdout=subprocess.PIPE, stderr=self.err,
                                  env=dict(os.environ, VERIF_CMD="disk", RUST_BACKTRACE="0",
                                           VERIF_PARENT_MNTNS=os.readlink("/proc/self/ns/mnt")), bufsize=0)
        self.buf = b""
        self.errpath = errpath

    def call(self, cmd, timeout=60, may_die=False):
        try:
            self.p.stdin.write((json.dumps(cmd) + "\n").encode())
            self.p.stdin.flush()
        except (BrokenPipeError, OSError) as ex:
            if may_die:
                raise Died()
            raise util.ToolError("disk driver died (%s): %s" % (ex, self._errtail()))
        t_end = time.time() + timeout
        while True:
            while b"\n" in self.buf:
                line, self.buf = self.buf.split(b"\n", 1)
                s = line.decode("utf-8", "replace")
                if s.startswith(MARK):
                    r = json.loads(s[len(MARK):])
                    if "error" in r:
                        raise util.ToolError("disk driver: %s (cmd %s)" % (r["error"], cmd))
                    return r
            left = t_end - time.time()
            if left <= 0:
                self.kill()
                raise util.ToolError("disk driver timed out on %s" % json.dumps(cmd)[:200])
            rd, _, _ = select.select([self.p.stdout], [], [], left)
            if rd:
                chunk = os.read(self.p.stdout.fileno(), 1 << 16)
                if not chunk:
                    if may_die:
                        raise Died()
                    raise util.ToolError("disk driver exited (rc=%s) on %s: %s"
                                         % (self.p.poll(), json.dumps(cmd)[:200], self._errtail()))
                self.buf += chunk

    def _errtail(self):
        try:
            with open(self.errpath, "rb") as f:
                return f.read()[-1500:].decode("utf-8", "replace")
        except OSError:
            return ""

    def close(self):
        try:
            self.p.stdin.close()
        except OSError:
            pass
        try:
            self.p.wait(timeout=20)
        except subprocess.TimeoutExpired:
            self.kill()
        self.p.stdout.close()
        self.err.close()

    def kill(self):
        self.p.kill()
        self.p.wait()

    def reap(self):
        """after Died: collect the exit status"""
        try:
            rc = self.p.wait(timeout=20)
        except subprocess.TimeoutExpired:
            self.kill()
            raise util.ToolError("disk driver closed its output but did not exit")
        for f in (self.p.stdin, self.p.stdout, self.err):
            try:
                f.close()
            except OSError:
                pass
        return rc


# ----------------------------------------------------------------------------------------------------------------
# one history on the real code: directories, process, identity of files, observed rows

def past_stamp(i):
    """timestamp part of a name written by an earlier run, in the code's format (':' -> '.'), increasing with i"""
    return "2024-03-%02dT10.%02d.%02d.%03d-%d" % (1 + i // 3600, (i // 60) % 60, i % 60, (i * 37) % 1000,
                                                 1709287200000000000 + i * 1000000007)


class World:
    def __init__(self, rundir, exe, name, conf, loggers=(("a", LOG_A),)):
        self.exe, self.rundir, self.conf = exe, rundir, dict(conf)
        self.root = os.path.join(rundir, name)
        shutil.rmtree(self.root, ignore_errors=True)
        self.logs = os.path.join(self.root, "logs")          # rolling logs AND rule dumps (key_keeper: log_dir)
        self.events = os.path.join(self.logs, "events")      # as in the default configuration: <logFolder>/events
        os.makedirs(self.events)
        self.lognames = dict(loggers)
        self.proc = None
        self.tok = 0
        self.ids = {k: {} for k in self.lognames}            # per logger: token -> id (creation order)
        self.empty_id = {k: None for k in self.lognames}     # id of a current file observed while still empty
        self.prev = {k: {} for k in self.lognames}           # per logger: name -> (id, size)
        self.dump_ids = {}                                   # dump name -> id
        self.ev_prev = set()
        self.rows = []                                       # trace rows of the main segment
        self.rows_extra = {k: [] for k in self.lognames if k != "a"}   # further loggers: own segments
        self.notes = []                                      # op errors / panics seen
        self.nontrivial = False
        self.pinned = set()                                  # loggers whose current file cannot be renamed at present
        self.stopped = False                                 # event_logger::stop() handled in this process
        self.refused = 0                                     # writes the logger refused
        self.stops_full = 0                                  # graceful stops that found the event directory full
        self.kills = 0                                       # runs killed inside a roll (real SIGKILL)
        self.tmp_seen = 0                                    # most leftover temp files seen in the event directory
        self.found = ([], [])
        self.noroom = False                                  # the log file system has no room at present
        self.blind = False                                   # the dump directory holds an entry that cannot be stat()ed
        self.blind_dumps = 0                                 # rule-set changes made while it did
        self.logblind = False                                # ... the same while log writes (rolls) run
        self.blind_rolls = 0                                 # writes under it that found the current file at its limit
        self.ndump = 0

    # --- setup ---------------------------------------------------------------------------------------------------
    def prefill(self, arch_units, cur_units, ev, ndumps, tmp=0):
        """files left by earlier runs, named by the code's scheme; returns the reset row fields"""
        lim = self.conf["limit"]
        name = self.lognames["a"]
        files = []
        for i, u in enumerate(arch_units):
            size = u * UNIT
            self._mkfile(os.path.join(self.logs, "%s.%s.log" % (name, past_stamp(i))), "#p%d#" % i, size)
        if cur_units >= 0:
            self._mkfile(os.path.join(self.logs, name), "#pc#" if cur_units > 0 else "", cur_units * UNIT)
        for i in range(ev):
            with open(os.path.join(self.events, "%d.json" % (1709287200000000000 + i)), "w") as f:
                f.write("[]")
        for i in range(tmp):                                  # temp files of flushes that failed / were killed
            with open(os.path.join(self.events, "%d.tmp" % (1709287100000000000 + i)), "w") as f:
                f.write("")
        for i in range(ndumps):
            with open(os.path.join(self.logs, "AuthorizationRules_%s.json" % past_stamp(i)), "w") as f:
                f.write("{}")
        return files

    @staticmethod
    def _mkfile(path, token, size):
        data = (token + "x" * size)[:max(size - 1, 0)] + ("\n" if size > 0 else "")
        with open(path, "w") as f:
            f.write(data)

    def start(self, kill_at_unlink=0):
        """returns the listings (logs, events) after the logger objects exist and the event logger task runs;
        self.found = the listings BEFORE that (what the earlier runs left)"""
        self.proc = Proc(self.exe, self.rundir, os.path.join(self.root, "stderr.txt"), kill_at_unlink)
        self.found = (self.proc.call({"op": "list", "dir": self.logs})["files"],
                      self.proc.call({"op": "list", "dir": self.events})["files"])
        for k in sorted(self.pinned):                        # the fault is the environment's: it outlives the process
            self.proc.call({"op": "log_pin", "path": os.path.join(self.logs, self.lognames[k])})
        r = None
        for k, nm in self.lognames.items():
            r = self.proc.call({"op": "log_open", "key": k, "dir": self.logs, "name": nm,
                                "max_size": self.conf["limit"], "max_count": self.conf["maxCount"]})
        e = self.proc.call({"op": "ev_start", "dir": self.events, "cap": self.conf["cap"], "interval_ms": 10})
        self.stopped = False
        return r["files"], e["files"]

    def opened_rows(self, logs, evs, skip=None):
        """what creating the logger objects / starting the event logger did is an observed step: a "restart" line
        with the files of every rolling log, and an "ev start" line"""
        out = None
        for k in self.lognames:
            v = self.log_view(k, logs)
            if k != skip:
                (self.rows if k == "a" else self.rows_extra[k]).append({"e": "restart", "files": v["files"]})
            if k == "a":
                out = v
        ev = self.ev_view(evs)
        self.rows.append({"e": "ev", "kind": "start", "ev": ev["all"]})
        return {"arch": out["arch"], "cur": out["cur"], "dumps": self.dump_view(logs), "ev": ev["ev"], "tmp": ev["tmp"]}

    def stop(self):
        if self.proc:
            self.proc.close()
            self.proc = None

    def reset_row(self):
        """first run: the "reset" line is what was FOUND (listed before any logger object exists); what opening the
        loggers does is the next, observed, step.  Returns (found, after_open) projections."""
        logs, evs = self.start()
        flogs, fevs = self.found
        lim = self.conf["limit"]
        row = dict(self.conf, e="reset")
        v = self.log_view("a", flogs)
        row["files"] = [dict(f, lw=max(0, f["size"] - lim + 1)) for f in v["files"]]
        fe = self.ev_view(fevs)
        row["ev"] = fe["all"]
        row["dumps"] = self.dump_view(flogs)
        self.rows.append(row)
        for k in self.rows_extra:
            vk = self.log_view(k, flogs)
            self.rows_extra[k].append(dict(self.conf, e="reset", ev=0, dumps=[],
                                           files=[dict(f, lw=max(0, f["size"] - lim + 1)) for f in vk["files"]]))
        found = {"arch": v["arch"], "cur": v["cur"], "ev": fe["ev"], "tmp": fe["tmp"], "dumps": row["dumps"]}
        return found, self.opened_rows(logs, evs)

    # --- projections of a listing -----------------------------------------------------------------------------
    def log_view(self, key, listing):
        name = self.lognames[key]
        mine = [f for f in listing if not f.get("dir")
                and (f["name"] == name or (f["name"].startswith(name + ".") and f["name"].endswith(".log")))]
        ids, prev, out, now = self.ids[key], self.prev[key], [], {}
        for f in sorted(mine, key=lambda f: (f["name"] == name, f["name"])):      # archived by name, current last
            m = TOKEN.search(f.get("head", ""))
            is_cur = f["name"] == name
            if m is None:
                # no token yet: an empty (just created / pre-filled empty) file, or foreign content
                fid = prev[f["name"]][0] if f["name"] in prev and prev[f["name"]][1] == 0 else None
                if fid is None:
                    fid = len(ids) + 1
                    ids["?%d" % fid] = fid
                if is_cur and f["size"] == 0:
                    self.empty_id[key] = fid
            else:
                t = m.group(1)
                if t not in ids:
                    if is_cur and self.empty_id[key] is not None and prev.get(name, (None, None))[1] == 0:
                        ids[t] = self.empty_id[key]           # the empty current file received its first write
                    else:
                        ids[t] = len(ids) + 1
                fid = ids[t]
                if is_cur:
                    self.empty_id[key] = None
            out.append({"id": fid, "size": f["size"], "cur": 1 if is_cur else 0})
            now[f["name"]] = (fid, f["size"])
        self.prev[key] = now
        arch = [f["size"] for f in out if not f["cur"]]
        cur = next((f["size"] for f in out if f["cur"]), -1)
        return {"arch": arch, "cur": cur, "files": out}

    def dump_view(self, listing):
        names = sorted(f["name"] for f in listing if not f.get("dir")
                       and re.match(r"^AuthorizationRules_.*\.json$", f["name"]))
        for n in names:                                       # first sight = creation order (pre-filled: name order)
            if n not in self.dump_ids:
                self.dump_ids[n] = len(self.dump_ids) + 1
        return sorted(self.dump_ids[n] for n in names)

    def ev_view(self, listing):
        """ev: event files, tmp: leftover temp files, all: EVERY entry of the directory (what the cap is about)"""
        files = [f for f in listing if not f.get("dir")]
        names = {f["name"] for f in listing}
        wrote = sum(f.get("events", 0) for f in files if f["name"] not in self.ev_prev)
        self.ev_prev = names
        ntmp = sum(1 for f in files if f["name"].endswith(".tmp"))
        return {"ev": len(files) - ntmp, "tmp": ntmp, "all": len(listing), "wrote": wrote}

    # --- operations ----------------------------------------------------------------------------------------------
    def write(self, nbytes, key="a", many=None):
        self.tok += 1
        cmd = {"op": "log_write", "key": key, "token": "w%d" % self.tok, "noroom": self.noroom}
        if many:
            cmd["many"] = many
        else:
            cmd["bytes"] = nbytes
        link = os.path.join(self.logs, "c19.other-logs-archive")
        if self.logblind and self.cur_size(key) >= self.conf["limit"]:
            self.blind_rolls += 1
        for attempt in range(4):
            if self.logblind:
                # an entry that cannot be stat()ed while this write runs: what an archive of the OTHER rolling logger
                # of the folder is when it is removed between this logger's read_dir and fs::metadata
                os.symlink("c19-removed-meanwhile", link)
            try:
                r = self.proc.call(cmd)
            finally:
                if self.logblind:
                    os.unlink(link)
            # logger::get_log_header slices [..34] of a shorter string when the sub-second part of the clock has
            # trailing zeros (probability 1e-7 per line): a C13 matter that happens before any file is touched
            if r.get("panic") and "byte index 34" in r["panic"]:
                self.notes.append({"panic": r["panic"]})
                continue
            break
        ok = bool(r.get("ok"))
        if not ok:
            self.refused += 1
            if r.get("panic") or not (key in self.pinned or self.noroom):    # refusals under a fault are expected
                self.notes.append({"op": "write", "err": r.get("err"), "panic": r.get("panic")})
        v = self.log_view(key, r["files"])
        row = {"e": "write", "n": nbytes, "ok": int(ok), "files": v["files"]}
        (self.rows if key == "a" else self.rows_extra[key]).append(row)
        if len(v["files"]) >= self.conf["maxCount"] or not ok:
            self.nontrivial = True
        return {"arch": v["arch"], "cur": v["cur"], "dumps": self.dump_view(r["files"]), "refused": not ok}

    def room(self, has_room):
        """the environment: the log file system runs out of room (writes of all loggers from now on happen with no
        data block to be had) / has room again"""
        if self.noroom == (not has_room):
            return {}
        self.noroom = not has_room
        row = {"e": "fault", "kind": "room" if has_room else "noroom"}
        self.rows.append(row)
        for k in self.rows_extra:
            self.rows_extra[k].append(dict(row))
        return {}

    def log_blindness(self, on):
        """the environment: while log writes run, an entry of the log directory cannot be stat()ed (present for the
        duration of each write only; all loggers of the directory see it)"""
        if self.logblind == on:
            return {}
        self.logblind = on
        row = {"e": "fault", "kind": "lblind" if on else "lunblind"}
        self.rows.append(row)
        for k in self.rows_extra:
            self.rows_extra[k].append(dict(row))
        return {}

    def blindness(self, on):
        """the environment: a dangling symbolic link sits in the directory of the dumps while rule sets change (it is
        there for the duration of each write_all only: the directory is shared with the rolling logs)"""
        if self.blind == on:
            return {}
        self.blind = on
        self.rows.append({"e": "fault", "kind": "blind" if on else "unblind"})
        return {}

    def pin(self, key="a", on=True):
        """the environment: the rename of this logger's current file fails from now on (on) / works again"""
        path = os.path.join(self.logs, self.lognames[key])
        if on == (key in self.pinned) or (on and not os.path.isfile(path)):
            return {}
        r = self.proc.call({"op": "log_pin" if on else "log_unpin", "path": path})
        (self.pinned.add if on else self.pinned.discard)(key)
        (self.rows if key == "a" else self.rows_extra[key]).append({"e": "fault", "kind": "pin" if on else "unpin"})
        v = self.log_view(key, r["files"])
        return {"arch": v["arch"], "cur": v["cur"]}

    def push(self, n):
        r = self.proc.call({"op": "ev_push", "n": n})
        v = self.ev_view(r["files"])
        self.rows.append({"e": "ev", "kind": "push", "ev": v["all"]})
        return v

    def tick(self, fail=False):
        """time passes (two wake-ups of the logger loop); fail: meanwhile every write to a file fails (disk full)"""
        r = self.proc.call({"op": "ev_tick", "fail": bool(fail)})
        v = self.ev_view(r["files"])
        self.rows.append({"e": "ev", "kind": "tickfail" if fail else "tick", "ev": v["all"]})
        if v["all"] >= self.conf["cap"]:
            self.nontrivial = True
        self.tmp_seen = max(self.tmp_seen, v["tmp"])
        return v

    def evstop(self, fail=False):
        """graceful stop: event_logger::stop(), the loop's next wake-up with its last flush, the task ends"""
        if self.stopped:
            return {}
        n0 = len(self.ev_prev)
        r = self.proc.call({"op": "ev_stop", "fail": bool(fail)})
        self.stopped = True
        if not r.get("finished"):
            self.notes.append({"op": "ev_stop", "note": "the event logger task did not end"})
        v = self.ev_view(r["files"])
        self.rows.append({"e": "ev", "kind": "stopfail" if fail else "stop", "ev": v["all"]})
        self.tmp_seen = max(self.tmp_seen, v["tmp"])
        if n0 >= self.conf["cap"]:
            self.nontrivial = True
            self.stops_full += 1
        return v

    def remove(self, k):
        """the telemetry reader: removes the k oldest event files"""
        names = sorted(n for n in os.listdir(self.events)            # the reader takes *.json only
                       if n.endswith(".json") and os.path.isfile(os.path.join(self.events, n)))
        for n in names[:k]:
            os.unlink(os.path.join(self.events, n))
        r = self.proc.call({"op": "list", "dir": self.events})
        v = self.ev_view(r["files"])
        self.rows.append({"e": "ev", "kind": "remove", "ev": v["all"]})
        return v

    def dump(self):
        # rule-set ids are whatever the host sends: they neither grow nor sort like time (9 -> 10, roll-backs)
        tag = DUMP_TAGS[self.ndump % len(DUMP_TAGS)]
        self.ndump += 1
        link = os.path.join(self.logs, "c19.latest")
        if self.blind:
            os.symlink("c19-target-rolled-away", link)       # dangling: stat() of this entry fails
            self.blind_dumps += 1
        try:
            r = self.proc.call({"op": "dump_write", "dir": self.logs, "max": self.conf["maxDumps"], "tag": tag})
        finally:
            if self.blind:
                os.unlink(link)
        if not r.get("ok"):
            self.notes.append({"op": "dump", "panic": r.get("panic")})
        d = self.dump_view(r["files"])
        self.rows.append({"e": "dump", "dumps": d})
        if len(d) >= self.conf["maxDumps"]:
            self.nontrivial = True
        v = self.log_view("a", r["files"])
        return {"dumps": d, "arch": v["arch"], "cur": v["cur"]}

    def restart(self):
        self.stop()
        logs, evs = self.start()
        return self.opened_rows(logs, evs)

    def cur_size(self, key="a"):
        return self.prev[key].get(self.lognames[key], (None, -1))[1]

    def fill(self, key="a"):
        """one ordinary write that takes the current file to its limit (so that the next write has to roll)"""
        return self.write(max(48, self.conf["limit"] - max(self.cur_size(key), 0)), key=key)

    def kill_in_roll(self, nbytes, j, key="a"):
        """The process is restarted under kill injection and writes nbytes: it gets a real SIGKILL on entering the
        (j+1)-th unlink, i.e. inside RollingLogger::archive_file after the rename and j removals.  The next run
        finds what is left (line "killed").  If that write needs no (j+1)-th removal nobody dies: it is an ordinary
        write followed by a restart."""
        if not shutil.which("strace"):
            raise util.ToolError("strace is needed for the kill-inside-a-roll dimension of C19")
        self.stop()
        self.opened_rows(*self.start(kill_at_unlink=j + 1))
        self.tok += 1
        try:
            r = self.proc.call({"op": "log_write", "key": key, "token": "w%d" % self.tok, "bytes": nbytes},
                               may_die=True)
        except Died:
            rc = self.proc.reap()
            self.proc = None
            if rc not in (-9, 137):
                raise util.ToolError("kill injection: the driver ended with status %s instead of SIGKILL" % rc)
            logs, evs = self.start()
            self.kills += 1
            self.nontrivial = True
            v = self.log_view(key, self.found[0])            # what the killed run left, before any logger object exists
            (self.rows if key == "a" else self.rows_extra[key]).append({"e": "killed", "n": nbytes, "files": v["files"]})
            return dict(self.opened_rows(logs, evs), killed=True)
        ok = bool(r.get("ok"))
        if not ok:
            self.refused += 1
        v = self.log_view(key, r["files"])
        (self.rows if key == "a" else self.rows_extra[key]).append(
            {"e": "write", "n": nbytes, "ok": int(ok), "files": v["files"]})
        return dict(self.restart(), killed=False)

    def segments(self):
        segs = [self.rows]
        for k, rows in self.rows_extra.items():
            if any(r["e"] in ("write", "killed") for r in rows):
                segs.append(rows)
        return segs


# ----------------------------------------------------------------------------------------------------------------
# S->I: one generated behaviour

def split_lines(rnd, nbytes):
    """line lengths (each including its newline) for write_many, first line long enough for the token"""
    first = min(nbytes, rnd.choice([16, 24, 40]))
    out, left = [first], nbytes - first
    while left > 0:
        k = min(left, rnd.choice([1, 7, 64, 200]))
        out.append(k)
        left -= k
    return out


def apply_step(w, step, rnd):
    """execute one step of a behaviour / history; returns the observed projection (bytes)"""
    op = step["op"]
    if op == "write":
        nbytes = step["bytes"]
        many = split_lines(rnd, nbytes) if step.get("many") and nbytes < 100000 else None
        return w.write(nbytes, key=step.get("key", "a"), many=many)
    if op == "push":
        return w.push(step["n"])
    if op in ("tick", "tickfail"):
        return w.tick(fail=(op == "tickfail" or bool(step.get("fail"))))
    if op == "remove":
        return w.remove(step["n"])
    if op == "dump":
        return w.dump()
    if op == "restart":
        return w.restart()
    if op in ("stop", "stopfail"):
        return w.evstop(fail=(op == "stopfail" or bool(step.get("fail"))))
    if op in ("pin", "unpin"):
        return w.pin(step.get("key", "a"), on=(op == "pin"))
    if op in ("noroom", "room"):
        if op == "noroom" and step.get("fill") and w.cur_size(step.get("key", "a")) < w.conf["limit"]:
            w.fill(step.get("key", "a"))
        return w.room(op == "room")
    if op in ("blind", "unblind"):
        return w.blindness(op == "blind")
    if op in ("lblind", "lunblind"):
        if op == "lblind" and step.get("fill") and w.cur_size(step.get("key", "a")) < w.conf["limit"]:
            w.fill(step.get("key", "a"))
        return w.log_blindness(op == "lblind")
    if op == "kill":
        if step.get("fill") and w.cur_size(step.get("key", "a")) < w.conf["limit"]:
            w.fill(step.get("key", "a"))
        return w.kill_in_roll(step["bytes"], step.get("j", 0), key=step.get("key", "a"))
    raise util.ToolError("unknown step %r" % (step,))


def expected_of(h):
    if h.get("op") == "kill":
        return {"arch": [u * UNIT for u in h["arch"]], "cur": -1, "ev": h["ev"], "tmp": h.get("tmp", 0),
                "dumps": h["dumps"], "killed": True}
    return {"arch": [u * UNIT for u in h["arch"]], "cur": h["cur"] * UNIT if h["cur"] >= 0 else -1,
            "ev": h["ev"], "tmp": h.get("tmp", 0), "wrote": h["wrote"], "dumps": h["dumps"],
            "refused": bool(h.get("refused"))}


def steps_of_hist(hist, rnd):
    steps = []
    for h in hist[1:]:
        s = {"op": h["op"]}
        if h["op"] == "write":
            s["bytes"] = h["n"] * UNIT
            s["many"] = rnd.random() < 0.25
        elif h["op"] == "kill":
            s["bytes"] = h["n"] * UNIT
            s["j"] = h["j"]
        elif h["op"] in ("push", "remove"):
            s["n"] = h["n"]
        steps.append(s)
    return steps


def run_behaviour(rundir, exe, name, case, rnd):
    """case: {"conf", "init": {arch,cur,ev,dumps} (spec units), "steps": [...], "expect": [...]|None}
    returns (world, drift or None)"""
    w = World(rundir, exe, name, case["conf"], loggers=case.get("loggers") or (("a", LOG_A),))
    init = case["init"]
    drift = None
    try:
        w.prefill(init["arch"], init["cur"], init["ev"], len(init["dumps"]), tmp=init.get("tmp", 0))
        found, obs = w.reset_row()
        exp = case.get("expect")
        if exp is not None:
            e0 = expected_of(exp[0])
            for k in ("arch", "cur", "ev", "tmp", "dumps"):
                # the harness's own set-up, listed BEFORE any object of the code under test exists
                if found[k] != e0[k]:
                    raise util.ToolError("pre-filled directory is not seen as intended: %s %r != %r"
                                         % (k, found[k], e0[k]))
            # creating the logger objects is the code's first step: the spec says it changes nothing
            bad = {k: {"spec": e0[k], "real": obs[k]} for k in obs if k in e0 and obs[k] != e0[k]}
            if bad:
                drift = {"step": -1, "op": {"op": "open"}, "diff": bad}
        for i, step in enumerate(case["steps"]):
            obs = apply_step(w, step, rnd)
            if exp is not None and drift is None:
                e = expected_of(exp[i + 1])
                bad = {k: {"spec": e[k], "real": obs[k]} for k in obs if k in e and obs[k] != e[k]}
                if bad:
                    # abstract states diverged: later expectations are meaningless, but the history goes on and
                    # every line of it is judged against the property
                    drift = {"step": i, "op": step, "diff": bad}
    finally:
        w.stop()
    return w, drift


# ----------------------------------------------------------------------------------------------------------------
# I->S: seeded random histories with the real constants

def random_history(rnd, conf, nops, big=False):
    lim = conf["limit"]
    steps = []
    for _ in range(nops):
        x = rnd.random()
        y = rnd.random()
        if y < 0.04:
            # the environment: the rename of a current log file starts / stops failing
            steps.append({"op": rnd.choice(["pin", "pin", "unpin"]), "key": rnd.choice(["a", "a", "b"])})
        elif y < 0.07:
            # graceful stop with events still queued, then (mostly at once) the next run
            steps.append({"op": "push", "n": rnd.choice([1, 2, 5])})
            steps.append({"op": "stop", "fail": rnd.random() < 0.2})
            if rnd.random() < 0.8:
                steps.append({"op": "restart"})
        elif y < 0.085 and not big:
            # a run killed inside a roll (the current file is first taken to its limit), then the next run
            steps.append({"op": "kill", "fill": True, "bytes": rnd.choice([48, 64, 200]), "j": rnd.choice([0, 0, 0, 1]),
                          "key": rnd.choice(["a", "a", "b"])})
        elif y < 0.095 and not big:
            # a crash loop: more short runs than the configured count, a line or two each
            k = rnd.choice(["a", "a", "b"])
            for _ in range(conf["maxCount"] + 3):
                steps.append({"op": "write", "bytes": rnd.choice([48, 64, 100]), "key": k, "many": False})
                steps.append({"op": "restart"})
        elif y < 0.11:
            # the log file system runs out of room just when a roll is due; logging goes on; room comes back
            steps.append({"op": "noroom", "fill": True, "key": rnd.choice(["a", "a", "b"])})
            for _ in range(rnd.choice([3, 6, 12])):
                steps.append({"op": "write", "bytes": rnd.choice([48, 64, 100, 300]), "key": rnd.choice(["a", "a", "b"]),
                              "many": rnd.random() < 0.3})
            if rnd.random() < 0.2:
                steps.append({"op": "restart"})
            steps.append({"op": "room"})
        elif y < 0.14:
            # an entry of the log directory cannot be stat()ed just when a roll is due, and for some writes after
            steps.append({"op": "lblind", "fill": True, "key": rnd.choice(["a", "a", "b"])})
            for _ in range(rnd.choice([2, 5, 9])):
                steps.append({"op": "write", "bytes": rnd.choice([48, 64, 100, 300, lim]), "key": rnd.choice(["a", "a", "b"]),
                              "many": rnd.random() < 0.3})
            steps.append({"op": "lunblind"})
        elif y < 0.155:
            # something in the dump directory cannot be stat()ed while the rule set changes again and again
            steps.append({"op": "blind"})
            steps += [{"op": "dump"}] * rnd.choice([3, 10, 12])
            steps.append({"op": "unblind"})
        if x < 0.45:
            if big:
                n = rnd.choice([lim // 10, lim // 3, lim // 2, lim - 1, lim, lim + 1, rnd.randint(48, lim // 2)])
            else:
                n = rnd.choice([48, 64, 100, rnd.randint(48, 400), rnd.randint(48, lim), lim - 1, lim, lim + 1,
                                lim + rnd.randint(2, lim), 2 * lim + 7])
            steps.append({"op": "write", "bytes": max(48, n), "key": rnd.choice(["a", "a", "b"]),
                          "many": rnd.random() < 0.3})
        elif x < 0.62:
            steps.append({"op": "push", "n": rnd.choice([1, 1, 2, 5, 40, 1200])})
            if rnd.random() < 0.8:
                steps.append({"op": "tick", "fail": rnd.random() < 0.15})       # now and then the disk is full
        elif x < 0.72:
            steps.append({"op": "tick"})
        elif x < 0.78:
            steps.append({"op": "remove", "n": rnd.choice([1, 1, 2, 10, 40])})
        elif x < 0.93:
            steps.append({"op": "dump"})
        else:
            steps.append({"op": "restart"})
    return steps


# ----------------------------------------------------------------------------------------------------------------
# crash window (information only): kill the process at its first unlink, i.e. after the rename of a roll

def crash_window(rundir, exe, c):
    if not shutil.which("strace"):
        return {"skipped": "no strace"}
    conf = dict(MODEL)
    w = World(rundir, exe, "crashwin", conf)
    w.prefill([4, 4], 4, 0, 0)                      # at the limit: max-1 archived files + a full current file
    cmds = [{"op": "log_open", "key": "a", "dir": w.logs, "name": LOG_A, "max_size": conf["limit"],
             "max_count": conf["maxCount"]},
            {"op": "log_write", "key": "a", "token": "k1", "bytes": 64}]
    try:
        p = subprocess.run(["strace", "-f", "-o", "/dev/null", "-e", "trace=unlink,unlinkat",
                            "-e", "inject=unlink,unlinkat:signal=KILL:when=1", exe],
                           input="\n".join(json.dumps(x) for x in cmds) + "\n", cwd=rundir, text=True,
                           env=dict(os.environ, VERIF_CMD="disk"), stdout=subprocess.PIPE, stderr=subprocess.PIPE,
                           timeout=60)
    except (subprocess.TimeoutExpired, OSError) as ex:
        return {"skipped": "strace run failed: %s" % ex}
    killed = p.returncode != 0
    after_kill = sorted(os.listdir(w.logs))
    # the next run finds that directory and writes once
    w.rows = []
    w.reset_row()
    obs1 = w.write(64)
    w.stop()
    n0 = len([n for n in after_kill if n.startswith(LOG_A)])
    n1 = len(obs1["arch"]) + (1 if obs1["cur"] >= 0 else 0)
    return {"killed_at_first_unlink": bool(killed), "files_found_by_next_run": n0, "files_after_its_first_write": n1,
            "max_count": conf["maxCount"], "exceeds": n1 > conf["maxCount"],
            "spec": "DiskBounds_crash.cfg: LogCountBoundCrash (count <= max + kills in the window since the last "
                    "completed roll), LogCrashRecovers (the next completed roll removes all the excess)"}


def unstatable_entry_and_rolls(rundir, exe):
    """Information only (NOT part of the verdict: a foreign link that stays is not something an earlier run with the
    same settings leaves): a dangling symbolic link left in the directory PERSISTENTLY while the rolling log rolls.
    Before 'fix: skip directory entries that cannot be inspected when listing a rolling log's files'
    RollingLogger::get_log_files failed as a whole on it, AFTER archive_file's rename: one more file per roll without
    bound.  The TRANSIENT form (the entry is there while one write runs) is part of the verdict: World.log_blindness,
    known finding C19-roll-listing-fails."""
    conf = dict(MODEL)
    w = World(rundir, exe, "unstat", conf)
    try:
        w.prefill([4, 4], 3, 0, 0)
        w.reset_row()
        os.symlink("c19-target-rolled-away", os.path.join(w.logs, "c19.latest"))
        counts, refused = [], 0
        for _ in range(14):
            o = w.write(2 * UNIT)
            counts.append(len(o["arch"]) + (1 if o["cur"] >= 0 else 0))
            refused += int(o["refused"])
    finally:
        w.stop()
    shutil.rmtree(w.root, ignore_errors=True)
    return {"max_count": conf["maxCount"], "files_after_each_of_14_writes": counts, "writes_refused": refused,
            "exceeds": max(counts) > conf["maxCount"],
            "note": "a PERSISTENT dangling symlink in the log directory (outside C19's quantifier; the transient form is "
                    "checked as environment 'lblind'): exceeds=true means get_log_files() fails as a whole after "
                    "archive_file's rename and every roll skips its clean-up (the tree before the repair: 3,3,4,4,4,5,"
                    "... 7 files after 14 writes, 5 refused)"}


# ----------------------------------------------------------------------------------------------------------------

def machine_of(why):
    if "Log" in why:
        return "log"
    if "Ev" in why:
        return "event"
    if "Dump" in why:
        return "dumps"
    return "?"


Rejected = collections.namedtuple("Rejected", "origin why under")
ENV_ON = {"pin": "pin", "noroom": "noroom", "blind": "blind", "lblind": "lblind"}
ENV_OFF = {"unpin": "pin", "room": "noroom", "unblind": "blind", "lunblind": "lblind"}


def conditions_at(rows, idx):
    """the environment conditions in force when rows[idx] was observed (since the reset line of its segment)"""
    on = set()
    for r in rows[:idx + 1]:
        if r["e"] == "reset":
            on = set()
        elif r["e"] == "fault":
            if r["kind"] in ENV_ON:
                on.add(ENV_ON[r["kind"]])
            elif r["kind"] in ENV_OFF:
                on.discard(ENV_OFF[r["kind"]])
    return "+".join(sorted(on)) or "none"


def validate_segments(c, segs, name, *, timeout=900):
    """segs: list of (origin, rows).  Returns list of Rejected(origin, why, under) for rejected segments (at most a
    few); under = the environment conditions in force at the rejected line ("none", "lblind", "noroom+pin", ...)"""
    rejected = []
    segs = list(segs)
    for _ in range(6):
        rows, owner = [], []
        for o, r in segs:
            rows += r
            owner += [o] * len(r)
        if not rows:
            break
        ok, why, res = validate_trace(c, "DiskBoundsTrace", "DiskBoundsTrace.cfg", rows, name, count=0,
                                      timeout=timeout, heap="3g")
        if ok:
            break
        if not (res.invariant_violated or res.property_violated):
            raise util.ToolError("trace %s could not be matched: %s" % (name, why))
        idx = res.depth - 2               # state k is reached by line k-1 (1-based) = rows[k-2]
        if not 0 <= idx < len(rows):
            raise util.ToolError("cannot locate the rejected line (depth %s of %d rows)" % (res.depth, len(rows)))
        bad = owner[idx]
        rejected.append(Rejected(bad, why, conditions_at(rows, idx)))
        segs = [(o, r) for o, r in segs if o != bad]
    return rejected


def run(c):
    thorough = c.tier == "thorough"
    rnd = random.Random(c.seed)
    c.assumptions = ASSUME
    bindir = build.cargo_build("agent")
    rundir, exe = rig.prepare("c19", bindir)

    # 1. the design: every state of the three machines (and of the log machine with crash points)
    c.tlc("DiskBounds", "DiskBounds_log.cfg", workers=8, timeout=300,
          required_actions=["LogWriteNoRoll", "LogWriteRollKeep", "LogWriteRollTrim", "LogWriteRollFails",
                            "LogFaultOn", "LogFaultOff", "LogNoRoomOn", "LogNoRoomOff", "LogWriteNoRoomNoRoll",
                            "LogWriteNoRoomRoll", "Restart"])
    c.tlc("DiskBounds", "DiskBounds_loglist.cfg", workers=8, timeout=300,
          required_actions=["LogListingBreaks", "LogListingHeals", "LogWriteNoRoll", "LogWriteRollKeep",
                            "LogWriteRollTrim", "Restart"])
    c.tlc("DiskBounds", "DiskBounds_kill.cfg", workers=8, timeout=300,
          required_actions=["LogKilledInRoll", "LogWriteNoRoll", "LogWriteRollKeep", "LogWriteRollTrim", "Restart"])
    c.tlc("DiskBounds", "DiskBounds_event.cfg", workers=8, timeout=300,
          required_actions=["EvPush", "EvPushClosed", "EvTickIdle", "EvTickWrite", "EvTickDrop", "EvTickStopped",
                            "EvTickFails", "EvStopIdle", "EvStopWrite", "EvStopDrop", "EvStopFails",
                            "EvReaderRemove", "Restart"])
    c.tlc("DiskBounds", "DiskBounds_dumps.cfg", workers=8, timeout=300,
          required_actions=["DumpWriteKeep", "DumpWriteTrim", "DumpWriteSkipped", "DumpListingBreaks",
                            "DumpListingHeals", "Restart"])
    c.tlc("DiskBounds", "DiskBounds_crash.cfg", workers=8, timeout=600,
          required_actions=["LogKillBeforeAppend", "LogKillInArchive", "LogWriteRollTrim"])
    st0, tr0 = c.states, c.transitions
    wit = c.tlc("DiskBounds", "DiskBounds_crashwit.cfg", workers=4, timeout=300, expect_ok=False, coverage=False)
    c.states, c.transitions = st0, tr0
    if wit.invariant_violated != "LogCountLegalStrict":
        raise util.ToolError("crash-window witness: expected LogCountLegalStrict to fail with crash points")
    # design variants that TLC must REJECT under the environment faults (the bounds are the same invariants):
    # archive by copy + truncate with no room; write the new dump before the listing that may fail
    for cfg, inv, act in (("DiskBounds_variant_listfails.cfg", "LogCountBound", "LogWriteRollListingFails"),
                          ("DiskBounds_variant_copyroll.cfg", "LogCountBound", "LogWriteNoRoomCopyFails"),
                          ("DiskBounds_variant_writefirst.cfg", "DumpCountBound", "DumpWriteNoCleanup")):
        wit = c.tlc("DiskBounds", cfg, workers=4, timeout=300, expect_ok=False, coverage=False)
        c.states, c.transitions = st0, tr0
        if wit.invariant_violated != inv:
            raise util.ToolError("design-variant witness %s: expected %s to fail (%s)" % (cfg, inv, act))
        c.extra.setdefault("design_variants_rejected", []).append({"cfg": cfg, "violates": inv, "by": act})
    c.exhaustive = True

    # 2. behaviours from the spec (simulation, seeded): all machines interleaved + each machine alone
    plans = [("all", 14, 150 if thorough else 22), ("log", 14, 200 if thorough else 14),
             ("event", 12, 40 if thorough else 5), ("dumps", 10, 10 if thorough else 3),
             # directed: stop/restart cycles over full event directories; writes while the rename fails
             # ... ; a run killed inside a roll (real SIGKILL), the next runs rolling on
             ("evstop", 12, 60 if thorough else 8), ("logfault", 12, 40 if thorough else 6),
             ("rollkill", 14, 40 if thorough else 5),
             # ... ; flushes that fail after creating their temp file; crash loops of short runs
             ("evfail", 12, 60 if thorough else 10), ("shortruns", 14, 30 if thorough else 8),
             # ... ; no room on the log file system when a roll is due; rule-set changes while the listing fails
             ("noroom", 12, 40 if thorough else 5), ("dumpblind", 14, 40 if thorough else 6),
             # ... ; an entry of the log directory that cannot be stat()ed while writes roll
             ("logblind", 12, 40 if thorough else 5)]
    if thorough:
        plans += [("evfail", 30, 30), ("all", 40, 100), ("log", 60, 60), ("evstop", 30, 30), ("logfault", 30, 30), ("rollkill", 30, 20)]
    hists, directed = [], []

    def generate(k):
        machine, depth, num = plans[k]
        return c.tlc("DiskBoundsGen", "DiskBoundsGen.cfg", subdir="gen", workers=1, coverage=False, timeout=900,
                     simulate=num, depth=depth + 2, seed=c.seed + k,
                     env={"GEN_DEPTH": depth, "GEN_MACHINE": machine},
                     metadir=os.path.join(util.BUILD, "tlc", "c19gen_%d_%d" % (os.getpid(), k)))
    # the generator runs are independent single-worker TLC processes (each seeded by its position): a few at a time
    with concurrent.futures.ThreadPoolExecutor(max_workers=4) as pool:
        results = list(pool.map(generate, range(len(plans))))
    c.states, c.transitions = st0, tr0              # simulation walks are not state-space coverage
    for (machine, depth, num), res in zip(plans, results):
        hs = tlcmod.printed_json(res, "REPLAY")
        if not hs:
            raise util.ToolError("generator printed no behaviour for %s" % machine)
        if machine in ("evstop", "logfault", "rollkill", "evfail", "shortruns", "noroom", "dumpblind", "logblind"):
            directed += hs
        else:
            hists += hs

    def dedup(hs, seen):
        out = []
        for h in hs:
            key = json.dumps(h, sort_keys=True)
            if key not in seen:
                seen.add(key)
                out.append(h)
        return out
    seen = set()
    directed = dedup(directed, seen)
    uniq = dedup(hists, seen)
    rnd.shuffle(uniq)
    rnd.shuffle(directed)
    limit_n = 6000 if thorough else 420
    uniq = directed[:limit_n * 2 // 3] + uniq[:limit_n]           # the cut never removes a whole directed family
    # anti-vacuity of the two directed dimensions: the behaviours to replay contain graceful stops with events
    # queued over a full directory, and writes that need a roll while the rename fails
    cap = MODEL["cap"]
    stop_at_cap = sum(1 for h in uniq for i in range(1, len(h))
                      if h[i]["op"] == "stop" and h[i - 1]["q"] > 0 and h[i - 1]["ev"] + h[i - 1]["tmp"] >= cap)
    refusals = sum(1 for h in uniq for x in h[1:] if x.get("refused"))
    c.extra["stops_over_full_directory_replayed"] = stop_at_cap
    c.extra["writes_during_rename_fault_needing_a_roll_replayed"] = refusals
    kills = sum(1 for h in uniq for x in h[1:] if x["op"] == "kill")
    rolls_after_kill = sum(1 for h in uniq for i in range(2, len(h))
                           if h[i]["op"] == "write" and h[i - 1]["cur"] >= MODEL["limit"] // UNIT
                           and any(x["op"] == "kill" for x in h[1:i]))
    c.extra["kills_inside_a_roll_replayed"] = kills
    c.extra["rolls_after_a_kill_replayed"] = rolls_after_kill
    failed_flushes = sum(1 for h in uniq for x in h[1:] if x["op"] in ("tickfail", "stopfail"))
    flushes_over_leftovers = sum(1 for h in uniq for i in range(1, len(h))
                                 if h[i]["op"] in ("tick", "stop") and h[i - 1]["q"] > 0 and h[i - 1]["tmp"] > 0
                                 and h[i - 1]["ev"] + h[i - 1]["tmp"] >= cap)
    short_runs = sum(1 for h in uniq if sum(1 for x in h[1:] if x["op"] == "restart") >= MODEL["maxCount"] + 3)
    c.extra["failed_flushes_replayed"] = failed_flushes
    c.extra["flushes_over_directories_full_with_leftover_temp_files_replayed"] = flushes_over_leftovers
    c.extra["behaviours_with_more_restarts_than_max_count_plus_3"] = short_runs
    noroom_rolls = sum(1 for h in uniq for i in range(1, len(h))
                       if h[i]["op"] == "write" and h[i - 1].get("noroom") and h[i - 1]["cur"] >= MODEL["limit"] // UNIT
                       and not h[i - 1].get("pin"))
    noroom_after = sum(1 for h in uniq for i in range(2, len(h))
                       if h[i]["op"] == "write" and h[i - 1].get("noroom") and h[i - 1]["op"] == "write")
    blind_dumps = sum(1 for h in uniq for i in range(1, len(h)) if h[i]["op"] == "dump" and h[i - 1].get("blind"))
    blind_full = sum(1 for h in uniq for i in range(1, len(h)) if h[i]["op"] == "dump" and h[i - 1].get("blind")
                     and len(h[i - 1]["dumps"]) >= MODEL["maxDumps"])
    c.extra["rolls_without_room_replayed"] = noroom_rolls
    c.extra["writes_following_a_write_without_room_replayed"] = noroom_after
    c.extra["rule_set_changes_while_the_listing_fails_replayed"] = blind_dumps
    c.extra["of_which_with_the_configured_number_of_dumps_present"] = blind_full
    lblind_rolls = sum(1 for h in uniq for i in range(1, len(h))
                       if h[i]["op"] == "write" and h[i - 1].get("lblind") and h[i - 1]["cur"] >= MODEL["limit"] // UNIT
                       and not h[i - 1].get("pin"))
    lblind_rolls_full = sum(1 for h in uniq for i in range(1, len(h))
                            if h[i]["op"] == "write" and h[i - 1].get("lblind")
                            and h[i - 1]["cur"] >= MODEL["limit"] // UNIT and not h[i - 1].get("pin")
                            and len(h[i - 1]["arch"]) + 1 == MODEL["maxCount"])
    c.extra["rolls_with_an_unstatable_entry_in_the_log_directory_replayed"] = lblind_rolls
    c.extra["of_which_from_a_directory_holding_exactly_the_configured_count"] = lblind_rolls_full
    if lblind_rolls < 10 or lblind_rolls_full < 3:
        raise util.ToolError("generated behaviours do not exercise rolls with an unstat()able entry in the log "
                             "directory (%d, %d from a full legal directory)" % (lblind_rolls, lblind_rolls_full))
    if noroom_rolls < 5 or noroom_after < 10 or blind_dumps < 10 or blind_full < 5:
        raise util.ToolError("generated behaviours do not exercise rolls without room (%d, then %d more writes) / "
                             "rule-set changes under a failing listing (%d, %d at the bound)"
                             % (noroom_rolls, noroom_after, blind_dumps, blind_full))
    if failed_flushes < 5 or flushes_over_leftovers < 3 or short_runs < 3:
        raise util.ToolError("generated behaviours do not exercise failed flushes (%d), flushes over leftovers at the "
                             "cap (%d), crash loops (%d)" % (failed_flushes, flushes_over_leftovers, short_runs))
    if stop_at_cap < 3 or refusals < 10 or kills < 5 or rolls_after_kill < 10:
        raise util.ToolError("generated behaviours do not exercise stop-at-cap (%d) / refused writes (%d) / kills "
                             "inside a roll (%d) and rolls after them (%d)"
                             % (stop_at_cap, refusals, kills, rolls_after_kill))
    util.log("replaying %d generated behaviours" % len(uniq))

    segs, cases, drifts, notes = [], {}, [], []
    refused_seen = kills_seen = tmp_seen = 0
    t = util.Timer()
    for i, h in enumerate(uniq):
        case = {"conf": MODEL, "init": {k: h[0][k] for k in ("arch", "cur", "ev", "tmp", "dumps")},
                "steps": steps_of_hist(h, rnd), "expect": h}
        w, drift = run_behaviour(rundir, exe, "b", case, rnd)
        o = "gen%d" % i
        cases[o] = case
        for j, s in enumerate(w.segments()):
            segs.append((o, s))
        c.count(json.dumps([h[0]] + case["steps"], sort_keys=True) if w.nontrivial else None, n=len(case["steps"]))
        c.traces_validated += 1
        notes += w.notes
        refused_seen += w.refused
        kills_seen += w.kills
        tmp_seen = max(tmp_seen, w.tmp_seen)
        if drift:
            drifts.append(dict(drift, behaviour=o))
        if i == 0:
            c.sample({"kind": "generated behaviour (spec units; 1 unit = 64 bytes)", "init": case["init"],
                      "ops": [[s["op"], s.get("bytes", s.get("n", 0))] for s in case["steps"]],
                      "observed_last_line": w.rows[-1]})
    util.log("replay S->I: %d behaviours, %d drifts in %ss" % (len(uniq), len(drifts), t.s()))
    c.extra["behaviours_replayed"] = len(uniq)
    c.extra["writes_refused_by_the_real_logger"] = refused_seen
    c.extra["runs_killed_inside_a_roll_on_the_real_logger"] = kills_seen
    c.extra["most_leftover_temp_files_seen_in_the_real_event_directory"] = tmp_seen

    # 3. random histories, real constants (counts 5 / 30 / 5; the 10 MiB limit in the 'real' ones)
    nsmall, nops = (60, 400) if thorough else (10, 250)
    nbig = 4 if thorough else 1
    rand_refused = rand_stops_full = rand_kills = rand_blind = rand_lblind = 0
    for i in range(nsmall + nbig):
        big = i >= nsmall
        conf = dict(REAL) if big else dict(REAL, limit=rnd.choice([256, 1000, 4096]))
        steps = random_history(rnd, conf, 70 if big else nops, big=big)
        # the event directory found by the first run: empty, one below the cap, at the cap
        ev0 = [0, conf["cap"], conf["cap"] - 1][i % 3]
        tmp0 = [0, 2, 1, 0][i % 4]                            # some of them leftover temp files of failed flushes
        case = {"conf": conf, "init": {"arch": [], "cur": -1, "ev": max(ev0 - tmp0, 0), "tmp": min(tmp0, ev0),
                                       "dumps": []}, "steps": steps,
                "expect": None, "loggers": (("a", LOG_A), ("b", LOG_B))}
        w, _ = run_behaviour(rundir, exe, "r", case, rnd)
        o = "rand%d" % i
        cases[o] = case
        for s in w.segments():
            segs.append((o, s))
        c.count(json.dumps(steps, sort_keys=True) if w.nontrivial else None, n=len(steps))
        notes += w.notes
        rand_refused += w.refused
        rand_stops_full += w.stops_full
        rand_kills += w.kills
        rand_blind += w.blind_dumps
        rand_lblind += w.blind_rolls
        if i == 0 or big:
            c.sample({"kind": "random history, real counts" + (", real 10 MiB limit" if big else ""), "conf": conf,
                      "first_ops": steps[:12], "n_ops": len(steps), "observed_last_line": w.rows[-1]})
    shutil.rmtree(os.path.join(rundir, "r"), ignore_errors=True)
    c.extra["random_histories"] = nsmall + nbig
    c.extra["random_histories_writes_refused"] = rand_refused
    c.extra["random_histories_stops_over_full_directory"] = rand_stops_full
    c.extra["random_histories_runs_killed_inside_a_roll"] = rand_kills
    c.extra["random_histories_rule_set_changes_while_the_listing_fails"] = rand_blind
    c.extra["random_histories_rolls_with_an_unstatable_entry_in_the_log_directory"] = rand_lblind

    # 4. I->S: everything observed, against the property
    nrows = sum(len(r) for _, r in segs)
    util.log("validating %d observed lines (%d segments) against DiskBoundsTrace" % (nrows, len(segs)))
    rejected = validate_segments(c, segs, "c19_all")
    c.traces_validated += len({o for o, _ in segs}) - len({r.origin for r in rejected})
    c.extra["trace_lines_validated"] = nrows
    for o, why, _under in rejected:
        # re-execute the offending history alone, from its artefact; only a verdict that reproduces counts
        case = cases[o]
        w2, _ = run_behaviour(rundir, exe, "again", case, random.Random(c.seed))
        rej2 = validate_segments(c, [(o, s) for s in w2.segments()], "c19_again")
        if rej2:
            why2, under = rej2[0].why, rej2[0].under
            m = machine_of(why2)
            c.violation("%s: the observed directory contents break C19 (%s, environment: %s) on history %s"
                        % (m, why2, under, o),
                        {"machine": m, "broken": why2.split()[-1], "under": under},
                        {"kind": "history", "case": {k: v for k, v in case.items() if k != "expect"},
                         "rows": w2.rows[:400]})
        else:
            c.extra.setdefault("unreproduced", []).append({"history": o, "why": why})
    if c.extra.get("unreproduced"):
        raise util.ToolError("a rejected trace did not reproduce: %s" % c.extra["unreproduced"])

    # self-validation of the trace specification: a corrupted copy of an accepted segment must be rejected
    good = next((r for o, r in segs if o not in {x.origin for x in rejected} and len(r) > 3), None)
    if good is not None:
        bad = json.loads(json.dumps(good))
        bad[0]["files"], bad[0]["ev"], bad[0]["dumps"] = [], 0, []
        bad[1:] = [{"e": "write", "n": 64,
                    "files": [{"id": k + 1, "size": 64, "cur": int(k == bad[0]["maxCount"])}
                              for k in range(bad[0]["maxCount"] + 1)]}]
        st1, tr1 = c.states, c.transitions
        ok, why, _ = validate_trace(c, "DiskBoundsTrace", "DiskBoundsTrace.cfg", bad, "c19_selftest", count=0)
        c.states, c.transitions = st1, tr1
        if ok:
            raise util.ToolError("self-test: the trace specification accepted a directory with max+1 log files")
        c.extra["selftest_corrupted_trace_rejected"] = why

    if drifts:
        c.exhaustive = False
        c.extra["model_drift"] = {
            "count": len(drifts), "first": drifts[:5],
            "note": "listings that differ from the implementation-shaped spec; each was decided against the "
                    "property by trace validation (a violation only if DiskBoundsTrace rejects it)"}
    if notes:
        c.extra["op_notes"] = notes[:10]

    # 5. crash window, information only
    try:
        c.extra["crash_window"] = crash_window(rundir, exe, c)
    except util.ToolError as ex:
        c.extra["crash_window"] = {"skipped": str(ex)[:300]}
    try:
        c.extra["unstatable_entry_and_rolls"] = unstatable_entry_and_rolls(rundir, exe)
    except util.ToolError as ex:
        c.extra["unstatable_entry_and_rolls"] = {"skipped": str(ex)[:300]}
    c.states, c.transitions = st0, tr0
    shutil.rmtree(os.path.join(rundir, "b"), ignore_errors=True)
    c.rule = ("states/transitions: exhaustive TLC runs of DiskBounds (log, event, dumps, log+crash points) with "
              "max=3, limit=4, writes 1..6, directories pre-filled to and beyond the limits, the rename fault switched "
              "on and off anywhere (log), runs killed inside a roll and restarted, up to 2 kills per completed roll "
              "(kill; states identified up to the sizes of archived files), graceful stops of the event logger "
              "and flushes failing after the creation of their temp file anywhere, directories found with leftover "
              "temp files (event), no room on the log file system anywhere (log), the dump directory unlistable "
              "anywhere (dumps), an un-stat()able entry in the log directory anywhere (loglist), three design "
              "variants rejected by TLC as witnesses (listing that fails as a whole, copy + truncate roll, write "
              "before clean-up; not counted); S->I: behaviours "
              "simulated from the spec (seeded; undirected plus the directed families stop/restart cycles over full "
              "event directories, writes under the rename fault, runs killed inside a roll by a real SIGKILL, failed "
              "flushes over directories with leftover temp files, crash loops of short runs, rolls without room, "
              "rolls with an un-stat()able directory entry, "
              "rule-set changes under a failing listing) "
              "replayed on the real code, listing and accepted/refused compared after every operation; "
              "I->S: all observed lines plus seeded random histories with the real counts validated by TLC against "
              "the property; evaluations = operations executed on the real code; distinct_nontrivial = distinct "
              "operation sequences in which a bound was actually reached (log files = max, event files >= cap, "
              "dumps = max, a write refused because the roll failed, a run killed inside a roll)")


def replay(c, path):
    """re-execute one saved history and decide it against the property"""
    art = util.read_json(path)
    case = art["case"]["case"]
    case.setdefault("expect", None)
    if case.get("loggers"):
        case["loggers"] = tuple(tuple(x) for x in case["loggers"])
    c.assumptions = ASSUME
    bindir = build.cargo_build("agent")
    rundir, exe = rig.prepare("c19_replay", bindir)
    w, _ = run_behaviour(rundir, exe, "replay", case, random.Random(c.seed))
    rej = validate_segments(c, [("replay", s) for s in w.segments()], "c19_replay")
    c.count(json.dumps(case["steps"], sort_keys=True), n=len(case["steps"]))
    c.sample({"replayed": path, "observed_last_line": w.rows[-1]})
    c.rule = "re-execution of one saved history on the real code, validated against DiskBoundsTrace"
    if rej:
        why, under = rej[0].why, rej[0].under
        m = machine_of(why)
        c.violation("%s: the observed directory contents break C19 (%s, environment: %s)" % (m, why, under),
                    {"machine": m, "broken": why.split()[-1], "under": under}, art["case"])
    else:
        c.traces_validated += 1
