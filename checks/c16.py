"""C16 -- provisioning status is truthful under any arrival order.

spec/Provision.tla (one action per actor message of ProvisionSharedState, composites of provision.rs split at every
await, file system calls of write_provision_state) is model-checked exhaustively; TLC's behaviours (random complete
ones and every counterexample class of the statement's properties) are replayed S->I on the real code through the H5
gates (real redirector_ready / key_latched / key_latch_ready_state_reset / provision_timeup / ProxyServer::start and
GET /provision over TCP), file-step interleavings are forced with strace delay injection, and every recorded run --
replayed or chosen at random by the driver among what the implementation offers (I->S) -- is decided against the
*statement* by TLC with spec/trace/ProvisionTrace.tla.  A violation is reported only if it reproduces when its saved
schedule is executed once more."""
import concurrent.futures
import json
import os
import random
import subprocess

from vlib import build, rig, tlc as tlcmod, util
from vlib.ctx import validate_trace

ASSUME = [
    "TLC 1.8 and the CommunityModules Json/IOUtils are correct",
    "the H5 gates (verif::sched::point at the entry of the state-touching client calls of ProvisionSharedState) "
    "only delay a task; releasing one parked task at a time makes the order of actor messages the order of the schedule",
    "the key keeper's channel state is read in the same driver step as get_state (no gate between them): schedules with a "
    "latch change between the two reads are not generated",
    "the redirector, the listener and the key keeper are the three tasks of the service: key_latched, "
    "key_latch_ready_state_reset and provision_timeup are issued by one sequential task (key_keeper.rs loop_poll); "
    "HTTP queries are served only after ProxyServer::start returned from listener_started",
    "abstract clock index v of a tick value f: T[v] <= f < T[v+1] for the wall-clock readings T taken by the driver "
    "between steps (same clock source as the actor: misc_helpers::get_date_time_unix_nano)",
    "truthfulness is read in both directions for quiescent situations: a provisioning completed (all ready, or deadline "
    "handler) at or after the named instant with no key-latch reset begun since must be reported finished (QueryComplete)",
    "file-step interleavings are forced with strace delay injection on write/rename of status.tag(.tmp); a read(2)/"
    "write(2) of the short message is atomic with respect to the polling reader",
]

BITS = {"R": 1, "K": 2, "L": 4}
PREFIX = {"R": "ebpfProgramStatus - ", "K": "keyLatchStatus - ", "L": "proxyListenerStatus - "}
MSGTXT = {"R": "rd-not-ready", "K": "kk-not-ready", "L": "ls-not-ready"}
FUTURE = 1001
FILE_TAGS = ("CEXT", "CEXI")
PROP_OF_OK = {"q": "QueryTruthPos", "z": "QueryTruthZero", "c": "QueryComplete", "t": "TagAtomic"}
STRACE = ("strace -f -o {d}/strace.log -P {k}/status.tag.tmp -P {k}/status.tag {more}-e trace=write,rename,renameat,renameat2 "
          "-e inject=write:delay_enter={w} -e inject=rename,renameat,renameat2:delay_enter={r} ")


# ---------------------------------------------------------------------------------------------------------------------
# running the driver

PANICS = []


def run_driver(runs, name, bindir, *, strace=None, timeout=420, workers=6, _retry=False):
    d, exe = rig.prepare(name, bindir)
    os.makedirs(os.path.join(d, "varlog"), exist_ok=True)
    sp = os.path.join(d, "script.json")
    out = os.path.join(d, "trace.ndjson")
    with open(sp, "w") as f:
        json.dump({"port": 3080, "workers": workers, "runs": runs}, f)
    env = dict(os.environ, VERIF_CMD="provision", VERIF_SCRIPT=sp, VERIF_OUT=out, RUST_BACKTRACE="0")
    pre, ns = "", ["unshare", "-n", "-m"]
    if strace:
        # per-writer temp files are named status.tag.tmp.<pid>.<seq>: a private pid namespace makes <pid> small and
        # predictable, so the path filter can list the names (strace injects only into calls matching -P)
        k = os.path.join(d, "keys")
        more = "".join("-P %s/status.tag.tmp.%d.%d " % (k, pid, seq) for pid in range(2, 16) for seq in range(0, 4))
        pre = STRACE.format(d=d, k=k, w=strace[0] * 1000, r=strace[1] * 1000, more=more)
        ns = ["unshare", "-n", "-m", "-p", "-f", "--mount-proc"]
    # private network namespace (the proxy port, 168.63.129.16 unreachable) and a private /var/log (the status task the
    # real code starts on ALL_READY writes /var/log/azure-proxy-agent/), /dev/console muted
    sh = ("ip link set lo up && mount --bind %s/varlog /var/log && mount --bind /dev/null /dev/console && exec %s%s"
          % (d, pre, exe))
    try:
        p = subprocess.run(ns + ["sh", "-c", sh], env=env, cwd=d, stdout=subprocess.PIPE,
                           stderr=subprocess.STDOUT, timeout=timeout, text=True, errors="replace")
    except subprocess.TimeoutExpired:
        raise util.ToolError("provision driver %s timed out after %ss" % (name, timeout))
    ev = util.read_ndjson(out) if os.path.exists(out) else []
    if p.returncode != 0 or not ev or ev[-1].get("e") != "Done":
        raise util.ToolError("provision driver %s failed rc=%s (%d events):\n%s" % (name, p.returncode, len(ev), p.stdout[-3000:]))
    panics = [e for e in ev if e.get("e") == "Panic"]
    if panics:
        # a panic outside the provisioning code (e.g. the logger) is not this property's business: note it, run the
        # batch once more; a panic in the code under test or a second one is a tool error (C13 owns panics)
        PANICS.append({"location": panics[0].get("location"), "message": str(panics[0].get("message"))[:200]})
        own = any("provision" in str(e.get("location")) or "vdrv" in str(e.get("location")) for e in panics)
        if own or _retry:
            raise util.ToolError("panic in provision driver run %s: %s" % (name, panics[:2]))
        return run_driver(runs, name, bindir, strace=strace, timeout=timeout, workers=workers, _retry=True)
    by = {}
    for e in ev:
        if "run" in e and e["e"] != "Done":
            by.setdefault(e["run"], []).append(e)
    return by


def run_batches(runs, name, bindir, par=6, per=40):
    """many replay/auto runs, `per` per process, `par` processes at a time"""
    chunks = [runs[i:i + per] for i in range(0, len(runs), per)]
    res = {}
    with concurrent.futures.ThreadPoolExecutor(max_workers=par) as ex:
        futs = [ex.submit(run_driver, ch, "%s_%d" % (name, n), bindir) for n, ch in enumerate(chunks)]
        for f in futs:
            res.update(f.result())
    return res


# ---------------------------------------------------------------------------------------------------------------------
# projecting a recorded run onto the vocabulary of the trace specification

def shown(msg):
    """a module status message as AgentStatusSharedState::get_module_status hands it out (cut at 1024 bytes on a
    character boundary, '...')"""
    b = msg.encode("utf-8")
    if len(b) <= 1024:
        return msg
    end = 1024
    while end > 0 and (b[end] & 0xC0) == 0x80:
        end -= 1
    return b[:end].decode("utf-8") + "..."


def xml_escape(t):
    return t.replace("&", "&amp;").replace("'", "&apos;").replace('"', "&quot;").replace("<", "&lt;").replace(">", "&gt;")


def names_of_msg(text, msgs=None, escaped=False):
    """error text -> set of subsystems it names, None if it is not a concatenation of complete lines (one per
    subsystem, redirector / key latch / listener order, each carrying that module's status message)"""
    msgs = msgs or MSGTXT
    names, rest = [], text
    for s in ("R", "K", "L"):
        line = PREFIX[s] + (xml_escape(shown(msgs[s])) if escaped else shown(msgs[s])) + "\r\n"
        if rest.startswith(line):
            names.append(s)
            rest = rest[len(line):]
        elif s == "L" and rest.startswith(PREFIX[s]) and rest.endswith("\r\n") and rest.count("\r\n") == 1:
            names.append(s)      # the listener's own status text (set by ProxyServer::start)
            rest = ""
    return names if rest == "" else None


def tag_rec(content, msgs=None):
    if content is None:
        return {"k": "absent", "n": []}
    n = names_of_msg(content, msgs, escaped=True)       # write_provision_state xml-escapes what it writes
    return {"k": "file", "n": n} if n is not None else {"k": "garbage", "n": []}


def flag_names(bits):
    return [s for s in ("R", "K", "L") if bits & BITS[s]]


def abs_index(T, v):
    if v == 0:
        return 0
    j = 0
    for k, t in enumerate(T):
        if t <= v:
            j = k + 1
    return j


START_OF = {"U": "upd", "R": "reset", "T": "tstate", "Q": "qfin"}


def rows_of(run_id, events):
    """rows for ProvisionTrace + per-message observation records (for the S->I comparison and the artefacts)"""
    rows, obs, T, desync, msgs = [{"e": "run", "id": str(run_id)}], [], [], None, None
    for e in events:
        k = e["e"]
        if k == "Run":
            T = [int(e["T"])]
            msgs = e.get("msgs")
        elif k == "Tick":
            T.append(int(e["T"]))
            rows.append({"e": "tick"})
            obs.append({"t": "env", "i": 0, "a": "tick", "x": "-"})
        elif k == "Desync":
            desync = e["why"]
        elif k == "Skip":
            obs.append({"t": e["t"], "i": e["i"], "a": "skip", "x": "-", "exp": e["a"]})
        elif k == "TagObs":
            for o in e["obs"]:
                rows.append({"e": "tagobs", "tag": tag_rec(o["tag"], msgs), "ino": o.get("ino", 0), "sameino": bool(o.get("tag_same_inode")),
                             "changed": bool(o.get("tag_changed")), "oldfd": o.get("tag_oldfd") is not None})
            obs.append({"t": "-", "i": 0, "a": "tagobs", "x": "-", "seen": [o["tag"] for o in e["obs"]]})
        elif k == "Step":
            fin = abs_index(T, int(e["fin"]))
            env_step = "g" not in e
            op = "E" if env_step else e["op"]
            g = e["a"] if env_step else e["g"]
            done = (e["out"] == "done") and not env_step
            first = (not env_step) and e.get("stage") == 1
            r = {"e": "step", "t": e["t"], "i": e["i"], "op": op, "g": g, "first": first, "done": done,
                 "x": "-" if env_step else e.get("sub", "-"), "flags": flag_names(e["flags"]), "fin": fin,
                 "latch": bool(e["latch"]), "tag": tag_rec(e["tag"], msgs), "sameino": bool(e.get("tag_same_inode")),
                 "changed": bool(e.get("tag_changed")), "oldfd": e.get("tag_oldfd") is not None, "wait": False, "sameq": True, "answered": True, "anyfin": True}
            o = {"t": e["t"], "i": e["i"], "a": e["a"], "x": e["x"], "op": op, "g": g, "stage": e.get("stage", 0),
                 "flags": r["flags"], "fin": fin, "tag": r["tag"], "out": e["out"], "nowait": bool(e.get("nowait")),
                 "extra": bool(e.get("extra")), "exp": e.get("exp", "-"), "tag_raw": e["tag"], "tag_ino": e.get("tag_ino"),
                 "tag_oldfd": e.get("tag_oldfd")}
            if op == "Q":
                qk = e.get("qkind")
                if qk == "wait":
                    # the real client: the instant it was created with is what its first poll carried, between the two
                    # clock readings taken around ProvisionQuery::new; every poll must carry exactly that
                    polls = e.get("polls", [])
                    lo, hi = int(e["created_between"][0]), int(e["created_between"][1])
                    ticks = [p_["tick"] for p_ in polls]
                    ok = all(t_ is not None and t_.lstrip("-").isdigit() and lo <= int(t_) <= hi for t_ in ticks)
                    e = dict(e, q=str(ticks[0] if ticks and ok else hi))
                    r["wait"] = True
                    r["sameq"] = bool(ok and len(set(ticks)) <= 1)
                    r["answered"] = bool(e.get("answered", len(polls)))
                    r["anyfin"] = bool(e.get("said_finished", True))
                    o["polls"] = [[p_["tick"], p_["notify"], "dropped" if p_.get("dropped") else "answered"] for p_ in polls]
                    o["env"] = e.get("env")
                qv = int(e["q"])     # by value: a later poll of a waiting query repeats the tick of the first
                q = 0 if qk in ("zero", "nohdr", "neg") or qv <= 0 else FUTURE if qk == "future" or qv > T[-1] + 10 ** 12 else abs_index(T, qv)
                r["q"] = q
                o["q"] = q
                o["qkind"] = qk
                if done:
                    if e.get("status") != 200:
                        raise util.ToolError("query %s of run %s: HTTP status %s %s" % (e["i"], run_id, e.get("status"), e.get("err")))
                    body = json.loads(e["body"])
                    nm = names_of_msg(body["errorMessage"], msgs)
                    ans = {"finished": bool(body["finished"]), "names": nm if nm is not None else ["?"], "lat": bool(e["latch"])}
                    r.update(ans)
                    o.update(ans, raw=body["errorMessage"])
            rows.append(r)
            obs.append(o)
    return rows, obs, desync


def schedule_of(obs, rows):
    """the task-order schedule that was actually executed (an artefact the driver can run again)"""
    steps = []
    for o in obs:
        if o["a"] in ("tagobs", "skip") or o.get("extra"):
            continue
        if o["a"] in ("tick", "latch"):
            steps.append({"t": "env", "i": 0, "a": o["a"], "x": o["x"]})
        elif o.get("stage") == 1:
            s_ = {"t": o["t"], "i": o["i"], "a": o["a"] if o["a"] in ("ask", "waitq", "wpoll") else START_OF.get(o["op"], "cont"), "x": o["x"]}
            if o["a"] == "waitq":
                s_["polls"] = 5
                env_ = o.get("env") or {}
                s_.update(drop=env_.get("drop_first", 0), late_ms=env_.get("late_ms", 0), down=bool(env_.get("down")))
            if o["op"] == "Q":
                s_["x"] = "future" if o["q"] == FUTURE else "zero" if o["q"] == 0 else "past"
                s_["q"] = {"q": o["q"]}
            steps.append(s_)
        else:
            s_ = {"t": o["t"], "i": o["i"], "a": "cont", "x": "-"}
            if o.get("nowait"):
                s_.update(nowait=True, observe=True)
            steps.append(s_)
    return steps


def compare(hist, obs, with_tag=True):
    """S->I: what the specification expected after every actor message vs what the real code showed.  The replay
    follows the implementation wherever it goes, so after the first message that differs the two are no longer
    aligned: the comparison stops there (the run is still decided against the statement)."""
    mism = []
    steps = [s for s in hist if s["a"] not in ("wopen", "wwrite", "wrename", "qchan")]
    answers = {}          # per query, the expected answers of its polls in order
    for s in hist:
        if s["a"] == "qchan":
            answers.setdefault(s["i"], []).append(s["q"])
    ob = [o for o in obs if o["a"] != "tagobs" and not o.get("extra")]
    for k, (s, o) in enumerate(zip(steps, ob)):
        if s["a"] != o["a"] or s["t"] != o["t"] or s["i"] != o["i"]:
            mism.append((k, "message", "%s.%s" % (s["t"], s["a"]), "%s.%s" % (o["t"], o["a"])))
            break
        if s["a"] == "tick" or o.get("nowait"):
            continue
        if sorted(s["flags"]) != sorted(o["flags"]):
            mism.append((k, "flags", s["flags"], o["flags"]))
        if s["fin"] != o["fin"]:
            mism.append((k, "finished_tick", s["fin"], o["fin"]))
        if with_tag and (s["tag"]["k"] != o["tag"]["k"] or sorted(s["tag"]["n"]) != sorted(o["tag"]["n"])):
            mism.append((k, "status.tag", s["tag"], o["tag"]))
        if o.get("op") == "Q" and "finished" in o and answers.get(o["i"]):
            want = answers[o["i"]].pop(0)
            if want["finished"] != o["finished"]:
                mism.append((k, "finished", want["finished"], o["finished"]))
            if sorted(want["names"]) != sorted(o["names"]):
                mism.append((k, "error_text", want["names"], o["names"]))
        if s["t"] in ("rd", "ls", "kk"):
            want = {"setfin": "provision.set_provision_finished", "wstate": "provision.get_state"}.get(s["pc"], "done")
            if want != o["out"]:
                mism.append((k, "next_gate", want, o["out"]))
    if not mism and len(ob) != len(steps):
        mism.append((min(len(ob), len(steps)), "length", len(steps), len(ob)))
    return mism


def race_of(hist, gap_ms):
    """a file-step counterexample as a gated schedule.  A writer's get_state is followed by its file system calls
    without a gate, so the writer is released without waiting (strace delays its write and rename).  A writer whose
    open() must come after another writer's non-empty write() ("late") is released where its open() is in the
    counterexample, gap_ms after the first release -- legal only if the flags are the same there."""
    msg = {s["t"]: [x for x in ("R", "K", "L") if x not in s["flags"]] for s in hist if s["a"] == "wstate"}
    late, written = set(), set()
    for s in hist:
        if s["a"] == "wwrite" and msg.get(s["t"]):
            written.add(s["t"])
        if s["a"] == "wopen" and (written - {s["t"]}):
            late.add(s["t"])
    out, held, nrel, flags = [], {}, 0, []
    for s in hist:
        if s["a"] == "wstate" and s["t"] in late:
            held[s["t"]] = s
        elif s["a"] == "wstate":
            out.append(dict(s, nowait=True, observe=True))
            nrel += 1
        elif s["a"] == "wopen" and s["t"] in held:
            w = dict(held.pop(s["t"]))
            if sorted(w["flags"]) != sorted(flags):
                return None
            w.update(nowait=True, observe=True, at_ms=gap_ms)
            nrel += 1
            out.append(w)
        elif s["a"] in ("wopen", "wwrite", "wrename"):
            continue
        else:
            out.append(s)
        flags = s["flags"]
    return out if nrel >= 1 and not held else None


def label(steps):
    return " ".join("%s%s.%s%s" % (s["t"], s["i"] or "", s["a"], "(%s)" % s["x"] if s.get("x", "-") != "-" else "")
                    for s in steps)


def signature(prop, rows, race_writers=0):
    if prop == "QueryTruthZero":
        return {"kind": "zero-tick-query-reports-finished"}
    if prop == "QueryTruthPos":
        return {"kind": "premature-finished"}
    if prop == "TagInPlace":
        return {"kind": "tag-modified-in-place"}
    if prop == "WaitQueryUnanswered":
        return {"kind": "waiting-query-finished-without-an-answer"}
    if prop == "WaitQueryInstant":
        return {"kind": "waiting-query-instant-not-constant"}
    if prop == "TagVanished":
        return {"kind": "tag-removed-before-replacement"}
    if prop in ("TagAtomic", "TagRenameOnly"):
        if race_writers >= 2:
            return {"kind": "shared-tag-tmp"}
        if race_writers == 0 and prop == "TagAtomic":
            return {"kind": "tag-content-not-a-complete-message"}
        return {"kind": "tag-not-replaced-atomically", "writers": race_writers}
    return {"kind": {"QueryComplete": "finished-not-reported", "ErrorText": "error-text-not-exact",
                     "FinishedOnlyAfter": "finished-without-cause"}.get(prop, prop)}


# ---------------------------------------------------------------------------------------------------------------------

def tag_histories():
    """directed schedules for the status file: the deadline passes with one subsystem missing (non-empty status.tag),
    the missing subsystem reports later (the tag becomes the empty success marker); then a key latch reset, a second
    deadline (non-empty again) and a re-latch (empty again).  status.tag is looked at after every step by a reader
    that keeps the previous file open."""
    sub = {"rd": "R", "ls": "L", "kk": "K"}
    out = []

    def whole(t, a):
        return [{"t": t, "i": 0, "a": a, "x": sub[t] if a != "tstate" else "-"}, {"t": t, "i": 0, "a": "drain", "x": "-"}]
    tick = {"t": "env", "i": 0, "a": "tick", "x": "-"}
    for missing in ("rd", "ls", "kk"):
        st = []
        for t in ("rd", "ls", "kk"):
            if t != missing:
                st += whole(t, "upd")
        st += [tick] + whole("kk", "tstate") + [tick] + whole(missing, "upd") + [tick]
        st += whole("kk", "reset") + whole("kk", "tstate") + [tick] + whole("kk", "upd")
        out.append(st)
    return out


def text_histories():
    """directed schedules for the error text, all plain sequential steps (queries are not held at any gate): the
    deadline passes with two subsystems missing, a query, one of them reports ready, a query, the other reports, a
    query; then a key latch reset, a query, a second deadline, a query, a re-latch, a query.  Every answer is compared
    with what the subsystems had reported at that moment."""
    sub = {"rd": "R", "ls": "L", "kk": "K"}
    out = []

    def whole(t, a):
        return [{"t": t, "i": 0, "a": a, "x": sub[t] if a != "tstate" else "-"}, {"t": t, "i": 0, "a": "drain", "x": "-"}]
    tick = {"t": "env", "i": 0, "a": "tick", "x": "-"}
    for first, second in (("rd", "kk"), ("kk", "rd")):
        for deadline_first in (True, False):
            n = [0]

            def ask(q):
                n[0] += 1
                return [{"t": "q", "i": n[0], "a": "ask", "x": "past", "q": {"q": q}}]
            st = whole("ls", "upd") + ask(1)
            if deadline_first:
                st += [tick] + whole("kk", "tstate") + ask(1) + ask(2)
                st += [tick] + whole(first, "upd") + ask(1) + [tick] + whole(second, "upd") + ask(1) + ask(4)
            else:
                st += [tick] + whole(first, "upd") + ask(1) + [tick] + whole("kk", "tstate") + ask(1)
                st += [tick] + whole(second, "upd") + ask(1) + ask(4)
            st += [tick] + whole("kk", "reset") + ask(1) + whole("kk", "tstate") + ask(1) + [tick] + whole("kk", "upd") + ask(1)
            out.append(st)
    return out


def wait_histories():
    """directed schedules for the waiting client (`--status --wait`): the real ProvisionQuery against the real listener,
    several polls, the key keeper not serving the notification.  A stale finish (by deadline with a subsystem missing, or
    by all three ready) lies before the instant the query is created with; nothing finished; channel latched."""
    sub = {"rd": "R", "ls": "L", "kk": "K"}

    def whole(t, a):
        return [{"t": t, "i": 0, "a": a, "x": sub[t] if a != "tstate" else "-"}, {"t": t, "i": 0, "a": "drain", "x": "-"}]
    tick = {"t": "env", "i": 0, "a": "tick", "x": "-"}

    def waitq(i, polls=4, **env):
        return [dict({"t": "q", "i": i, "a": "waitq", "x": "-", "polls": polls}, **env)]
    ask = [{"t": "q", "i": 7, "a": "ask", "x": "past", "q": {"q": 1}}]
    out = []
    out.append(whole("ls", "upd") + whole("rd", "upd") + [tick] + whole("kk", "tstate") + [tick] + waitq(1) + ask + [tick] + waitq(2, 2))
    out.append(whole("ls", "upd") + whole("kk", "upd") + [tick] + whole("kk", "tstate") + [tick] + waitq(1) + ask)
    out.append(whole("ls", "upd") + whole("rd", "upd") + whole("kk", "upd") + [tick, tick] + waitq(1) + ask)
    out.append(whole("ls", "upd") + [tick] + waitq(1, 3) + whole("rd", "upd") + waitq(2, 2))
    out.append(whole("ls", "upd") + [{"t": "env", "i": 0, "a": "latch", "x": "on"}, tick] + waitq(1, 2))
    # the listener is not reachable for the first polls (no answer / connection refused), then reachable; or never
    out.append(whole("ls", "upd") + [tick] + waitq(1, 5, drop=1) + ask)
    out.append(whole("ls", "upd") + whole("rd", "upd") + [tick] + waitq(1, 5, drop=2) + waitq(2, 3))
    out.append(whole("ls", "upd") + [tick] + waitq(1, 5, late_ms=150) + ask)
    out.append(whole("ls", "upd") + [tick] + waitq(1, 3, down=True) + waitq(2, 1, down=True) + ask)
    out.append([tick] + waitq(1, 3, down=True) + whole("ls", "upd") + waitq(2, 2))
    out.append(whole("ls", "upd") + whole("rd", "upd") + [tick] + whole("kk", "tstate") + [tick] + waitq(1, 5, drop=1))
    out.append(whole("ls", "upd") + [{"t": "env", "i": 0, "a": "latch", "x": "on"}, tick] + waitq(1, 4, drop=1))
    return out


def long_messages():
    """module status messages around the 1024-byte limit of the agent status (900..1100 bytes, ASCII and multi-byte
    with the cut falling inside a character), as the redirector's eBPF loader output or a key keeper error would be"""
    def fill(unit, n):
        out = ""
        while len((out + unit).encode("utf-8")) <= n:
            out += unit
        return out
    sets = []
    for n in (900, 1000, 1023, 1024, 1025, 1100):
        sets.append({"R": fill("bpf verifier: R1 invalid mem access 'scalar'; ", n), "K": "kk-not-ready", "L": "ls-not-ready"})
    sets.append({"R": "rd-not-ready", "K": fill("key status 503 from 168.63.129.16, retrying; ", 1100), "L": "ls-not-ready"})
    sets.append({"R": fill("x", 1023) + "\u00e9\u00e9", "K": fill("\u6f22\u5b57", 1000), "L": fill("bind 127.0.0.1:3080 failed \u2014 ", 1050)})
    sets.append({"R": fill("\u6f22", 1100), "K": fill("y", 950), "L": fill("z", 1024)})
    sets.append({"R": fill("r", 1030), "K": fill("k", 1030), "L": fill("l", 1030)})
    return sets


def text_subsets(msgs):
    """sequential schedules that make every subset of subsystems the not-ready set of some error text: in status.tag
    (deadline handler; also before the listener is up, so the listener can be among them) and in query answers"""
    sub = {"rd": "R", "ls": "L", "kk": "K"}

    def whole(t, a):
        return [{"t": t, "i": 0, "a": a, "x": sub[t] if a != "tstate" else "-"}, {"t": t, "i": 0, "a": "drain", "x": "-"}]
    tick = {"t": "env", "i": 0, "a": "tick", "x": "-"}
    n = [0]

    def ask():
        n[0] += 1
        return [{"t": "q", "i": n[0], "a": "ask", "x": "past", "q": {"q": 1}}]
    out = []
    # tag {R,K,L}; answers {R,K}, {K}; tag {K}; answer {}
    out.append([tick] + whole("kk", "tstate") + whole("ls", "upd") + ask() + whole("rd", "upd") + ask() + whole("kk", "tstate")
               + whole("kk", "upd") + ask())
    n[0] = 0
    # answers {R,K}, {R}; tag {R}; reset: answer {R,K}, tag {R,K}; answer {K}
    out.append(whole("ls", "upd") + ask() + whole("kk", "upd") + ask() + [tick] + whole("kk", "tstate") + whole("kk", "reset") + ask()
               + whole("kk", "tstate") + whole("rd", "upd") + ask())
    n[0] = 0
    # tags {K,L}, {L}; then {R,L} needs another run
    out.append(whole("rd", "upd") + [tick] + whole("kk", "tstate") + whole("kk", "upd") + whole("kk", "tstate") + whole("ls", "upd") + ask())
    n[0] = 0
    out.append(whole("kk", "upd") + [tick] + whole("kk", "tstate") + whole("ls", "upd") + ask() + whole("kk", "reset") + ask())
    return [{"steps": st, "msgs": msgs} for st in out]


def overtake_probes():
    """directed I->S schedules: a readiness report (all its messages) lands between two consecutive messages of another
    task -- after the 1st, 2nd or 3rd message of the victim, whatever those messages are in the implementation --
    once completing ALL_READY and once not; afterwards queries name instants before, during and after."""
    sub = {"rd": "R", "ls": "L", "kk": "K"}
    victims = [("kk", "reset"), ("kk", "tstate"), ("kk", "upd"), ("rd", "upd"), ("ls", "upd"), ("q", "qfin")]
    out = []

    def whole(t, a, x=None, i=0, q=None):
        s_ = {"t": t, "i": i, "a": a, "x": x or sub.get(t, "-")}
        if q is not None:
            s_["q"] = {"q": q}
        return [s_, {"t": t, "i": i, "a": "drain", "x": "-"}]
    tick = {"t": "env", "i": 0, "a": "tick", "x": "-"}
    for vt, va in victims:
        for ot in ("rd", "ls", "kk"):
            if ot == vt:
                continue
            for gap in (1, 2, 3):
                for full in (True, False):
                    pre = [t for t in ("rd", "ls", "kk") if t != ot and not (t == vt and va == "upd")]
                    if vt == "q" and ot == "ls":
                        continue
                    if not full:
                        drop = [t for t in pre if not (vt == "q" and t == "ls") and not (va == "reset" and t == "kk")]
                        if not drop:
                            continue
                        pre = [t for t in pre if t != drop[0]]
                    steps = []
                    for t in pre:
                        steps += whole(t, "upd")
                    steps.append(tick)                                                   # clock 2
                    vi = 5 if vt == "q" else 0
                    steps.append({"t": vt, "i": vi, "a": va, "x": "past" if vt == "q" else sub.get(vt, "-"), "q": {"q": 1}})
                    steps += [{"t": vt, "i": vi, "a": "cont", "x": "-"}] * (gap - 1)
                    steps += whole(ot, "upd")
                    steps.append(tick)                                                   # clock 3
                    steps.append({"t": vt, "i": vi, "a": "drain", "x": "-"})
                    if "ls" not in pre and ot != "ls" and vt != "ls":
                        steps += whole("ls", "upd")
                    steps.append(tick)                                                   # clock 4
                    steps += whole("q", "qfin", "past", 1, 1) + whole("q", "qfin", "past", 2, 3) + whole("q", "qfin", "exact", 3)
                    steps += whole("q", "qfin", "past", 4, 4)
                    out.append(steps)
    return out


def verdicts(c, rows, name, count, chunk_runs=350):
    """TLC decides every recorded run against the statement; {run id: [names of the parts that fail]}"""
    groups, cur = [], []
    for r in rows:
        if r["e"] == "run" and len([x for x in cur if x["e"] == "run"]) >= chunk_runs:
            groups.append(cur)
            cur = []
        cur.append(r)
    groups.append(cur)
    v = {}
    for n, g in enumerate(groups):
        ok, why, res = validate_trace(c, "ProvisionTrace", "ProvisionTrace.cfg", g + [{"e": "end"}],
                                      "%s_%d" % (name, n), count=0, timeout=900, heap="3g")
        if not ok:
            raise util.ToolError("ProvisionTrace could not follow the recorded runs (%s): %s" % (name, why))
        for x in tlcmod.printed_json(res, "VERDICT"):
            v[x["run"]] = sorted(x["viol"])
    c.traces_validated += count
    return v


def run(c):
    thorough = c.tier == "thorough"
    rnd = random.Random(c.seed)
    c.assumptions = ASSUME
    bindir = build.cargo_build("agent")

    # 1. the design, exhaustively -----------------------------------------------------------------------------------
    acts = ["Tick", "SetLatch", "Upd", "Reset", "TState", "SetFin", "WState", "QFin", "QState", "QChan"]
    c.tlc("Provision", "Provision_q.cfg", workers=8, required_actions=acts + ["WPoll", "QRefused", "WRefused"], timeout=900)
    # a design variant TLC must reject: a poll without an answer makes the waiting client return 'finished'
    vl = c.tlc("Provision", "Provision_variant_l.cfg", workers=4, coverage=False, expect_ok=False, timeout=300)
    if vl.invariant_violated != "QueryTruth":
        raise tlcmod.TlcError("the design variant 'a refused poll makes the answer finished' was not rejected")
    c.tlc("Provision", "Provision_tag.cfg", workers=8, required_actions=["Upd", "TState", "SetFin", "WState", "FileStep"],
          timeout=600)
    if thorough:
        c.tlc("Provision", "Provision_q2.cfg", workers=8, required_actions=acts, timeout=3000, heap="8g")
    # antecedents are reachable (a query answered 'finished' because of the tick comparison exists)
    w = c.tlc("Provision", "Provision_witness.cfg", workers=4, coverage=False, expect_ok=False, timeout=300)
    if w.invariant_violated != "NoQueryFinishedByTick":
        raise tlcmod.TlcError("vacuity: no query is ever answered 'finished' by the tick comparison")

    # 2. regression schedules: every class of state in which the statement failed on the design *before* the repairs
    #    (Fix = {}), with one shortest schedule each; they are driven through the current code like any other ---------
    cands = []     # (class, property, hist)
    for cfg, tag, prop in (("ProvisionGen_cexq.cfg", "CEXQ", "QueryTruthPos"), ("ProvisionGen_cexz.cfg", "CEXZ", "QueryTruthZero"),
                           ("ProvisionGen_cext.cfg", "CEXT", "TagAtomic"), ("ProvisionGen_cexi.cfg", "CEXI", "TagRenameOnly")):
        res = c.tlc("ProvisionGen", cfg, subdir="gen", workers=1, coverage=False, timeout=600)
        hs = tlcmod.printed_json(res, tag)
        c.extra.setdefault("design_counterexamples", {})[prop] = len(hs)
        for h in hs:
            cands.append((tag, prop, h))
    c.extra["design_note"] = ("design_counterexamples: classes of interleavings that break the statement on the design without "
                              "the repairs 'stale', 'zero', 'tmp' (spec constant Fix = {}); kept as regression schedules, each "
                              "is decided by driving it through the real code")

    # 3. S->I: complete random behaviours of the specification --------------------------------------------------------
    nsim = 3000 if thorough else 260
    res = c.tlc("ProvisionGen", "ProvisionGen.cfg", subdir="gen", workers=1, coverage=False, simulate=nsim, depth=90,
                seed=c.seed, timeout=900, deadlock=True)
    hists = tlcmod.printed_json(res, "REPLAY")
    if len(hists) < nsim // 2:
        raise util.ToolError("generator printed only %d behaviours" % len(hists))
    seen, uniq = set(), []
    for h in hists:
        key = label(h)
        if key not in seen:
            seen.add(key)
            uniq.append(h)
    hists = uniq[: (4000 if thorough else 320)]
    runs, meta = [], {}
    for n, h in enumerate(hists):
        rid = "sim%d" % n
        runs.append({"id": rid, "mode": "replay", "steps": h})
        meta[rid] = {"hist": h, "kind": "sim"}
    for n, (tag, prop, h) in enumerate(cands):
        if tag in FILE_TAGS:
            continue
        rid = "%s%d" % (tag.lower(), n)
        runs.append({"id": rid, "mode": "replay", "steps": h})
        meta[rid] = {"hist": h, "kind": "cex", "prop": prop}
    # 4. I->S: the driver picks at random among what the implementation offers
    nauto = 1200 if thorough else 120
    for n in range(nauto):
        rid = "auto%d" % n
        kk = [rnd.choice("URT") for _ in range(rnd.randint(1, 5))]
        if "U" not in kk:
            kk.insert(rnd.randint(0, len(kk)), "U")
        spec = {"id": rid, "mode": "auto", "seed": rnd.randrange(1 << 30), "kk": kk, "rd": 1,
                "queries": [rnd.choice(["past", "past", "exact", "future"]) for _ in range(rnd.randint(1, 4))],
                "ticks": rnd.randint(0, 4), "latch": rnd.choice([0, 0, 1, 2])}
        runs.append(spec)
        meta[rid] = {"kind": "auto", "spec": spec}
    # 4b. I->S, directed: a readiness report overtakes between any two consecutive messages of another task
    probes = tag_histories() + text_histories() + wait_histories() + overtake_probes()
    for n, st in enumerate(probes):
        rid = "probe%d" % n
        runs.append({"id": rid, "mode": "replay", "steps": st})
        meta[rid] = {"kind": "probe", "steps": st}
    # 4c. the error text with long / multi-byte module status messages, every subset of not-ready subsystems
    ntext = 0
    for m_ in long_messages():
        for t_ in text_subsets(m_):
            rid = "text%d" % ntext
            ntext += 1
            runs.append({"id": rid, "mode": "replay", "steps": t_["steps"], "msgs": m_})
            meta[rid] = {"kind": "probe", "steps": t_["steps"], "msgs": m_}
    by = run_batches(runs, "c16", bindir)
    missing = [r["id"] for r in runs if r["id"] not in by]
    if missing:
        raise util.ToolError("driver produced no events for runs %s" % missing[:5])

    allrows, robs, drift, desyncs = [], {}, [], []
    for r in runs:
        rows, obs, desync = rows_of(r["id"], by[r["id"]])
        robs[r["id"]] = (rows, obs)
        allrows += rows
        m = meta[r["id"]]
        if desync:
            desyncs.append((r["id"], desync))
        if "hist" in m:
            mm = compare(m["hist"], obs)
            if mm:
                drift.append((r["id"], mm[:3]))
            c.count(label(m["hist"]))
        else:
            c.count(label([o for o in obs if o["a"] not in ("tagobs", "skip")]))
    v = verdicts(c, allrows, "c16_all", len(runs))
    c.sample({"schedule": label(hists[0]), "observed": [{k: o[k] for k in ("t", "a", "flags", "fin", "out") if k in o}
                                                         for o in robs["sim0"][1]][:12]})
    qa = next((o for rid in robs for o in robs[rid][1] if o.get("op") == "Q" and "raw" in o), None)
    if qa:
        c.sample({"query_answer": {"finished": qa["finished"], "errorMessage": qa["raw"], "flags_at_get_state": qa["flags"]}})

    # 5. file steps: the two-writer interleavings TLC flags, and a single writer, under strace delay injection --------
    races = []
    solo = [{"t": "rd", "i": 0, "a": "upd", "x": "R"}, {"t": "kk", "i": 0, "a": "tstate", "x": "-"},
            {"t": "kk", "i": 0, "a": "setfin", "x": "T"},
            {"t": "kk", "i": 0, "a": "wstate", "x": "T", "nowait": True, "observe": True}]
    races.append(("race_solo", solo, 1))
    for n, (tag, prop, h) in enumerate(cands):
        if tag in FILE_TAGS:
            st = race_of(h, 550)
            if st:
                races.append(("race%d" % n, st, 2))
    if not thorough:     # one schedule of every class
        keep, seen_cls = [], set()
        for r_ in races:
            cls = r_[0] if r_[0] == "race_solo" else next(t_ for k_, (t_, p_, h_) in enumerate(cands) if "race%d" % k_ == r_[0])
            if cls not in seen_cls:
                seen_cls.add(cls)
                keep.append(r_)
        races = keep

    def do_race(item):
        rid, st, nw = item
        return rid, run_driver([{"id": rid, "mode": "replay", "steps": st, "settle_ms": 1700}], "c16_" + rid, bindir,
                               strace=(400, 300), timeout=600)[rid]
    with concurrent.futures.ThreadPoolExecutor(max_workers=4) as ex:
        rres = dict(ex.map(do_race, races))
    rrows = []
    for rid, st, nw in races:
        rows, obs, desync = rows_of(rid, rres[rid])
        robs[rid] = (rows, obs)
        meta[rid] = {"kind": "race", "steps": st, "writers": nw}
        rrows += rows
        if desync:
            desyncs.append((rid, desync))
        c.count(label(st))
    v.update(verdicts(c, rrows, "c16_race", len(races)))
    seen_tags = next((o["seen"] for o in robs[races[-1][0]][1] if o["a"] == "tagobs"), None)
    c.sample({"race": label(races[-1][1]), "status.tag_seen_by_reader": seen_tags})
    vc = {}
    for rid, bad in v.items():
        for prop in bad:
            vc[prop] = vc.get(prop, 0) + 1
    c.extra["runs_failing_the_statement"] = vc

    # 6. verdicts: the statement is the oracle; re-execute a failing schedule once before reporting ---------------------
    reported = set()
    unrepro = []
    for rid in [r["id"] for r in runs] + [x[0] for x in races]:
        bad = v.get(rid)
        if bad is None:
            raise util.ToolError("no verdict for run %s" % rid)
        for prop in bad:
            m = meta[rid]
            sig = signature(prop, robs[rid][0], m.get("writers", 0))
            key = json.dumps(sig, sort_keys=True)
            if key in reported:
                c.violation("", sig)       # counts the repetition
                continue
            # the artefact is the task-order schedule actually executed
            if m["kind"] == "race":
                art = {"id": rid + "_again", "mode": "replay", "steps": m["steps"], "settle_ms": 1700}
            elif m["kind"] in ("auto", "probe"):
                art = {"id": rid + "_again", "mode": "replay", "steps": schedule_of(robs[rid][1], robs[rid][0])}
                if m.get("msgs"):
                    art["msgs"] = m["msgs"]
            else:
                art = {"id": rid + "_again", "mode": "replay", "steps": m["hist"]}
            again = run_driver([art], "c16_again_%s" % rid, bindir, strace=(400, 300) if m["kind"] == "race" else None,
                               timeout=600)[art["id"]]
            rows2, obs2, _ = rows_of(art["id"], again)
            v2 = verdicts(c, rows2, "c16_again_%s" % rid, 1)
            if prop not in v2.get(art["id"], []):
                unrepro.append({"run": rid, "property": prop, "schedule": label(art["steps"])})
                continue
            reported.add(key)
            answers = [{kk: o[kk] for kk in ("finished", "raw", "flags", "fin") if kk in o} for o in obs2 if o.get("op") == "Q" and "finished" in o]
            tags = [o["seen"] for o in obs2 if o["a"] == "tagobs"]
            gates = {}
            for o in obs2:
                if o.get("g") and o["t"] != "env":
                    gates.setdefault("%s%s" % (o["t"], o["i"] or ""), []).append(o["g"])
            hist_tag = []
            for o in obs2:
                if "tag_raw" in o and (not hist_tag or hist_tag[-1][:2] != [o["tag_ino"], o["tag_raw"]] or o.get("tag_oldfd")):
                    hist_tag.append([o["tag_ino"], o["tag_raw"], o.get("tag_oldfd")])
            polls = {"q%s" % o["i"]: o["polls"] for o in obs2 if "polls" in o}
            if polls:
                gates["polls [tick header, notify] of the waiting queries"] = polls
            what = ("C16 %s fails on the real code, schedule [%s]; messages per task %s; answers %s%s%s"
                    % (prop, label(art["steps"]), gates, answers, (" status.tag seen by a reader: %r" % tags[0]) if tags else "",
                       (" status.tag after the steps [inode, content, old descriptor]: %r" % hist_tag[:6]) if prop == "TagInPlace" else ""))
            c.violation(what, sig, {"driver": "VERIF_CMD=provision", "run": art, "strace_delays_ms": [400, 300] if m["kind"] == "race" else None,
                                    "property": prop, "observed_rows": rows2})
    # design-level candidates that the real code does not show
    for n, (tag, prop, h) in enumerate(cands):
        rid = ("race%d" % n) if tag in FILE_TAGS else "%s%d" % (tag.lower(), n)
        if rid in v and prop not in v[rid]:
            c.extra["regression_schedules_clean"] = c.extra.get("regression_schedules_clean", 0) + 1
    if drift:
        c.extra["model_drift"] = {"runs": len(drift), "first": [{"run": d[0], "mismatches": [list(map(str, x)) for x in d[1]]} for d in drift[:5]],
                                  "note": "steps at which the real code differs from the implementation-shaped spec; each run was "
                                          "decided against the statement by ProvisionTrace"}
    if desyncs:
        c.extra["desync"] = {"runs": len(desyncs), "first": [list(d) for d in desyncs[:5]]}
    if PANICS:
        c.extra["panics_outside_provisioning"] = PANICS[:5]
    c.extra["replays"] = {"spec_behaviours": len(hists), "counterexample_schedules": len([x for x in cands if x[0] not in FILE_TAGS]),
                          "driver_random": nauto, "overtake_probes": len(probes), "long_message_texts": ntext, "file_step_races": len(races),
                          "runs_conforming_to_spec": len(hists) + len([x for x in cands if x[0] not in FILE_TAGS]) - len(drift)}
    if unrepro:
        c.extra["unreproduced"] = unrepro
        raise util.ToolError("a property failure did not reproduce from its schedule: %s" % unrepro[:2])
    # a task that sends other messages than the specification says is drift: the driver follows it and the run is
    # decided against the statement; only a task that neither parks nor finishes is trouble in the machinery
    # a schedule the implementation cannot follow to its end (a task neither parks nor returns: e.g. it waits for a
    # lock held by a task the schedule keeps parked) is recorded as not replayable; the part that ran was decided against
    # the statement.  Only if nothing at all could be replayed is the machinery at fault.
    if desyncs:
        c.extra["stuck_runs"] = len(desyncs)
        if len(desyncs) >= len(runs):
            raise util.ToolError("no schedule could be replayed: %s" % desyncs[:2])
    c.exhaustive = True
    c.rule = ("TLC exhaustive on spec/mc/Provision_*.cfg; S->I: every printed behaviour (seeded -simulate) and every "
              "counterexample class of the statement's properties is executed step by step on the real code through the "
              "H5 gates and compared after every step (flags, finished tick index, status.tag, next gate, HTTP answer); "
              "I->S: seeded driver-random gated runs, directed overtake probes (a readiness report between any two "
              "consecutive messages of another task) and strace-delayed file races are decided against the statement by "
              "ProvisionTrace; the driver follows the implementation to whatever gate it goes; distinct = distinct schedules executed")


def replay(c, path):
    """re-execute one saved artefact"""
    art = util.read_json(path)["case"]
    c.assumptions = ASSUME
    bindir = build.cargo_build("agent")
    r = art["run"]
    ev = run_driver([r], "c16_replay", bindir, strace=tuple(art["strace_delays_ms"]) if art.get("strace_delays_ms") else None)[r["id"]]
    rows, obs, _ = rows_of(r["id"], ev)
    v = verdicts(c, rows, "c16_replay", 1)
    for prop in v.get(r["id"], []):
        c.violation("C16 %s fails on the real code, schedule [%s]" % (prop, label(r["steps"])),
                    signature(prop, rows, 2 if art.get("strace_delays_ms") and len([s for s in r["steps"] if s.get("nowait")]) > 1 else
                              1 if art.get("strace_delays_ms") else 0), art)
    c.rule = "re-execution of one saved schedule, decided by ProvisionTrace"
