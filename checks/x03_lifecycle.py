"""X03_LIFECYCLE -- start-up / shut-down life cycle of the agent's modules (growth of the specification, DESIGN B.7).
spec/Lifecycle.tla: ProxyServer::start (bind retries, status messages, RUNNING, listener_started, accept loop, cancellation),
Redirector::start (5 x start_internal, error messages, RUNNING, redirector_ready), the key keeper's module state, the status
actor's mailbox, service::stop_service + redirector::close; properties L1..L9 and non-properties N1..N4 of the header (NEW
properties, derived from the code, not from properties.jsonl).
  1. TLC, exhaustive small configurations (mc/Lifecycle_*.cfg, liveness under fairness in mc/Lifecycle_live_*.cfg) + five
     WITNESS configurations that must exhibit the stated non-properties.
  2. S->I: gen/LifecycleGen prints every scenario the sandbox can impose (busy, errAt, stopAt) with what Lifecycle.tla
     prescribes at quiescence; each scenario is run on the REAL ProxyServer::start / Redirector::start / KeyKeeper /
     service::stop_service (harness/agent, VERIF_CMD=lifecycle), several processes in parallel, every wait state-based.
     The bind(2) calls and the opens of the bpf object file are logged by an LD_PRELOAD shim (which also injects EACCES for
     errAt); the port is kept busy by a real listening socket.  Outcome compared with the prescription: a difference = drift.
  3. I->S: the observations, merged by their CLOCK_MONOTONIC stamps, are judged by TLC against trace/LifecycleTrace
     (property level).  Only this decides a VIOLATION, and only if the same scenario is rejected again for the same
     property when executed once more.
  4. observations (never verdicts): the non-properties on the real code -- the listener coming up after stop_service (N1),
     a connection served after the cancellation (N2), start_internal still being called after close (the part of N3 the
     sandbox can show; the success path of the eBPF start cannot run here: no kprobes, no bpf object -- model only)."""
import bisect
import copy
import json
import os
import random
import socket
import subprocess
from concurrent.futures import ThreadPoolExecutor

from vlib import build, rig, tlc as tlcmod, util

ASSUME = [
    "TLC 1.8 and the CommunityModules Json/IOUtils are correct",
    "bind(2) and open(2) of the agent go through the libc symbols the LD_PRELOAD shim interposes (checked: a run whose shim "
    "log shows no bind / no open of the bpf object is a tool error); one open of the bpf object file = one start_internal",
    "driver rows and shim rows carry the same clock (CLOCK_MONOTONIC); a poll / probe is ordered by its end and names the "
    "rows that precede its beginning; tokio::time::sleep never ends early (retry gap >= 1000 ms, floor to ms)",
    "the eBPF start cannot succeed in this sandbox (no kprobes; a non-ELF ebpf_cgroup.o is put next to the executable so "
    "that no kernel interaction happens at all): only the five-failures path of Redirector::start runs on the real code; "
    "its success path, REDIRECTOR_READY, L6 RedirectorRunningHasBpf and the close race N3/N4 are covered by the model only",
    "the key keeper polls http://127.0.0.1:<port+1>/ where nothing listens (connection refused): its module state path runs, "
    "KEY_LATCH_READY is never reported, so provision never finishes and the event threads are not started",
    "the other error of errAt is EACCES injected by the shim before the kernel is asked",
]

MODS = ["ProxyServer", "Redirector", "KeyKeeper"]

SHIM_C = r"""
#define _GNU_SOURCE
#include <dlfcn.h>
#include <errno.h>
#include <fcntl.h>
#include <netinet/in.h>
#include <stdarg.h>
#include <stdio.h>
#include <stdlib.h>
#include <string.h>
#include <sys/socket.h>
#include <sys/syscall.h>
#include <time.h>
#include <unistd.h>
/* X03_LIFECYCLE observation shim.  One JSON line per call (CLOCK_MONOTONIC ns, O_APPEND) into VERIF_SHIM_LOG:
   - every bind(2) on AF_INET port VERIF_SHIM_PORT; calls made after VERIF_SHIM_ARMED is set are the server's;
     the VERIF_SHIM_ERRAT-th armed call fails with EACCES without reaching the kernel;
   - every open of a path ending in VERIF_SHIM_WATCH (the bpf object file: one open per start_internal call). */
static int logfd = -2;
static int armed_calls = 0;
static unsigned long long now_ns(void) {
    struct timespec ts;
    syscall(SYS_clock_gettime, CLOCK_MONOTONIC, &ts);
    return (unsigned long long)ts.tv_sec * 1000000000ULL + (unsigned long long)ts.tv_nsec;
}
static void out(const char *buf, int n) {
    if (logfd == -2) {
        const char *p = getenv("VERIF_SHIM_LOG");
        logfd = p ? (int)syscall(SYS_openat, AT_FDCWD, p, O_WRONLY | O_APPEND | O_CREAT | O_CLOEXEC, 0644) : -1;
    }
    if (logfd >= 0) { ssize_t r = write(logfd, buf, n); (void)r; }
}
int bind(int fd, const struct sockaddr *sa, socklen_t len) {
    static int (*real)(int, const struct sockaddr *, socklen_t) = 0;
    if (!real) real = dlsym(RTLD_NEXT, "bind");
    const char *ps = getenv("VERIF_SHIM_PORT");
    int port = ps ? atoi(ps) : -1;
    if (!sa || sa->sa_family != AF_INET || len < sizeof(struct sockaddr_in)
        || ntohs(((const struct sockaddr_in *)sa)->sin_port) != port)
        return real(fd, sa, len);
    int armed = getenv("VERIF_SHIM_ARMED") != 0;
    const char *ea = getenv("VERIF_SHIM_ERRAT");
    int errat = ea ? atoi(ea) : 0;
    int n = armed ? __sync_add_and_fetch(&armed_calls, 1) : 0;
    unsigned long long t0 = now_ns();
    int r, e, inj = 0;
    if (armed && errat > 0 && n == errat) { r = -1; e = EACCES; inj = 1; }
    else { r = real(fd, sa, len); e = errno; }
    unsigned long long t1 = now_ns();
    char buf[256];
    int k = snprintf(buf, sizeof buf,
        "{\"e\":\"bind\",\"t0\":%llu,\"t1\":%llu,\"t\":%llu,\"port\":%d,\"ret\":%d,\"armed\":%d,\"n\":%d,\"inj\":%d}\n",
        t0, t1, t1, port, r == 0 ? 0 : e, armed, n, inj);
    out(buf, k);
    errno = e;
    return r;
}
static int watched(const char *path) {
    const char *w = getenv("VERIF_SHIM_WATCH");
    if (!w || !path) return 0;
    size_t lp = strlen(path), lw = strlen(w);
    return lw > 0 && lp >= lw && strcmp(path + lp - lw, w) == 0;
}
static void log_open(unsigned long long t0, int r, int e) {
    unsigned long long t1 = now_ns();
    char buf[200];
    int k = snprintf(buf, sizeof buf, "{\"e\":\"open\",\"t0\":%llu,\"t1\":%llu,\"t\":%llu,\"ret\":%d}\n",
                     t0, t1, t1, r >= 0 ? 0 : e);
    out(buf, k);
}
#define OPEN_LIKE(NAME)                                                        \
    int NAME(const char *path, int flags, ...) {                               \
        static int (*real)(const char *, int, ...) = 0;                        \
        if (!real) real = dlsym(RTLD_NEXT, #NAME);                             \
        mode_t mode = 0;                                                       \
        if (flags & (O_CREAT | O_TMPFILE)) { va_list ap; va_start(ap, flags); mode = va_arg(ap, mode_t); va_end(ap); } \
        if (!watched(path)) return real(path, flags, mode);                    \
        unsigned long long t0 = now_ns();                                      \
        int r = real(path, flags, mode); int e = errno;                        \
        log_open(t0, r, e); errno = e; return r;                               \
    }
OPEN_LIKE(open)
OPEN_LIKE(open64)
#define OPENAT_LIKE(NAME)                                                      \
    int NAME(int dfd, const char *path, int flags, ...) {                      \
        static int (*real)(int, const char *, int, ...) = 0;                   \
        if (!real) real = dlsym(RTLD_NEXT, #NAME);                             \
        mode_t mode = 0;                                                       \
        if (flags & (O_CREAT | O_TMPFILE)) { va_list ap; va_start(ap, flags); mode = va_arg(ap, mode_t); va_end(ap); } \
        if (!watched(path)) return real(dfd, path, flags, mode);               \
        unsigned long long t0 = now_ns();                                      \
        int r = real(dfd, path, flags, mode); int e = errno;                   \
        log_open(t0, r, e); errno = e; return r;                               \
    }
OPENAT_LIKE(openat)
OPENAT_LIKE(openat64)
"""
BPF_NAME = "ebpf_cgroup.o"


def workdir():
    d = os.path.join(util.BUILD, "x03")
    os.makedirs(d, exist_ok=True)
    return d


def build_shim():
    d = workdir()
    src, so = os.path.join(d, "lcshim.c"), os.path.join(d, "lcshim.so")
    if not os.path.exists(so) or not os.path.exists(src) or open(src).read() != SHIM_C:
        tmp_c = src + ".%d" % os.getpid()
        with open(tmp_c, "w") as f:
            f.write(SHIM_C)
        tmp = so + ".%d" % os.getpid()
        util.sh(["gcc", "-O2", "-shared", "-fPIC", "-o", tmp, "-x", "c", tmp_c, "-ldl"], timeout=600)
        os.replace(tmp, so)
        os.replace(tmp_c, src)
    return so


# ---------------------------------------------------------------------------------------------------------------------
# 1. model checking
MC = [   # largest first (they run three at a time)
    ("Lifecycle_all.cfg", ["ActorHandle", "PsBind", "PsWake", "PsFailEvent", "PsReport", "PsAccept", "PsSeeCancel", "PsReturn",
                           "Connect", "RdCall", "RdWake", "RdUpdateBpf", "RdReport", "RdEvent", "KkRun", "KkCancel", "KkReturn",
                           "StopService", "ClState", "ClClear"]),
    ("Lifecycle_listener.cfg", ["PsBind", "PsWake", "PsFailMsg", "PsFailState", "PsFailEvent", "PsOkMsg", "PsOkState", "PsReport",
                                "PsAccept", "PsSeeCancel", "PsReturn", "Connect", "KkCancel", "KkStop", "StopService"]),
    ("Lifecycle_live_ps.cfg", ["PsBind", "PsFailEvent", "PsReport", "PsSeeCancel", "PsReturn", "KkCancel", "KkReturn", "StopService"]),
    ("Lifecycle_redirector.cfg", ["RdBegin", "RdCall", "RdSleep", "RdWake", "RdUpdateBpf", "RdOkMsg", "RdOkState", "RdReport",
                                  "RdGetMsg", "RdEvent", "StopService", "ClState", "ClClear", "KkCancel"]),
    ("Lifecycle_live_rd.cfg", ["RdCall", "RdReport", "RdEvent", "StopService", "ClClear", "KkReturn"]),
]
MC_THOROUGH = [("Lifecycle_all_deep.cfg", ["PsBind", "RdCall", "KkCancel", "StopService", "ClClear"])]
WITNESS = [
    ("Lifecycle_w_latelisten.cfg", "N1_NoListenerUpAfterCancel", "non_property_N1_listener_comes_up_after_stop"),
    ("Lifecycle_w_lateprov.cfg", "N1b_NoLateProvisionReport", "non_property_N1b_listener_ready_reported_after_stop"),
    ("Lifecycle_w_accept.cfg", "N2_NoAcceptAfterCancel", "non_property_N2_connection_accepted_after_cancel"),
    ("Lifecycle_w_rdrace.cfg", "N3_RedirectorStopSticks", "non_property_N3_redirector_running_and_bpf_loaded_after_close"),
    ("Lifecycle_w_rdnobpf.cfg", "N4_RedirectorRunningHasBpfAlways", "non_property_N4_redirector_running_without_bpf_object"),
]


def model_checking(c):
    mc = (MC_THOROUGH if c.tier == "thorough" else []) + MC

    def one(item):
        cfg, req = item
        if req is None:
            return c.tlc("Lifecycle", cfg, workers=2, timeout=300, expect_ok=False, coverage=False)
        return c.tlc("Lifecycle", cfg, workers=8 if "all" in cfg else 6, timeout=1500, required_actions=req)
    with ThreadPoolExecutor(max_workers=3) as ex:
        res = list(ex.map(one, mc + [(w[0], None) for w in WITNESS]))
    for (cfg, _), r in zip(mc, res):
        if not r.ok:
            raise tlcmod.TlcError("Lifecycle.tla/%s: the design breaks %s\n%s" % (
                cfg, r.invariant_violated or r.property_violated, r.trace_text[-3000:]))
    for (cfg, prop, key), r in zip(WITNESS, res[len(mc):]):
        if (r.invariant_violated or r.property_violated) != prop:
            raise tlcmod.TlcError("witness configuration %s no longer exhibits the counterexample to %s" % (cfg, prop))
        c.extra[key] = {"cfg": cfg, "refuted": prop, "counterexample_states": r.trace_text.count("State ")}


# ---------------------------------------------------------------------------------------------------------------------
# 2. scenarios from the specification
def canonical(s):
    """busy beyond errAt is not observable: one representative"""
    return s["errAt"] == 0 or s["busy"] == s["errAt"] - 1


def scenarios(c):
    cfg = "LifecycleGen_thorough.cfg" if c.tier == "thorough" else "LifecycleGen.cfg"
    res = c.tlc("LifecycleGen", cfg, subdir="gen", workers=4, coverage=False, timeout=1500)   # printed lines are order-independent
    by = {}
    for x in tlcmod.printed_json(res, "SCN"):
        if canonical(x["scn"]):
            by.setdefault(json.dumps(x["scn"], sort_keys=True), []).append(x["expect"])
    if not by:
        raise tlcmod.TlcError("LifecycleGen printed no scenario")
    out = []
    for k in sorted(by):
        exp = []
        for e in by[k]:
            if e not in exp:
                exp.append(e)
        out.append({"scn": json.loads(k), "expect": exp})
    return out


def free_ports(n, rnd):
    """n pairs (port, port+1) nobody listens on now; outside the ephemeral range; different per process"""
    got = []
    p = 10200 + (os.getpid() * 37 + rnd.randrange(1000)) % 9000 * 2
    tries = 0
    while len(got) < n:
        tries += 1
        if tries > 4000:
            raise util.ToolError("no free port pairs")
        p += 2
        if p > 31000:
            p = 10200
        ok = True
        for q in (p, p + 1):
            s = socket.socket(socket.AF_INET, socket.SOCK_STREAM)
            try:
                s.bind(("127.0.0.1", q))
            except OSError:
                ok = False
            finally:
                s.close()
        if ok:
            got.append(p)
    return got


def run_scenario(bindir, shim, scn, name, timeout=150):
    """one process = one scenario; returns (driver rows, shim rows)"""
    d, exe = rig.prepare(name, bindir)
    with open(os.path.join(d, BPF_NAME), "w") as f:
        f.write("X03_LIFECYCLE: deliberately not an ELF object\n")
    log, out = os.path.join(d, "shim.ndjson"), os.path.join(d, "out.ndjson")
    open(log, "w").close()
    env = dict(os.environ, VERIF_CMD="lifecycle", VERIF_OUT=out, VERIF_SCN=json.dumps(scn), RUST_BACKTRACE="0",
               LD_PRELOAD=shim, VERIF_SHIM_LOG=log, VERIF_SHIM_PORT=str(scn["port"]), VERIF_SHIM_WATCH=BPF_NAME,
               VERIF_SHIM_ERRAT=str(scn.get("errAt", 0)))
    env.pop("VERIF_SHIM_ARMED", None)
    try:
        p = subprocess.run([exe], env=env, cwd=d, stdin=subprocess.DEVNULL, stdout=subprocess.DEVNULL, stderr=subprocess.PIPE,
                           timeout=timeout, text=True, errors="replace")
    except subprocess.TimeoutExpired:
        raise util.ToolError("lifecycle driver %s timed out" % name)
    if p.returncode != 0:
        raise util.ToolError("lifecycle driver %s failed rc=%s: %s" % (name, p.returncode, p.stderr[-2000:]))
    raw, sh = util.read_ndjson(out), util.read_ndjson(log)
    if not raw or raw[-1].get("e") != "end":
        raise util.ToolError("lifecycle driver %s: output incomplete" % name)
    return raw, sh


# ---------------------------------------------------------------------------------------------------------------------
# 3. observations -> trace rows
def ps_class(m):
    if m == "Status unknown.":
        return "unknown"
    if m.startswith("Started proxy listener"):
        return "started"
    if "Failed to bind TcpListener" in m and len(m) > 40:        # "IO error: Failed to bind TcpListener '<addr>': <os error>"
        return "bindfail"
    return "other"


RD_FAIL = "Failed to start redirector: "


def rd_class(m):
    if m == "Status unknown.":
        return "unknown"
    if m == "eBPF redirector is starting":
        return "starting"
    if m.startswith(RD_FAIL) and len(m) >= len(RD_FAIL) + 8:        # names an error
        return "failed"
    if m.startswith("Started Redirector"):
        return "started"
    return "other"


def audit_class(s):
    if s == "ok":
        return "ok"
    return "null_bpf" if "Object is not initialized" in s else "other"


def to_trace(scn, raw, sh, base):
    """(trace rows, summary).  base = number of trace rows that precede this scenario's reset row in the file."""
    if not any(r["e"] == "bind" and r["armed"] == 1 for r in sh):
        raise util.ToolError("scenario %s: the shim logged no bind of the server (LD_PRELOAD not in effect?)" % scn["id"])
    if not any(r["e"] == "open" for r in sh):
        raise util.ToolError("scenario %s: the shim logged no open of the bpf object (start_internal not observable)" % scn["id"])
    ev = [r for r in raw if r["e"] in ("start", "stop", "ret", "poll", "probe", "audit", "end")]
    ev += [r for r in sh if r["e"] == "open" or (r["e"] == "bind" and r["armed"] == 1)]
    ev.sort(key=lambda r: r["t"])
    stamps = [r["t"] for r in ev]
    rows = [{"e": "reset", "id": scn["id"]}]
    prev_bind = None
    summ = {"nbind": 0, "lastRes": "none", "rdCalls": 0, "ps_seq": [], "running_after_stop": False, "served_after_stop": False,
            "opens_after_close_seen": 0, "rd_msgs_after_stopped": []}
    stop_t = next((r["t"] for r in ev if r["e"] == "stop"), None)
    rd_stopped_t = None
    last = None
    for r in ev:
        e = r["e"]
        if e in ("start", "ret"):
            rows.append({"e": e, "m": r["m"]})
        elif e == "stop":
            rows.append({"e": "stop"})
        elif e == "bind":
            res = "ok" if r["ret"] == 0 else ("inuse" if r["ret"] == 98 else "other")
            gap = 0 if prev_bind is None else max(0, (r["t0"] - prev_bind["t1"]) // 1000000)
            rows.append({"e": "bind", "r": res, "gap": int(gap)})
            prev_bind = r
            summ["nbind"] += 1
            summ["lastRes"] = res
        elif e == "open":
            rows.append({"e": "open"})
            summ["rdCalls"] += 1
            if rd_stopped_t is not None and r["t0"] > rd_stopped_t:
                summ["opens_after_close_seen"] += 1
        elif e in ("poll", "probe"):
            b = base + 1 + bisect.bisect_left(stamps, r["t0"])        # rows stamped strictly before the beginning (+ reset)
            if e == "poll":
                row = {"e": "poll", "b": b, "ps": r["ps"], "rd": r["rd"], "kk": r["kk"], "psm": ps_class(r["psm"]),
                       "rdm": rd_class(r["rdm"]), "lis": bool(r["lis"]), "red": bool(r["red"]), "bpf": bool(r["bpf"])}
                rows.append(row)
                if not summ["ps_seq"] or summ["ps_seq"][-1] != r["ps"]:
                    summ["ps_seq"].append(r["ps"])
                if stop_t is not None and r["t0"] > stop_t and r["ps"] == "RUNNING":
                    summ["running_after_stop"] = True
                if r["rd"] == "STOPPED":
                    if rd_stopped_t is None:
                        rd_stopped_t = r["t"]
                    elif last is not None and rd_class(r["rdm"]) != rd_class(last["rdm"]):
                        summ["rd_msgs_after_stopped"].append(rd_class(r["rdm"]))
                last = r
            else:
                rows.append({"e": "probe", "b": b, "r": r["r"]})
                if stop_t is not None and r["t0"] > stop_t and r["r"] == "response":
                    summ["served_after_stop"] = True
        elif e == "audit":
            rows.append({"e": "audit", "lookup": audit_class(r["lookup"]), "remove": audit_class(r["remove"])})
        elif e == "end":
            rows.append({"e": "end", "timed_out": bool(r["timed_out"])})
    if last is None:
        raise util.ToolError("scenario %s: no poll row" % scn["id"])
    summ.update(ps=last["ps"], psMsg={"started": "ps_started", "bindfail": "ps_bindfail"}.get(ps_class(last["psm"]), ps_class(last["psm"])),
                lis=bool(last["lis"]), rd=last["rd"], rdMsg=rd_class(last["rdm"]), red=bool(last["red"]),
                bpf="loaded" if last["bpf"] else "none", kk=last["kk"],
                ps_text=last["psm"][:160], rd_text=last["rdm"][:200], kk_text=last["kkm"][:120])
    return rows, summ


def drift_of(expects, summ):
    """differences between the outcome and every prescription of Lifecycle.tla for the scenario (None = conforms to one)"""
    best = None
    for e in expects:
        want = {"nbind": e["nbind"], "lastRes": e["lastRes"], "ps": e["ps"], "psMsg": e["psMsg"], "lis": e["lis"],
                "rdCalls": e["rdCalls"], "rd": e["rd"], "rdMsg": "failed" if e["rdMsg"]["k"] == "rd_err" else e["rdMsg"]["k"],
                "red": e["red"], "bpf": e["bpf"], "kk": e["kk"]}
        diff = {k: {"got": summ[k], "spec": v} for k, v in want.items() if summ[k] != v}
        if not diff:
            return None
        if best is None or len(diff) < len(best):
            best = diff
    return best


def judge(c, rows, name, count):
    """validate_trace with a metadir of its own (several judgements of one process may run at the same time)"""
    path = os.path.join(getattr(util, "TRACES", os.path.join(util.BUILD, "traces")), name + ".ndjson")   # per invocation
    util.write_ndjson(path, rows)
    res = c.tlc("LifecycleTrace", "LifecycleTrace.cfg", subdir="trace", workers=1, coverage=False, dfs_queue=True,
                env={"TRACE": path}, timeout=600, heap="2g", expect_ok=False,
                metadir=os.path.join(util.BUILD, "tlc", "x03_%s_%d" % (name, os.getpid())))
    if res.invariant_violated:
        why = res.invariant_violated
    elif res.postcondition_failed or "UNMATCHED" in res.stdout:
        why = "trace not matched to its end"
    elif not res.ok:
        raise tlcmod.TlcError("trace validation tool error: %s" % res.error_lines[:3])
    else:
        c.traces_validated += count
        return True, ""
    if why == "T_Inputs" or "not matched" in why:
        raise util.ToolError("trace %s is not a well-formed input of LifecycleTrace: %s\n%s" % (name, why, res.trace_text[-1500:]))
    return False, why


def selftest(c, good):
    """anti 'spec nothing binds': each corruption of an accepted trace must be rejected, by the expected property"""
    def first(pred):
        return next(i for i, r in enumerate(good) if pred(r))
    cases = {}
    t = copy.deepcopy(good)
    i = first(lambda r: r["e"] == "bind" and r["r"] == "inuse")
    t[i + 1:i + 1] = [{"e": "poll", "b": i, "ps": "RUNNING", "rd": "UNKNOWN", "kk": "UNKNOWN", "psm": "started", "rdm": "starting",
                       "lis": False, "red": False, "bpf": False}]
    cases["running_before_bind"] = (t[:i + 2], "P_ListenerRunningOnlyAfterBind")
    t = copy.deepcopy(good)
    i = first(lambda r: r["e"] == "bind" and r["gap"] >= 1000)
    t[i]["gap"] = 999
    cases["retry_gap_999ms"] = (t[:i + 1], "P_RetrySleepRespected")
    t = copy.deepcopy(good)
    i = first(lambda r: r["e"] == "ret" and r["m"] == "Redirector")
    j = max(k for k in range(i) if t[k]["e"] == "open")
    del t[j]
    for r in t:
        if "b" in r and r["b"] > j:
            r["b"] -= 1
    cases["one_start_internal_less"] = (t, "P_RedirectorFailureIsReported")
    t = copy.deepcopy(good)
    i = max(k for k, r in enumerate(t) if r["e"] == "poll")
    t[i]["kk"] = "RUNNING"
    cases["keykeeper_running_at_end"] = (t, "P_NoRunningAfterStopped")
    with ThreadPoolExecutor(max_workers=4) as ex:
        got = list(ex.map(lambda kv: (kv[0], judge(c, kv[1][0], "x03_self_" + kv[0], 0), kv[1][1]), cases.items()))
    c.extra["selftest"] = {k: ("rejected: " + v[1]) if not v[0] else "ACCEPTED" for k, v, _ in got}
    bad = [k for k, v, want in got if v[0] or v[1] != want]
    if bad:
        raise util.ToolError("trace selftest: %s -> %s" % (bad, c.extra["selftest"]))


# ---------------------------------------------------------------------------------------------------------------------
def plan(c, scns, rnd):
    """scenario list with ports; gate variants where the listener comes up after the stop"""
    runs = []
    for s in scns:
        runs.append(dict(s["scn"], gate=False, expect=s["expect"]))
        late = s["scn"]["stopAt"] != "settled" and any(e["lis"] for e in s["expect"])
        if late:
            runs.append(dict(s["scn"], gate=True, expect=s["expect"]))
    # N2 needs luck (an unbiased select!): a few more tries of the cheapest gate scenario
    extra = [r for r in runs if r["gate"] and r["busy"] == 0]
    for j in range(10 if c.tier == "quick" else 40):
        if extra:
            runs.append(dict(extra[0], rep=j + 1))
    ports = free_ports(len(runs), rnd)
    for i, (r, p) in enumerate(zip(runs, ports)):
        r["port"] = p
        r["id"] = "s%02d_b%d_e%d_%s%s%s" % (i, r["busy"], r["errAt"], r["stopAt"], "_gate" if r["gate"] else "",
                                           "_r%d" % r["rep"] if r.get("rep") else "")
        r["deadline_s"] = 60
    return runs


def scn_of(r):
    return {k: r[k] for k in ("id", "port", "busy", "errAt", "stopAt", "gate", "deadline_s")}


def execute(c, bindir, shim, runs, tag):
    def one(r):
        raw, sh = run_scenario(bindir, shim, scn_of(r), "x03_%s_%s" % (tag, r["id"]))
        return raw, sh
    # longest first; the drivers mostly sleep (1 s retry sleeps)
    order = sorted(range(len(runs)), key=lambda i: -min(runs[i]["busy"], 6))
    with ThreadPoolExecutor(max_workers=12) as ex:
        res = list(ex.map(lambda i: one(runs[i]), order))
    out = [None] * len(runs)
    for i, x in zip(order, res):
        out[i] = x
    return out


def run(c):
    rnd = random.Random(c.seed)
    c.assumptions = ASSUME
    bindir = build.cargo_build("agent")
    shim = build_shim()
    with ThreadPoolExecutor(max_workers=2) as ex:
        fm = ex.submit(model_checking, c)
        fs = ex.submit(scenarios, c)
        scns = fs.result()
        runs = plan(c, scns, rnd)
        results = execute(c, bindir, shim, runs, "a")
        fm.result()
    trace, segs, drifts = [], [], []
    obs = {"listener_running_observed_after_stop_service": 0, "listener_ready_reported_after_stop_service": 0,
           "connection_served_after_stop_service": 0, "gate_runs": 0, "start_internal_calls_seen_after_close": 0,
           "redirector_message_changes_after_STOPPED": 0}
    for r, (raw, sh) in zip(runs, results):
        rows, summ = to_trace(r, raw, sh, len(trace))
        segs.append((len(trace), len(rows)))
        trace += rows
        c.count(json.dumps([r["busy"], r["errAt"], r["stopAt"], r["gate"]]), n=1)
        d = drift_of(r["expect"], summ)
        if d:
            drifts.append({"scenario": r["id"], "diff": d})
        late = r["stopAt"] != "settled"
        if r["gate"]:
            obs["gate_runs"] += 1
        if late and summ["running_after_stop"]:
            obs["listener_running_observed_after_stop_service"] += 1
        if late and summ["lis"]:
            obs["listener_ready_reported_after_stop_service"] += 1
        if summ["served_after_stop"]:
            obs["connection_served_after_stop_service"] += 1
        obs["start_internal_calls_seen_after_close"] += summ["opens_after_close_seen"]
        obs["redirector_message_changes_after_STOPPED"] += len(summ["rd_msgs_after_stopped"])
        if len(c.samples) < 3 and (r["busy"], r["stopAt"], r["gate"]) in ((2, "settled", False), (1, "fail1", True), (6, "settled", False)):
            c.sample({"scenario": scn_of(r), "prescribed": r["expect"][0], "observed": {k: summ[k] for k in (
                "nbind", "lastRes", "ps_seq", "ps", "psMsg", "lis", "rdCalls", "rd", "rdMsg", "red", "bpf", "kk", "ps_text", "rd_text",
                "running_after_stop", "served_after_stop")}})
    ok, why = judge(c, trace, "x03_all", len(runs))
    if ok and (c.tier == "thorough" or os.environ.get("X03_SELFTEST", "1") != "0"):
        i = next(i for i, r in enumerate(runs) if r["busy"] == 2 and r["stopAt"] == "settled" and r["errAt"] == 0)
        st, n = segs[i]
        selftest(c, [dict(x, b=x["b"] - st) if "b" in x else x for x in trace[st:st + n]])
    if not ok:
        def seg_of(i):
            st, n = segs[i]
            return [dict(x, b=x["b"] - st) if "b" in x else x for x in trace[st:st + n]]
        with ThreadPoolExecutor(max_workers=8) as ex:
            verdicts = list(ex.map(lambda i: judge(c, seg_of(i), "x03_seg_%s" % runs[i]["id"], 0), range(len(runs))))
        rejected = [(i, v[1]) for i, v in enumerate(verdicts) if not v[0]]
        # one representative per (property, busy, errAt, stopAt, gate): executed once more; only what is rejected again counts
        pick, seen_k = [], set()
        for i, why1 in rejected:
            k = (why1, runs[i]["busy"], runs[i]["errAt"], runs[i]["stopAt"], runs[i]["gate"])
            if k not in seen_k and len([1 for j, w in pick if w == why1]) < 3 and len(pick) < 12:
                seen_k.add(k)
                pick.append((i, why1))
        again = execute(c, bindir, shim, [runs[i] for i, _ in pick], "re")
        reproduced = 0
        for (i, why1), (raw, sh) in zip(pick, again):
            r = runs[i]
            rows2, _ = to_trace(r, raw, sh, 0)
            ok2, why2 = judge(c, rows2, "x03_re_%s" % r["id"], 0)
            if not ok2 and why2 == why1:
                reproduced += 1
                c.violation("scenario %s (busy=%d errAt=%d stopAt=%s gate=%s): the real life cycle breaks %s" % (
                    r["id"], r["busy"], r["errAt"], r["stopAt"], r["gate"], why1),
                    {"broken": why1}, {"scn": scn_of(r), "expect": r["expect"], "trace": seg_of(i), "trace_again": rows2})
            else:
                c.extra.setdefault("unreproduced", []).append({"scenario": r["id"], "broken": why1, "again": why2 or "accepted"})
        c.extra["rejected_scenarios"] = [{"scenario": runs[i]["id"], "broken": w} for i, w in rejected][:40]
        if not reproduced:
            raise util.ToolError("trace rejected (%s) but no scenario reproduces its rejection: %s" % (
                why, c.extra.get("unreproduced")))
    if drifts:
        c.extra["model_drift_scenarios"] = {"count": len(drifts), "first": drifts[:4],
                                            "note": "outcomes that differ from what Lifecycle.tla prescribes for the scenario; "
                                                    "decided against the properties by LifecycleTrace"}
    c.extra["scenarios"] = {"from_spec": len(scns), "runs": len(runs), "trace_rows": len(trace),
                            "bind_attempts_observed": sum(1 for x in trace if x["e"] == "bind"),
                            "start_internal_calls_observed": sum(1 for x in trace if x["e"] == "open"),
                            "polls_recorded": sum(1 for x in trace if x["e"] == "poll"),
                            "client_probes": sum(1 for x in trace if x["e"] == "probe")}
    c.extra["non_properties_observed_on_the_real_code"] = dict(
        obs, note="observations, never verdicts (Lifecycle.tla N1, N2 and the sandbox-visible part of N3): stop_service "
                  "before / during the bind retries is followed by bind, RUNNING, LISTENER_READY and only then STOPPED; a client "
                  "connected before the accept loop is reached may be served after the cancellation (unbiased select!); "
                  "Redirector::start goes on calling start_internal and writing status messages after close set STOPPED")
    c.extra["redirector_success_path"] = ("model level only (Lifecycle_redirector.cfg, Lifecycle_all.cfg, witnesses N3/N4): the "
                                          "eBPF start cannot succeed in this sandbox")
    c.exhaustive = False
    c.rule = ("S->I: every scenario gen/LifecycleGen prints (busy x errAt x stopAt, + gate variants) is run on the real "
              "ProxyServer::start / Redirector::start / KeyKeeper / stop_service and its outcome compared with the prescription "
              "(difference = drift); I->S: all observations (bind log, start_internal log, polls of the public getters, client "
              "probes, audit lookups) judged by TLC against trace/LifecycleTrace (properties only); a rejection counts only "
              "if the scenario is rejected again for the same property; distinct = distinct (busy, errAt, stopAt, gate)")


def replay(c, path):
    case = util.read_json(path)["case"]
    c.assumptions = ASSUME
    bindir = build.cargo_build("agent")
    shim = build_shim()
    scn = dict(case["scn"])
    scn["port"] = free_ports(1, random.Random(c.seed))[0]
    raw, sh = run_scenario(bindir, shim, scn, "x03_replay")
    rows, _ = to_trace(scn, raw, sh, 0)
    ok, why = judge(c, rows, "x03_replay", 1)
    if not ok:
        c.violation("replayed scenario %s: the real life cycle breaks %s" % (scn["id"], why), {"broken": why},
                    {"scn": scn, "expect": case.get("expect"), "trace": rows})
