"""Shared machinery of the key-keeper properties (C09, C08; the histories of C12).

 * concretisation: abstract guids / rule ids / status documents of spec/KeyKeeper.tla <-> the JSON the real host speaks
 * Rig: a private network namespace holding the scripted host (harness/mock/sc_host.py on 168.63.129.16:80, separate
   process, control over a unix socket) and the agent driver (harness/agent VERIF_CMD=keykeeper, control over a second
   unix socket) -- both sockets live in the run directory, so the check itself stays outside the namespace
 * lock-step execution of one scripted history: every request is withheld by the host; the arrival of the next status
   request is the barrier at which the projection is read (getters + key directory + H3 policy events)
 * script generators (seeded random histories, enumerated document transitions, corner histories found by TLC)
 * TLC: exhaustive configurations, the script-driven generator (expected projections), property-level trace validation
"""
import hashlib
import json
import os
import random
import re
import shutil
import socket
import subprocess
import sys
import time

from vlib import build, rig, tlc as tlcmod, util

HERE = os.path.dirname(os.path.abspath(__file__))
SC_HOST = os.path.join(util.VERIF, "harness", "mock", "sc_host.py")

EPS = ("ws", "imds", "ga")
EP_JSON = {"ws": "wireserver", "imds": "imds", "ga": "hostga"}
AGUIDS = ("g1", "g2", "g3", "g4", "g5", "g6", "g7", "g8")
FOREIGN = "gx"
NOITEM = {"id": "", "mode": "-", "c": "-"}
CONTENTS = ("c1", "c2", "c3")
UNKNOWN = {"k": "Unknown", "ws": "-", "imds": "-"}


def G(a):
    """abstract guid -> concrete"""
    if a == FOREIGN:
        return "ffffffff-aaaa-4bbb-8ccc-ffffffffffff"
    n = int(a[1:])
    return "%08x-aaaa-4bbb-8ccc-%012x" % (n, n)


def K(a):
    return hashlib.sha256(("key-of-" + G(a)).encode()).hexdigest().upper()


SPELLINGS = ("lower", "upper", "nohyphen")


def spell(guid, how="lower"):
    """a guid as the host may legally write it: lower case with hyphens, upper case, or without hyphens"""
    if how == "upper":
        return guid.upper()
    if how == "nohyphen":
        return guid.replace("-", "")
    return guid


GUID_REV = {spell(G(a), h): a for a in AGUIDS + (FOREIGN,) for h in SPELLINGS}


def key_file_body(a, pretty=True, inc=0, spelling="lower"):
    d = {"authorizationScheme": "Azure-HMAC-SHA256", "guid": spell(G(a), spelling), "issued": "2021-05-05T 12:00:00Z", "key": K(a)}
    if inc:
        d["incarnationId"] = inc
    return json.dumps(d, indent=2 if pretty else None)


def issue_entry(a, inc_map, spelling="lower"):
    e = {"guid": spell(G(a), spelling), "key": K(a)}
    if (inc_map or {}).get(a):
        e["incarnationId"] = inc_map[a]
    return e


# ---------------------------------------------------------------------------------------------------------------
# documents

def adoc(ver, chan, has_rules=False, ws=None, imds=None, ga=None):
    return {"ver": ver, "chan": chan, "hasRules": bool(has_rules),
            "rules": {"ws": ws or dict(NOITEM), "imds": imds or dict(NOITEM), "ga": ga or dict(NOITEM)}}


def item(rid, mode, c="c1"):
    return {"id": rid, "mode": mode, "c": c}


def cid(ep, rid):
    return "" if rid == "" else "/sig/%s/profiles/%s" % (EP_JSON[ep], rid)


def cid_rev(ep, c):
    if c == "":
        return ""
    m = re.match(r"^/sig/%s/profiles/(\w+)$" % EP_JSON[ep], c)
    return m.group(1) if m else "?" + c


def default_allowed(rid):
    return rid in ("r1", "r3")


def tag(rid):
    return rid if rid else "empty"


def rules_content(rid, c):
    """what a rule document with this id lists in content version c (the id and the mode do not change with it):
    c2 changes a privilege's path and query, an identity and the assignment; c3 only which privileges the role carries"""
    t = tag(rid)
    if c == "c2":
        return {"privileges": [{"name": "p_" + t, "path": "/" + t + "/v2"}, {"name": "q_" + t, "path": "/q", "queryParameters": {"k": t + "2"}}],
                "roles": [{"name": "role_" + t, "privileges": ["p_" + t, "q_" + t]}],
                "identities": [{"name": "id_" + t, "userName": "user2_" + t}, {"name": "idx_" + t, "processName": "proc_" + t}],
                "roleAssignments": [{"role": "role_" + t, "identities": ["id_" + t, "idx_" + t]}]}
    return {"privileges": [{"name": "p_" + t, "path": "/" + t}, {"name": "q_" + t, "path": "/q", "queryParameters": {"k": t}}],
            "roles": [{"name": "role_" + t, "privileges": ["p_" + t] if c == "c3" else ["p_" + t, "q_" + t]}],
            "identities": [{"name": "id_" + t, "userName": "user_" + t}],
            "roleAssignments": [{"role": "role_" + t, "identities": ["id_" + t]}]}


def computed_content(rid, c):
    """the computed item the agent must hold for (id, content version): privileges, identities, privilege assignments"""
    r = rules_content(rid, c)
    privs = {p["name"]: {k: v for k, v in p.items()} for p in r["privileges"]}
    idents = {i["name"]: {k: v for k, v in i.items()} for i in r["identities"]}
    roles = {x["name"]: x["privileges"] for x in r["roles"]}
    asg = {}
    for ra in r["roleAssignments"]:
        for pn in roles.get(ra["role"], []):
            if pn in privs:
                asg.setdefault(pn, set()).update(i for i in ra["identities"] if i in idents)
    return privs, idents, {k: sorted(v) for k, v in asg.items()}


def with_unknown_members(obj, depth=0):
    """the same JSON value with a member the agent does not know added to every object, at every nesting level (a newer
    host may send more than this agent understands; unknown members must be ignored, wherever they are)"""
    if isinstance(obj, dict):
        out = {k: (v if k == "queryParameters" else with_unknown_members(v, depth + 1)) for k, v in obj.items()}
        out["xFutureMember%d" % depth] = {"note": "unknown to this agent", "n": depth}
        return out
    if isinstance(obj, list):
        return [with_unknown_members(v, depth) for v in obj]
    return obj


def concrete_item(ep, it, rnd):
    rid, mode = it["id"], it["mode"]
    m = rnd.choice([mode, mode.capitalize(), mode.upper()]) if rnd else mode
    return {"defaultAccess": "allow" if default_allowed(rid) else "deny", "mode": m, "id": cid(ep, rid),
            "rules": rules_content(rid, it.get("c", "c1"))}


V1_STATE = {"disabled": "Disabled", "wireserver": "Wireserver", "wireserverandimds": "WireserverAndImds"}


def concrete_doc(d, rnd=None):
    c = {"authorizationScheme": "Azure-HMAC-SHA256", "keyDeliveryMethod": "http",
         "requiredClaimsHeaderPairs": ["isRoot"], "version": d["ver"]}
    if d["ver"] == "1.0":
        s = V1_STATE[d["chan"]]
        c["secureChannelState"] = rnd.choice([s, s.lower(), s.upper()]) if rnd else s
    else:
        c["secureChannelEnabled"] = d["chan"] == "enabled"
        if rnd and rnd.random() < 0.3:
            c["keyIncarnationId"] = rnd.randint(1, 9)
    if d["hasRules"]:
        ar = {}
        for ep in EPS:
            it = d["rules"][ep]
            if it != NOITEM:
                ar[EP_JSON[ep]] = concrete_item(ep, it, rnd)
        c["authorizationRules"] = ar
    if rnd and rnd.random() < 0.4:
        c = with_unknown_members(c)
    return c


def state_of(d):
    if d["ver"] == "2.0":
        if d["chan"] == "enabled" and d["hasRules"]:
            def im(it):
                return "disabled" if it == NOITEM else it["mode"]
            return {"k": "v2", "ws": im(d["rules"]["ws"]), "imds": im(d["rules"]["imds"])}
        return {"k": "disabled", "ws": "-", "imds": "-"}
    return {"k": d["chan"], "ws": "-", "imds": "-"}


# ---------------------------------------------------------------------------------------------------------------
# abstraction of what the driver reports

_V2 = re.compile(r"^WireServer (\w+) -  IMDS (\w+) - HostGA (\w+)$")


def abs_state(s):
    if s == "Unknown":
        return dict(UNKNOWN)
    if s in ("disabled", "wireserver", "wireserverandimds"):
        return {"k": s, "ws": "-", "imds": "-"}
    m = _V2.match(s)
    if m and m.group(1) == m.group(3):
        return {"k": "v2", "ws": m.group(1).lower(), "imds": m.group(2).lower()}
    return {"k": "?" + s, "ws": "-", "imds": "-"}


def abs_item(ep, ci):
    """computed authorization item (as serialised by the agent through get_*_rules()) -> abstract item: id, mode and
    the content version whose privileges / identities / privilege assignments it carries exactly; content that
    belongs to no version of the id it carries is flagged"""
    if ci is None:
        return dict(NOITEM)
    rid = cid_rev(ep, ci.get("id", "?"))
    mode = str(ci.get("mode", "?")).lower()
    got_p = {k: {a: b for a, b in v.items() if b is not None} for k, v in (ci.get("privileges") or {}).items()}
    got_i = {k: {a: b for a, b in v.items() if b is not None} for k, v in (ci.get("identities") or {}).items()}
    got_a = {k: sorted(v) for k, v in (ci.get("privilegeAssignments") or {}).items()}
    c = "content-mismatch"
    if ci.get("defaultAllowed") == default_allowed(rid):
        for cv in CONTENTS:
            if (got_p, got_i, got_a) == computed_content(rid, cv):
                c = cv
                break
    return {"id": rid, "mode": mode, "c": c}


def classify_file(name, content, size):
    """-> (abstract guid or None, 'final'|'tmp'|'other', 'key'|'partial'|'corrupt')"""
    base, _, ext = name.rpartition(".")
    a = GUID_REV.get(base)
    kind = {"key": "final", "tmp": "tmp"}.get(ext, "other")
    if a is None or kind == "other":
        return a, kind, "corrupt"
    try:
        d = json.loads(content)
        good = isinstance(d, dict) and GUID_REV.get(d.get("guid")) == a and d.get("key") == K(a)
    except (ValueError, TypeError):
        good = False
    if good:
        return a, kind, "key"
    return a, kind, ("partial" if kind == "tmp" else "corrupt")


def abs_dir(dirinfo):
    final = {a: "none" for a in AGUIDS}
    tmp = {a: "none" for a in AGUIDS}
    stray = []
    for f in dirinfo.get("files", []):
        a, kind, st = classify_file(f["name"], f.get("content", ""), f.get("size", 0))
        if a in final and kind == "final":
            final[a] = st
        elif a in tmp and kind == "tmp":
            tmp[a] = st
        else:
            stray.append(f["name"])
    return final, tmp, stray


def abs_proj(p, inc_map=None):
    m = p["mem"]
    kg = m.get("keyGuid")
    key = "none" if kg is None else GUID_REV.get(kg, "?" + str(kg))
    final, tmp, stray = abs_dir(p["dir"])
    # the key in use is the one the host issued under that guid: value and incarnation number
    key_ok = True
    if key != "none":
        key_ok = bool(key in AGUIDS and m.get("keyValue") == K(key)
                      and (m.get("keyIncarnation") or 0) == ((inc_map or {}).get(key) or 0))
    obs = {"key": key, "keyOk": key_ok,
           "state": abs_state(m["state"]),
           "ruleId": {ep: cid_rev(ep, m["ruleId"][ep]) for ep in EPS},
           "rules": {ep: abs_item(ep, m["rules"][ep]) for ep in EPS},
           "final": final, "tmp": tmp}
    pol = {ep: "none" for ep in EPS}
    for e in p.get("policy", []):
        pol[e["ep"]] = "on" if e["redirect"] else "off"
    return obs, pol, len(p.get("policy", [])), stray


# ---------------------------------------------------------------------------------------------------------------
# control channels

class Chan:
    def __init__(self, sock):
        self.sock = sock
        self.f = sock.makefile("rwb")

    def call(self, _to=40, **cmd):
        self.sock.settimeout(_to)
        try:
            self.f.write(json.dumps(cmd).encode() + b"\n")
            self.f.flush()
            line = self.f.readline()
        except (OSError, socket.timeout) as ex:
            raise util.ToolError("control channel: %s during %s" % (ex, cmd.get("op")))
        if not line:
            raise util.ToolError("control channel closed during %s" % cmd.get("op"))
        r = json.loads(line)
        if isinstance(r, dict) and r.get("error"):
            raise util.ToolError("control command %s failed: %s" % (cmd.get("op"), r["error"]))
        return r

    def close(self):
        try:
            self.sock.close()
        except OSError:
            pass


class Rig:
    """netns + scripted host (+ the serve-mode agent driver when serve=True)"""

    def __init__(self, name, bindir=None, serve=True, interval_ms=1, loggers=False):
        self.name = name
        self.dir, self.exe = rig.prepare(name, bindir, poll_secs=1)
        self.keys = os.path.join(self.dir, "keys")
        self.logs = os.path.join(self.dir, "logs")
        os.makedirs(self.logs, exist_ok=True)
        self.host_sock = os.path.join(self.dir, "h.sock")
        self.drv_sock = os.path.join(self.dir, "d.sock")
        self.trace = os.path.join(self.dir, "h3.ndjson")
        open(os.path.join(self.dir, "console"), "w").close()
        if len(self.host_sock) > 100:
            raise util.ToolError("run directory path too long for a unix socket: %s" % self.dir)
        env = dict(os.environ, SC_HOST_CTL=self.host_sock, PYTHONUNBUFFERED="1")
        # private network namespace with the real endpoint address on lo; private mount namespace in which the serial
        # console the agent writes start-up events to is a plain file of the run directory
        sh = (rig.NS_SETUP + " && mount --bind %s/console /dev/console && exec %s %s" % (self.dir, sys.executable, SC_HOST))
        self.host_log = open(os.path.join(self.dir, "host.out"), "wb")
        self.proc = subprocess.Popen(["unshare", "-n", "-m", "sh", "-c", sh], env=env, cwd=self.dir,
                                     stdout=self.host_log, stderr=subprocess.STDOUT, stdin=subprocess.DEVNULL)
        self.host = Chan(self._connect(self.host_sock))
        self.host.call(op="ping")
        self.drv = None
        self.drv_pid = None
        self.interval_ms = interval_ms
        self.loggers = loggers
        if serve:
            self._start_driver()

    def _connect(self, path, timeout=15):
        t_end = time.time() + timeout
        while True:
            if self.proc.poll() is not None:
                raise util.ToolError("scripted host exited rc=%s: %s" % (self.proc.returncode, self._host_out()))
            s = socket.socket(socket.AF_UNIX, socket.SOCK_STREAM)
            try:
                s.connect(path)
                return s
            except OSError:
                s.close()
                if time.time() > t_end:
                    raise util.ToolError("cannot reach %s: %s" % (path, self._host_out()))
                time.sleep(0.02)

    def _host_out(self):
        try:
            return open(os.path.join(self.dir, "host.out"), errors="replace").read()[-1500:]
        except OSError:
            return ""

    def agent_env(self, mode, extra=None):
        e = {"VERIF_CMD": "keykeeper", "VERIF_KK_MODE": mode, "VERIF_KK_CTL": self.drv_sock, "VERIF_OUT": self.trace,
             "VERIF_KK_INTERVAL_MS": str(self.interval_ms), "VERIF_KK_LOGGERS": "1" if self.loggers else "0",
             "RUST_BACKTRACE": "0"}
        if extra:
            e.update(extra)
        return e

    def _start_driver(self):
        try:
            os.unlink(self.drv_sock)
        except FileNotFoundError:
            pass
        ls = socket.socket(socket.AF_UNIX, socket.SOCK_STREAM)
        ls.bind(self.drv_sock)
        ls.listen(1)
        ls.settimeout(15)
        r = self.host.call(op="spawn", argv=[self.exe], cwd=self.dir, env=self.agent_env("serve"),
                           stdout=os.path.join(self.dir, "agent.out"), stderr=os.path.join(self.dir, "agent.err"))
        self.drv_pid = r["pid"]
        try:
            c, _ = ls.accept()
        except socket.timeout:
            raise util.ToolError("agent driver did not connect: %s" % self.agent_err())
        finally:
            ls.close()
        self.drv = Chan(c)

    def agent_err(self):
        try:
            return open(os.path.join(self.dir, "agent.err"), errors="replace").read()[-2000:]
        except OSError:
            return ""

    def reset_keys(self, files=None, absent=False):
        shutil.rmtree(self.keys, ignore_errors=True)
        if not absent:
            os.makedirs(self.keys)
            os.chmod(self.keys, 0o700)
        for name, body in (files or {}).items():
            with open(os.path.join(self.keys, name), "w") as f:
                f.write(body)

    def close(self, keep=False):
        for ch, op in ((self.drv, "quit"), (self.host, "quit")):
            if ch is not None:
                try:
                    ch.sock.settimeout(2)
                    ch.f.write(json.dumps({"op": op}).encode() + b"\n")
                    ch.f.flush()
                except OSError:
                    pass
                ch.close()
        try:
            self.proc.wait(timeout=5)
        except subprocess.TimeoutExpired:
            self.proc.kill()
            self.proc.wait()
        self.host_log.close()
        if not keep:
            shutil.rmtree(self.dir, ignore_errors=True)


# ---------------------------------------------------------------------------------------------------------------
# histories (scripts)

def init_row(doc, scenario="fresh", named=None):
    """first row of a run: the host's and the key store's state before the agent starts"""
    final = {a: "none" for a in AGUIDS}
    r = {"e": "run", "doc": doc, "named": "none", "latched": "none", "issued": [], "dir": "absent", "final": final,
         "damaged": [], "scenario": scenario, "inc": {a: 0 for a in AGUIDS}}
    if scenario == "haskey":
        final["g1"] = "key"
        r.update(named="g1", latched="g1", issued=["g1"], dir="acled")
    elif scenario == "unreadable":
        final["g1"] = "corrupt"
        r.update(named="g1", latched="g1", issued=["g1"], dir="acled", damaged=["g1"])
    elif scenario == "rotated":
        final["g1"] = "key"
        r.update(named=named or FOREIGN, latched="none", issued=["g1"], dir="acled")
    return r


def poll_row(status="ok", acquire="ok", g="g1", attest="ok", notify=False, mid=None, how=None):
    return {"e": "poll", "status": status, "acquire": acquire, "g": g, "attest": attest, "notify": bool(notify),
            "mid": mid or {"at": "none", "doc": adoc("1.0", "disabled")}, "how": how or {}}


STATUS_FAIL = [{"a": "http", "status": 500}, {"a": "http", "status": 503, "body": "busy"}, {"a": "http", "status": 404},
               {"a": "http", "status": 429}, {"a": "http", "status": 301}, {"a": "reset"}, {"a": "close"}, {"a": "truncate"},
               # an error status whose body is a well-formed status document that differs from the one in force (a degraded
               # host attaching its default / a stale document to the error): still a failed status request
               {"a": "http_doc", "status": 503}, {"a": "http_doc", "status": 500}, {"a": "http_doc", "status": 429}]


def error_document(cur_doc, named):
    """the document a failing host attaches to its error answer: its 'nothing configured' default, or -- when that is
    what the agent already follows -- an enabled one"""
    if state_of(cur_doc)["k"] != "disabled":
        d = concrete_doc(adoc("2.0", "disabled"))
        d["keyGuid"] = None
    else:
        d = concrete_doc(adoc("1.0", "wireserverandimds", True, ws=item("r3", "enforce", "c2"), imds=item("r1", "audit")))
        d["keyGuid"] = named
    return d
STATUS_INVALID = [
    {"a": "raw200", "body": "<html>not json</html>", "ctype": "text/html"},
    {"a": "raw200", "body": ""},
    {"a": "raw200", "body": "{\"version\": \"1.0\"}"},
    {"a": "raw200", "body": json.dumps({"authorizationScheme": "Azure-HMAC-SHA256", "keyDeliveryMethod": "http", "version": "1.0"})},
    {"a": "raw200", "body": json.dumps({"authorizationScheme": "Azure-HMAC-SHA256", "keyDeliveryMethod": "http", "version": "1.0",
                                        "secureChannelState": "Sideways"})},
    {"a": "raw200", "body": json.dumps({"authorizationScheme": "Azure-HMAC-SHA256", "keyDeliveryMethod": "http", "version": "1.0",
                                        "secureChannelEnabled": True})},
    {"a": "raw200", "body": json.dumps({"authorizationScheme": "Azure-HMAC-SHA256", "keyDeliveryMethod": "http", "version": "2.0",
                                        "secureChannelState": "Wireserver"})},
    {"a": "raw200", "ctype": "application/xml", "body": json.dumps({"authorizationScheme": "Azure-HMAC-SHA256", "keyDeliveryMethod": "http",
                                                                    "version": "1.0", "secureChannelState": "Wireserver"})},
    {"a": "raw200", "body": json.dumps({"authorizationScheme": "Azure-HMAC-SHA256", "keyDeliveryMethod": "http", "version": "2.0",
                                        "secureChannelEnabled": True, "authorizationRules": {"wireserver": {"mode": "enforce"}}})},
]
ACQUIRE_ERR = [{"a": "http", "status": 500}, {"a": "http", "status": 403}, {"a": "http", "status": 410}, {"a": "reset"},
               {"a": "close"}, {"a": "http", "status": 201, "body": "{}"}]
ACQUIRE_MALFORMED = [{"a": "raw200", "body": "not json"}, {"a": "raw200", "body": "{\"guid\": \"x\"}"},
                     {"a": "raw200", "body": "{\"authorizationScheme\": \"Azure-HMAC-SHA256\", \"guid\": 5, \"issued\": \"\", \"key\": \"\"}"},
                     {"a": "truncate", "body": "{\"authorizationScheme\": \"Az"}]
ATTEST_ERR = [{"a": "http", "status": 500}, {"a": "http", "status": 403}, {"a": "http", "status": 204}, {"a": "reset"}, {"a": "close"}]


def concretise_poll(row, rnd):
    """fix, once and for all, HOW each abstract outcome of this poll is produced on the wire (kept in the script so a
    replay is exact)"""
    how = {}
    how["status"] = {"a": "ok"} if row["status"] == "ok" else rnd.choice(STATUS_FAIL if row["status"] == "fail" else STATUS_INVALID)
    how["acquire"] = {"a": "ok"} if row["acquire"] == "ok" else rnd.choice(ACQUIRE_ERR if row["acquire"] == "err" else ACQUIRE_MALFORMED)
    how["attest"] = {"ok": {"a": "ok"}, "lost": {"a": "lost"}}.get(row["attest"]) or rnd.choice(ATTEST_ERR)
    how["named_repr"] = rnd.choice(["null", "absent", "empty"])
    how["seed"] = rnd.randrange(1 << 30)
    row["how"] = how
    return row


MODES = ("disabled", "audit", "enforce")
MODE_OF = {"r0": "disabled", "r1": "audit", "r2": "enforce", "r3": "enforce"}


def rand_item(rnd):
    rid = rnd.choice(["r0", "r1", "r2", "r3"])
    return item(rid, MODE_OF[rid], rnd.choice(["c1", "c1", "c2", "c3"]))


def rand_doc(rnd):
    ver = rnd.choice(["1.0", "2.0"])
    chan = rnd.choice(["disabled", "wireserver", "wireserverandimds"] if ver == "1.0" else ["disabled", "enabled", "enabled"])
    has = rnd.random() < 0.75
    d = adoc(ver, chan, has)
    if has:
        for ep in EPS:
            if rnd.random() < 0.6:
                d["rules"][ep] = rand_item(rnd)
    return d


def mutate_doc(d, rnd):
    """one aspect of the document changes (the Reconfigure action of the specification), sometimes two"""
    d = json.loads(json.dumps(d))
    for _ in range(rnd.choice([1, 1, 1, 2])):
        k = rnd.choice(["chan", "ver", "rules", "rules", "rules", "hasRules"])
        if k == "chan":
            d["chan"] = rnd.choice(["disabled", "wireserver", "wireserverandimds"] if d["ver"] == "1.0" else ["disabled", "enabled"])
        elif k == "ver":
            if d["ver"] == "1.0":
                d["ver"], d["chan"] = "2.0", ("disabled" if d["chan"] == "disabled" else "enabled")
            else:
                d["ver"], d["chan"] = "1.0", ("disabled" if d["chan"] == "disabled" else rnd.choice(["wireserver", "wireserverandimds"]))
        elif k == "hasRules":
            d["hasRules"] = not d["hasRules"]
            d["rules"] = {ep: dict(NOITEM) for ep in EPS}
        elif d["hasRules"]:
            ep = rnd.choice(EPS)
            cur = d["rules"][ep]
            if cur != NOITEM and rnd.random() < 0.35:
                # the document keeps its id and mode and lists other privileges / identities / assignments
                d["rules"][ep] = item(cur["id"], cur["mode"], rnd.choice([c for c in CONTENTS if c != cur["c"]]))
            else:
                d["rules"][ep] = dict(NOITEM) if rnd.random() < 0.35 else rand_item(rnd)
    return d


def rand_incarnations(rnd):
    """incarnation numbers of the keys the host will hand out: absent, growing, shrinking (a counter that restarted),
    equal, mixed"""
    k = rnd.choice(["absent", "up", "down", "equal", "mixed", "mixed"])
    if k == "absent":
        v = [0, 0, 0, 0]
    elif k == "up":
        v = [1, 2, 3, 4]
    elif k == "down":
        v = [9, 7, 4, 1]
    elif k == "equal":
        v = [3, 3, 3, 3]
    else:
        v = [rnd.choice([0, 1, 2, 5]) for _ in range(4)]
    return dict(zip(AGUIDS, v))


def random_history(rnd, n_polls=None):
    sc = rnd.choice(["fresh", "fresh", "haskey", "unreadable", "rotated"])
    d = rand_doc(rnd)
    rows = [init_row(d, sc, named=rnd.choice([FOREIGN, "none"]))]
    rows[0]["inc"] = rand_incarnations(rnd)
    n = n_polls or rnd.randint(4, 9)
    guids = list(AGUIDS)
    for k in range(n):
        tail = k >= n - 2             # the last polls are left alone so that convergence is actually checked
        if not tail and rnd.random() < 0.45:
            d = mutate_doc(d, rnd)
            rows.append({"e": "reconf", "doc": d})
        if not tail and rnd.random() < 0.12:
            rows.append({"e": "rotate", "named": rnd.choice(["none", FOREIGN])})
        if not tail and rnd.random() < 0.06:
            rows.append({"e": "crash"})
        st = "ok" if tail or rnd.random() < 0.72 else rnd.choice(["fail", "invalid"])
        aq = "ok" if tail or rnd.random() < 0.7 else rnd.choice(["err", "malformed"])
        at = "ok" if tail or rnd.random() < 0.65 else rnd.choice(["err", "lost"])
        mid = None
        if not tail and rnd.random() < 0.12:
            d = mutate_doc(d, rnd)
            mid = {"at": rnd.choice(["acquire", "attest"]), "doc": d}
        rows.append(concretise_poll(poll_row(st, aq, rnd.choice(guids), at, notify=(not tail and rnd.random() < 0.15), mid=mid), rnd))
    rows.append({"e": "end"})
    return rows


def transition_history(d1, d2, rnd, scenario="fresh"):
    """document d1 is followed until the agent settles, then d2 replaces it"""
    rows = [init_row(d1, scenario)]
    rows += [concretise_poll(poll_row(g="g1"), rnd), concretise_poll(poll_row(g="g2"), rnd)]
    rows.append({"e": "reconf", "doc": d2})
    rows += [concretise_poll(poll_row(g="g2"), rnd), concretise_poll(poll_row(g="g3"), rnd)]
    rows.append({"e": "end"})
    return rows


def interesting_docs():
    R = lambda r, c="c1": item(r, MODE_OF[r], c)
    return [
        adoc("2.0", "enabled", True, ws=R("r1", "c2"), imds=R("r2", "c3"), ga=R("r3", "c2")),
        adoc("2.0", "enabled", True, ws=R("r1", "c3"), imds=R("r2", "c1"), ga=R("r3", "c3")),
        adoc("1.0", "wireserver", True, ws=R("r1", "c2"), imds=R("r2")),
        adoc("1.0", "disabled"), adoc("1.0", "wireserver"), adoc("1.0", "wireserverandimds"),
        adoc("1.0", "wireserver", True, ws=R("r1"), imds=R("r2")),
        adoc("2.0", "disabled"), adoc("2.0", "disabled", True, ws=R("r2")),
        adoc("2.0", "enabled"), adoc("2.0", "enabled", True),
        adoc("2.0", "enabled", True, ws=R("r1")), adoc("2.0", "enabled", True, ws=R("r2"), imds=R("r1"), ga=R("r3")),
        adoc("2.0", "enabled", True, ws=R("r0"), imds=R("r2")), adoc("2.0", "enabled", True, imds=R("r3"), ga=R("r1")),
    ]


def corner_histories(rnd):
    """histories the exhaustive corner configurations of TLC found to break `Converged` in the design that mirrors the
    code; replayed on the real code to see whether the implementation has them too"""
    out = {}
    P0 = lambda **kw: concretise_poll(poll_row(**kw), rnd)
    # (first, so that it starts early) a host that answers a status poll correctly but only after 6 s
    e1 = adoc("2.0", "enabled", True, ws=item("r2", "enforce"))
    e2 = adoc("2.0", "enabled", True, ws=item("r1", "audit", "c2"), imds=item("r2", "enforce"))
    slow = P0(g="g2")
    slow["how"]["delay_s"] = 6.2
    out["slow-status-answer"] = [init_row(e1, "fresh"), P0(g="g1"), {"e": "reconf", "doc": e2}, slow, P0(g="g2"), {"e": "end"}]
    # a status request answered with an error status AND a well-formed document (twice, from an enabled and from a
    # disabled state)
    for nm, code in (("503", 503), ("500", 500), ("429", 429)):
        bad = P0(status="fail", g="g2")
        bad["how"]["status"] = {"a": "http_doc", "status": code}
        bad2 = json.loads(json.dumps(bad))
        out["error-status-with-document:%s" % nm] = (
            [init_row(e2, "haskey"), P0(g="g2"), bad, P0(g="g2"), {"e": "reconf", "doc": adoc("1.0", "disabled")}, P0(g="g2"), bad2,
             P0(g="g3"), {"e": "end"}])
    # several failed status polls in a row (state carried across polls must not turn the k-th failure into a change)
    out["failed-status-polls-in-a-row"] = (
        [init_row(e2, "haskey"), P0(g="g2"), P0(status="fail", g="g2"), P0(status="invalid", g="g2"), P0(status="fail", g="g2"),
         P0(status="fail", g="g2"), P0(status="invalid", g="g2"), P0(g="g2"), P0(g="g2"), {"e": "end"}])
    a = item("", "enforce")
    out["empty-rule-id"] = ([init_row(adoc("2.0", "enabled", True, ws=a), "fresh"),
                             concretise_poll(poll_row(g="g1"), rnd), concretise_poll(poll_row(g="g2"), rnd), {"e": "end"}])
    out["empty-rule-id-then-removed"] = (
        [init_row(adoc("2.0", "enabled", True, ws=item("r1", "audit")), "fresh"), concretise_poll(poll_row(g="g1"), rnd),
         {"e": "reconf", "doc": adoc("2.0", "enabled", True, ws=a)}, concretise_poll(poll_row(g="g2"), rnd),
         {"e": "reconf", "doc": adoc("2.0", "enabled", True)}, concretise_poll(poll_row(g="g2"), rnd),
         concretise_poll(poll_row(g="g2"), rnd), {"e": "end"}])
    # the document of one endpoint keeps id and mode and lists other privileges / identities / assignments -- directly,
    # with failed polls in between, and across a restart
    for ep in EPS:
        for c2 in ("c2", "c3"):
            d1 = adoc("2.0", "enabled", True, **{ep: item("r2", "enforce", "c1")})
            d2 = adoc("2.0", "enabled", True, **{ep: item("r2", "enforce", c2)})
            out["same-id-same-mode-different-content:%s:%s" % (ep, c2)] = (
                [init_row(d1, "fresh"), concretise_poll(poll_row(g="g1"), rnd), {"e": "reconf", "doc": d2},
                 concretise_poll(poll_row(g="g2"), rnd), concretise_poll(poll_row(g="g2"), rnd), {"e": "end"}])
        d1 = adoc("2.0", "enabled", True, ws=item("r1", "audit", "c2"), imds=item("r2", "enforce", "c1"), ga=item("r3", "enforce", "c3"))
        d2 = json.loads(json.dumps(d1))
        d2["rules"][ep]["c"] = "c1" if d1["rules"][ep]["c"] != "c1" else "c2"
        out["same-id-same-mode-different-content:%s:faults" % ep] = (
            [init_row(d1, "haskey"), concretise_poll(poll_row(g="g2"), rnd), {"e": "reconf", "doc": d2},
             concretise_poll(poll_row(status="fail", g="g2"), rnd), concretise_poll(poll_row(status="invalid", g="g2"), rnd),
             concretise_poll(poll_row(g="g2"), rnd), {"e": "reconf", "doc": d1}, concretise_poll(poll_row(status="fail", g="g2"), rnd),
             {"e": "crash"}, concretise_poll(poll_row(g="g2"), rnd), {"e": "reconf", "doc": d2},
             concretise_poll(poll_row(g="g2"), rnd), concretise_poll(poll_row(g="g2"), rnd), {"e": "end"}])
    # (seed class c) the reported channel state changes in a poll whose key step fails once; clean polls follow
    P = lambda **kw: concretise_poll(poll_row(**kw), rnd)
    v1off = adoc("1.0", "disabled")
    v2on = adoc("2.0", "enabled", True, ws=item("r2", "enforce"))                      # imds not intercepted
    v2both = adoc("2.0", "enabled", True, ws=item("r2", "enforce"), imds=item("r1", "audit"))
    for nm, kw in (("acquire-err", {"acquire": "err"}), ("acquire-malformed", {"acquire": "malformed"}),
                   ("attest-err", {"attest": "err"}), ("attest-lost", {"attest": "lost"})):
        out["state-change-with-key-step-failure:%s" % nm] = (
            [init_row(v1off, "fresh"), P(g="g1"), {"e": "reconf", "doc": v2on}, P(g="g1", **kw), P(g="g2"), P(g="g3"), {"e": "end"}])
    out["state-change-with-key-step-failure:mode-switch-latch-lost"] = (
        [init_row(v2both, "haskey"), P(g="g2"), {"e": "rotate", "named": "none"}, {"e": "reconf", "doc": v2on},
         P(g="g2", attest="err"), P(g="g3"), P(g="g4"), {"e": "end"}])
    out["state-change-with-key-step-failure:version-switch-rotated"] = (
        [init_row(v2on, "haskey"), P(g="g2"), {"e": "rotate", "named": FOREIGN}, {"e": "reconf", "doc": adoc("1.0", "wireserverandimds")},
         P(g="g2", acquire="err"), P(g="g2"), P(g="g3"), {"e": "end"}])
    # (seed class d) the host loses the latch and the next key carries a lower / equal / no incarnation number
    v1on = adoc("1.0", "wireserver")
    for nm, (a, b) in (("down", (5, 1)), ("equal", (3, 3)), ("new-absent", (4, 0)), ("old-absent", (0, 2)), ("up", (1, 5))):
        h = [init_row(v1on, "fresh"), P(g="g1"), {"e": "rotate", "named": "none"}, P(g="g2"), P(g="g3"), {"e": "end"}]
        h[0]["inc"] = {"g1": a, "g2": b, "g3": b, "g4": 0}
        out["rotation-incarnation:%s" % nm] = h
    h = [init_row(v1on, "haskey"), P(g="g2"), {"e": "rotate", "named": FOREIGN}, P(g="g2"), P(g="g3"), {"e": "end"}]
    h[0]["inc"] = {"g1": 7, "g2": 2, "g3": 1, "g4": 0}
    out["rotation-incarnation:restart-with-key-down"] = h
    h = [init_row(v1on, "fresh"), P(g="g1"), {"e": "rotate", "named": "none"}, P(g="g2"), {"e": "relatch", "g": "g1"}, P(g="g3"),
         P(g="g3"), {"e": "end"}]
    h[0]["inc"] = {"g1": 1, "g2": 6, "g3": 0, "g4": 0}
    out["rotation-incarnation:relatch-older-local-key"] = h
    out["same-id-different-mode"] = (
        [init_row(adoc("2.0", "enabled", True, ws=item("r1", "audit")), "fresh"), concretise_poll(poll_row(g="g1"), rnd),
         {"e": "reconf", "doc": adoc("2.0", "enabled", True, ws=item("r1", "enforce"))}, concretise_poll(poll_row(g="g2"), rnd),
         concretise_poll(poll_row(g="g2"), rnd), {"e": "end"}])
    return out


# ---------------------------------------------------------------------------------------------------------------
# lock-step execution of one history

class Drift(Exception):
    pass


def _files_for(init, spelling="lower"):
    files = {}
    inc = init.get("inc") or {}
    for a, st in init["final"].items():
        if st == "key":
            files[spell(G(a), spelling) + ".key"] = key_file_body(a, inc=inc.get(a, 0), spelling=spelling)
        elif st == "corrupt":
            files[spell(G(a), spelling) + ".key"] = key_file_body(a, inc=inc.get(a, 0), spelling=spelling)[:37]
    return files


def run_history(rg, rows, run_id, req_timeout=8):
    """Execute one scripted history in lock-step.  Returns (trace_rows, observations) where trace_rows are the rows for
    spec/trace/KeyKeeperTrace and observations[k] is the abstract projection at the end of poll k+1 (same index as
    the generator's EXPECT lines) plus the host's latch."""
    host, drv = rg.host, rg.drv
    init = rows[0]
    drv.call(op="stop")
    host.call(op="reset")
    rg.reset_keys(_files_for(init), absent=(init["dir"] == "absent"))
    keys = {G(a): K(a) for a in init["issued"]}
    nm = None if init["named"] == "none" else G(init["named"])
    lt = None if init["latched"] == "none" else G(init["latched"])
    first_poll = next((r for r in rows if r["e"] == "poll"), None)
    base_seed = first_poll["how"]["seed"] if first_poll else 1      # everything concrete derives from the script alone
    rnd0 = random.Random(base_seed)
    cdoc = concrete_doc(init["doc"], rnd0)
    extras = {"now": "xFutureMember0" in cdoc}
    host.call(op="set", hold=True, doc=cdoc, named=nm, latched=lt, keys=keys,
              named_repr=(first_poll or {"how": {"named_repr": "null"}})["how"]["named_repr"])
    cur_doc = init["doc"]
    drv.call(op="start")

    def next_req():
        r = host.call(op="next", timeout=req_timeout, _to=req_timeout + 10)
        if r.get("timeout"):
            alive = drv.call(op="alive")
            raise util.ToolError("run %s: no request from the agent within the time-out (alive=%s) %s" % (run_id, alive, rg.agent_err()[-600:]))
        return r["request"]

    def next_status():
        rq = next_req()
        if rq["kind"] != "status":
            raise Drift("expected a status request, got %s %s" % (rq["kind"], rq.get("target")))
        return rq

    def observe():
        p = drv.call(op="proj")
        if p.get("panics"):
            raise util.ToolError("run %s: panic in the agent: %s" % (run_id, json.dumps(p["panics"])[:600]))
        if not p.get("alive", True):
            raise util.ToolError("run %s: the key keeper task ended" % run_id)
        obs, pol, npol, stray = abs_proj(p, init.get("inc"))
        hs = host.call(op="state")
        lat = "none" if hs["latched"] is None else GUID_REV.get(hs["latched"], "?")
        nam = "none" if hs["named"] is None else GUID_REV.get(hs["named"], "?")
        return obs, pol, npol, lat, nam, p

    trace = []
    observations = []
    rq = next_status()                      # the agent created its directory and is parked on its first poll
    obs, pol, npol, lat, nam, raw = observe()
    trace.append({"e": "run", "id": run_id, "obs": obs})
    init_dir = raw["dir"]
    samples = {"first_projection": raw}
    i = 1
    while i < len(rows):
        row = rows[i]
        e = row["e"]
        if e == "end":
            break
        if e == "reconf":
            cur_doc = row["doc"]
            cdoc = concrete_doc(cur_doc, random.Random(i * 7919 + base_seed))
            extras["now"] = "xFutureMember0" in cdoc
            host.call(op="set", doc=cdoc)
        elif e == "rotate":
            host.call(op="set", named=(None if row["named"] == "none" else G(row["named"])), latched=None)
        elif e == "relatch":
            host.call(op="set", named=G(row["g"]), latched=G(row["g"]))
        elif e == "crash":
            drv.call(op="restart")
            host.call(op="reply", id=rq["id"], action={"a": "drop"})
            rq = next_status()
            obs, pol, npol, lat, nam, raw = observe()
            trace.append({"e": "crash", "obs": obs})
        elif e == "poll":
            how = row["how"]
            if row["notify"]:
                drv.call(op="notify")         # the permit is stored now and consumed at the wait that ends this poll
            host.call(op="set", named_repr=how["named_repr"])
            served = cur_doc
            act = how["status"]
            if act.get("a") == "http_doc":
                hs0 = host.call(op="state")
                act = {"a": "http", "status": act["status"], "ctype": "application/json; charset=utf-8",
                       "body": json.dumps(error_document(cur_doc, hs0["named"]))}
            if how.get("delay_s"):
                time.sleep(how["delay_s"])      # a slow host: the (correct) answer is delivered after this long
            host.call(op="reply", id=rq["id"], action=act)
            seen = {"acquire": "-", "attest": "-"}
            mid_done = False
            while True:
                rq = next_req()
                k = rq["kind"]
                if k == "status":
                    break
                if k in ("acquire", "attest"):
                    if row["mid"]["at"] == k and not mid_done:
                        cur_doc = row["mid"]["doc"]
                        cdoc = concrete_doc(cur_doc, random.Random(i * 104729 + base_seed))
                        extras["now"] = "xFutureMember0" in cdoc
                        host.call(op="set", doc=cdoc)
                        mid_done = True
                    if k == "acquire":
                        if row["acquire"] == "ok":
                            host.call(op="set", issue_queue=[issue_entry(row["g"], init.get("inc"))])
                        seen["acquire"] = row["acquire"]
                        host.call(op="reply", id=rq["id"], action=how["acquire"])
                    else:
                        seen["attest"] = row["attest"]
                        host.call(op="reply", id=rq["id"], action=how["attest"])
                else:
                    host.call(op="reply", id=rq["id"], action={"a": "http", "status": 404})
                    raise Drift("unexpected request %s %s" % (rq.get("method"), rq.get("target")))
            obs, pol, npol, lat, nam, raw = observe()
            trace.append({"e": "poll", "status": row["status"], "acquire": seen["acquire"], "attest": seen["attest"],
                          "mid": mid_done, "notify": row["notify"], "doc": cur_doc, "served": served, "latched": lat,
                          "slow": bool(how.get("delay_s")), "errdoc": how["status"].get("a") == "http_doc",
                          "extras": bool(extras["now"]),
                          "obs": obs, "pol": pol, "npol": npol})
            observations.append({"obs": obs, "pol": pol, "npol": npol, "latched": lat, "named": nam})
            samples["last_projection"] = raw
        i += 1
    trace.append({"e": "end"})
    hl = host.call(op="log")["log"]
    samples["host_log"] = [{k: v for k, v in r.items() if k in ("seq", "kind", "method", "target", "action", "latched_after", "mac_ok")} for r in hl][:40]
    return trace, observations, samples


# ---------------------------------------------------------------------------------------------------------------
# TLC: expected projections for scripts, comparison

def script_rows_for_tlc(rows):
    out = []
    for r in rows:
        r = {k: v for k, v in r.items() if k not in ("how", "scenario", "inc")}
        out.append(r)
    return out


def expectations(c, scripts, name):
    """one TLC run of spec/gen/KeyKeeperGen over all scripts -> per script the list of EXPECT records"""
    path = os.path.join(util.TRACES, "%s_script.ndjson" % name)
    allrows = []
    for rows in scripts:
        allrows += script_rows_for_tlc(rows)
    util.write_ndjson(path, allrows)
    res = c.tlc("KeyKeeperGen", "KeyKeeperGen.cfg", subdir="gen", workers=1, coverage=False, timeout=900, heap="4g",
                env={"SCRIPT": path}, dfs_queue=True)
    exp = tlcmod.printed_json(res, "EXPECT")
    done = [l for l in res.stdout.splitlines() if l.startswith('<<"GENDONE"')]
    if len(done) != len(scripts):
        raise tlcmod.TlcError("KeyKeeperGen finished %d of %d scripts" % (len(done), len(scripts)))
    by_run = {}
    for x in exp:
        by_run.setdefault(x["run"], []).append(x)
    out = []
    for k in range(len(scripts)):
        xs = sorted(by_run.get(k + 1, []), key=lambda x: x["poll"])
        out.append(xs)
    return out


def compare(expect, observed, poll_row_):
    """S->I: differences between the state the specification prescribes at the end of a poll and the projection of the
    real agent at that instant"""
    d = []
    o = observed["obs"]
    m = expect["mem"]
    if o["key"] != m["key"]:
        d.append("key spec=%s impl=%s" % (m["key"], o["key"]))
    if o["state"] != m["state"]:
        d.append("state spec=%s impl=%s" % (m["state"], o["state"]))
    for ep in EPS:
        if o["ruleId"][ep] != m["ruleId"][ep]:
            d.append("ruleId[%s] spec=%r impl=%r" % (ep, m["ruleId"][ep], o["ruleId"][ep]))
        if o["rules"][ep] != m["rules"][ep]:
            d.append("rules[%s] spec=%s impl=%s" % (ep, m["rules"][ep], o["rules"][ep]))
    for a in AGUIDS:
        if o["final"][a] != expect["final"][a]:
            d.append("final[%s] spec=%s impl=%s" % (a, expect["final"][a], o["final"][a]))
        if o["tmp"][a] != expect["tmp"][a]:
            d.append("tmp[%s] spec=%s impl=%s" % (a, expect["tmp"][a], o["tmp"][a]))
    if observed["latched"] != expect["latched"]:
        d.append("host.latched spec=%s host=%s" % (expect["latched"], observed["latched"]))
    if observed["named"] != expect["named"]:
        d.append("host.named spec=%s host=%s" % (expect["named"], observed["named"]))
    changed = expect["changed"] and poll_row_["status"] == "ok"
    for ep in EPS:
        want = expect["policy"][ep] if changed else "none"
        if observed["pol"][ep] != want:
            d.append("policy[%s] spec=%s impl=%s" % (ep, want, observed["pol"][ep]))
    if observed["npol"] != (3 if changed else 0):
        d.append("policy updates spec=%d impl=%d" % (3 if changed else 0, observed["npol"]))
    return d


# ---------------------------------------------------------------------------------------------------------------
# C08: processes under strace, kill points, translation of system-call logs to events of spec/trace/KeyKeeperTraceFs

QUICK_SET = ["openat", "creat", "write", "writev", "pwrite64", "rename", "renameat", "renameat2", "fsync", "fdatasync",
             "connect", "socket", "sendto", "sendmsg", "recvfrom", "recvmsg", "read", "close", "shutdown", "mkdir",
             "chmod", "fchmod", "chown", "unlink", "unlinkat"]

_LINE = re.compile(r"^(\d+)\s+(\w+)\((.*)\)\s+= (-?\d+|\?)(.*)$")
_UNFIN = re.compile(r"^(\d+)\s+(\w+)\((.*) <unfinished \.\.\.>$")
_RESUM = re.compile(r"^(\d+)\s+<\.\.\. (\w+) resumed>(.*)\)\s+= (-?\d+|\?)(.*)$")
_STR = re.compile(r'"((?:[^"\\]|\\.)*)"')


def parse_strace(path, keys_dir):
    """-> (entries, killed).  entry: {i, pid, name, args, ret, ord (per pid+name ordinal, as strace's when= counts),
    obj: what the call is about ('key:<file>', 'keysdir', 'host', 'other'), strs: quoted string arguments}"""
    entries, pending, ords, fdmap = [], {}, {}, {}
    killed = False
    try:
        lines = open(path, errors="replace").read().splitlines()
    except OSError:
        return [], False
    for ln in lines:
        if "+++ killed by SIGKILL +++" in ln:
            killed = True
            continue
        m = _UNFIN.match(ln)
        if m:
            pending[(m.group(1), m.group(2))] = m.group(3)
            continue
        m = _RESUM.match(ln)
        if m:
            pid, name, rest, ret = m.group(1), m.group(2), m.group(3), m.group(4)
            args = pending.pop((pid, name), "") + rest
        else:
            m = _LINE.match(ln)
            if not m:
                continue
            pid, name, args, ret = m.group(1), m.group(2), m.group(3), m.group(4)
        k = (pid, name)
        ords[k] = ords.get(k, 0) + 1
        strs = [s for s in _STR.findall(args)]
        e = {"i": len(entries), "pid": pid, "name": name, "args": args, "ret": ret, "ord": ords[k], "strs": strs, "obj": "other",
             "injected": "(INJECTED)" in ln}
        r = None if ret == "?" else int(ret)
        fd0 = None
        m0 = re.match(r"^(\d+)[,)]?", args)
        if m0:
            fd0 = (pid, int(m0.group(1)))
        paths = [s for s in strs if s.startswith(keys_dir)]
        if name in ("openat", "creat", "open"):
            p = next((s for s in strs if s.startswith("/")), None)
            if p and p.startswith(keys_dir):
                e["obj"] = "key:" + os.path.basename(p) if p != keys_dir else "keysdir"
                e["flags"] = args
                if r is not None and r >= 0:
                    fdmap[(pid, r)] = e["obj"]
            elif r is not None and r >= 0:
                fdmap[(pid, r)] = "other"
        elif name == "socket":
            if r is not None and r >= 0:
                fdmap[(pid, r)] = "sock"
            e["obj"] = "host"
        elif name == "connect":
            if "168.63.129.16" in args and fd0:
                fdmap[fd0] = "host"
                e["obj"] = "host"
        elif name in ("rename", "renameat", "renameat2", "mkdir", "chmod", "chown", "unlink", "unlinkat", "statx", "newfstatat", "access", "stat", "lstat"):
            if paths:
                e["obj"] = "keysdir" if all(p == keys_dir for p in paths) else "key:" + os.path.basename(paths[-1])
                if name.startswith("rename") and len(paths) == 2:
                    e["from"], e["to"] = os.path.basename(paths[0]), os.path.basename(paths[1])
        elif fd0 is not None and fd0 in fdmap:
            o = fdmap[fd0]
            e["obj"] = "host" if o in ("host", "sock") and name in ("writev", "sendto", "sendmsg", "recvfrom", "recvmsg", "shutdown", "close", "read", "write", "getsockopt") else o
            if o == "sock":
                e["obj"] = "host"
            if name == "close":
                fdmap.pop(fd0, None)
        entries.append(e)
    return entries, killed


def relevant(e):
    return e["obj"] == "host" or e["obj"] == "keysdir" or e["obj"].startswith("key:")


def kill_points(entries, inject_set, every_tmp_write=6, all_points=False):
    """kill points of one baseline run from the first call on the key directory on: before every call that touches
    the key directory / a key file / the host socket and before the first other call after each of them (every call in
    `inject_set` when all_points).  A point is (syscall name, its ordinal) -- what strace's when= counts."""
    start = next((e["i"] for e in entries if relevant(e)), None)
    if start is None:
        return []
    pts, prev_rel, nw = [], False, 0
    for e in entries[start:]:
        if e["name"] not in inject_set:
            continue
        rel = relevant(e)
        take = all_points or rel or prev_rel
        if rel and not all_points and e["name"] in ("write", "writev") and e["obj"].endswith(".tmp"):
            nw += 1
            take = (nw % every_tmp_write == 1)
        if take:
            pts.append((e["name"], e["ord"], "%s %s" % (e["name"], e["obj"])))
        prev_rel = rel
    return pts


def translate(entries, keys_dir, attests=None):
    """system calls of one process -> rows for KeyKeeperTraceFs (consecutive equal rows merged).  attests: the host's
    records of the attestation requests it received from this process, in order (did it commit the latch?)"""
    rows = []
    attests = list(attests or [])

    def emit(r):
        if not rows or rows[-1] != r:
            rows.append(r)
    for e in entries:
        if e["ret"] == "?":
            continue                  # the call the process was killed before
        ok = int(e["ret"]) >= 0
        o, name = e["obj"], e["name"]
        if o.startswith("key:"):
            base, _, ext = o[4:].rpartition(".")
            g = GUID_REV.get(base, "?" + base)
            if name in ("openat", "creat", "open") and ok:
                wr = name == "creat" or "O_WRONLY" in e["args"] or "O_RDWR" in e["args"] or "O_CREAT" in e["args"]
                if ext == "tmp" and wr:
                    emit({"e": "fs", "op": "create_tmp", "g": g})
                elif ext == "key":
                    emit({"e": "fs", "op": "create_final" if wr else "open_final", "g": g})
            elif name in ("write", "writev", "pwrite64") and ok:
                emit({"e": "fs", "op": "write_tmp" if ext == "tmp" else "write_final", "g": g})
            elif name in ("read", "pread64", "readv") and ok and ext == "key" and int(e["ret"]) > 0:
                emit({"e": "fs", "op": "read_final", "g": g})
            elif name == "close" and ext == "tmp":
                emit({"e": "fs", "op": "close_tmp", "g": g})
            elif name.startswith("rename") and ok and e.get("to", "").endswith(".key"):
                emit({"e": "fs", "op": "rename", "g": g})
            elif name in ("unlink", "unlinkat") and ok and ext == "key":
                emit({"e": "fs", "op": "unlink_final", "g": g})
        elif o == "host" and name in ("writev", "sendto", "sendmsg", "write") and ok:
            s = e["strs"][0] if e["strs"] else ""
            if s.startswith("GET /secure-channel/status"):
                emit({"e": "net", "op": "status", "g": "none", "latches": False, "file": "unknown"})
            elif s.startswith("POST /secure-channel/key HTTP") or s.startswith("POST /secure-channel/key "):
                emit({"e": "net", "op": "acquire", "g": "none", "latches": False, "file": "unknown"})
            elif s.startswith("POST /secure-channel/key/"):
                guid = s[len("POST /secure-channel/key/"):].split("/")[0]
                rec = attests.pop(0) if attests else {}
                rows.append({"e": "net", "op": "attest", "g": GUID_REV.get(guid, "?" + guid),
                             "latches": bool(rec.get("latched") and rec.get("latched") == guid),
                             "file": rec.get("file_at_attest", "unknown")})
            elif s.startswith("GET /verif/signed"):
                emit({"e": "net", "op": "signed", "g": "none", "latches": False, "file": "unknown"})
    return rows


def read_keys_dir(keys_dir):
    files = []
    if os.path.isdir(keys_dir):
        for n in sorted(os.listdir(keys_dir)):
            try:
                b = open(os.path.join(keys_dir, n), "rb").read()
                files.append({"name": n, "size": len(b), "content": b[:4096].decode("utf-8", "replace")})
            except OSError:
                files.append({"name": n, "size": -1, "content": ""})
    return abs_dir({"files": files})


C08_SCENARIOS = {
    # name: (init scenario, named for 'rotated', queue of guids the host hands out)
    "fresh": ("fresh", None, ["g1", "g2", "g3", "g4", "g5", "g6"]),
    "restart-with-key": ("haskey", None, ["g2", "g3", "g4", "g5", "g6"]),
    "rotation": ("rotated", FOREIGN, ["g2", "g3", "g4", "g5", "g6"]),
    "rotation-unnamed": ("rotated", "none", ["g2", "g3", "g4", "g5", "g6"]),
    "unreadable-local-key": ("unreadable", None, ["g2", "g3", "g4", "g5", "g6"]),
    # where the host states the incarnation number of the key: 4th element = (keyIncarnationId of the status document or
    # None, incarnationId of the key documents and of a pre-stored key file, 0 = none).  The two are independent data.
    "fresh-inc-key-only": ("fresh", None, ["g1", "g2", "g3", "g4", "g5", "g6"], (None, 1)),
    "fresh-inc-status-only": ("fresh", None, ["g1", "g2", "g3", "g4", "g5", "g6"], (3, 0)),
    "fresh-inc-differ": ("fresh", None, ["g1", "g2", "g3", "g4", "g5", "g6"], (2, 1)),
    "fresh-inc-equal": ("fresh", None, ["g1", "g2", "g3", "g4", "g5", "g6"], (1, 1)),
    "restart-with-key-inc-key-only": ("haskey", None, ["g2", "g3", "g4", "g5", "g6"], (None, 1)),
    "restart-with-key-inc-differ": ("haskey", None, ["g2", "g3", "g4", "g5", "g6"], (5, 2)),
    # how the host spells its guids (5th element): every legal spelling names the same key
    "fresh-guid-upper": ("fresh", None, ["g1", "g2", "g3", "g4", "g5", "g6"], (None, 0), "upper"),
    "fresh-guid-nohyphen": ("fresh", None, ["g1", "g2", "g3", "g4", "g5", "g6"], (None, 1), "nohyphen"),
    "restart-with-key-guid-upper": ("haskey", None, ["g2", "g3", "g4", "g5", "g6"], (None, 0), "upper"),
    # the key directory also holds the files of keys the host refused (or rotated away from) whose modification times
    # are LATER than that of the latched key's file (the clock was stepped back before the latch): 6th element = those keys
    "restart-with-key-newer-leftovers": ("haskey", None, ["g7", "g8"], (None, 0), "lower", ["g2", "g3", "g4", "g5", "g6"]),
    "restart-with-key-older-leftovers": ("haskey", None, ["g7", "g8"], (None, 0), "lower", ["g2", "g3", "g4", "g5", "g6"]),
    # a key is already in memory (found locally / freshly latched) when the host drops its latch: the process goes on
    # polling (its signed probe is withheld), acquires the next key and attests it; plans: second-attest-ok|-lost|-err
    "rotation-while-loaded": ("haskey", None, ["g2", "g3", "g4", "g5", "g6"]),
    "rotation-while-loaded-fresh": ("fresh", None, ["g1", "g2", "g3", "g4", "g5", "g6"]),
}
INTERACTIVE = {"second-attest-ok": "ok", "second-attest-lost": "lost", "second-attest-err": "err"}
C08_PLANS = {
    "none": {},
    "status-fail": {"status": [{"a": "http", "status": 503}]},
    "status-invalid": {"status": [{"a": "raw200", "body": "{\"version\": \"1.0\"}"}]},
    "status-reset": {"status": [{"a": "reset"}]},
    "acquire-err": {"acquire": [{"a": "http", "status": 500}]},
    "acquire-malformed": {"acquire": [{"a": "raw200", "body": "{\"guid\": \"x\"}"}]},
    "attest-err": {"attest": [{"a": "http", "status": 403}]},
    "attest-lost": {"attest": [{"a": "lost"}]},
    "attest-reset": {"attest": [{"a": "reset"}]},
}


# transient storage faults: the first n calls of one kind on the key directory fail in the first process, every later
# call works again.  They are injected by path, not by position: a tiny LD_PRELOAD library (compiled on first use into
# .build) wraps open/openat/write/rename of the C library and fails, with counters shared by all threads of the process,
#   CREATE  opening <keys>/*.tmp with O_CREAT            (ENOSPC)      WRITE   writing into that file   (ENOSPC)
#   RENAME  renaming onto <keys>/*.key                   (EIO)         ROPEN   opening <keys>/*.key read-only (EIO)
# Nothing on the file system is touched, it works as root, it does not depend on which thread does the I/O or on
# how many other calls were made before, and every hit is written to a log the check reads back.
C08_FSFAULTS = {
    "store-create-fails": {"CREATE": 1},
    "store-write-fails": {"WRITE": 1},
    "store-rename-fails": {"RENAME": 1},
    "store-rename-fails-twice": {"RENAME": 2},
    "store-rename-fails+attest-lost": {"RENAME": 1},
    "readback-fails": {"ROPEN": 1},
    # the stored key cannot be read back for three polls in a row (or for every retry within one), then the disk heals
    "readback-fails-3x": {"ROPEN": 3},
}
for _n in C08_FSFAULTS:
    C08_PLANS[_n] = {}
for _n in INTERACTIVE:
    C08_PLANS[_n] = {}
C08_PLANS["store-rename-fails+attest-lost"] = C08_PLANS["attest-lost"]

SHIM_C = r"""
#define _GNU_SOURCE
#include <dlfcn.h>
#include <errno.h>
#include <fcntl.h>
#include <stdarg.h>
#include <stdatomic.h>
#include <stdio.h>
#include <stdlib.h>
#include <string.h>
#include <unistd.h>
#include <sys/types.h>

static const char *dir; static size_t dlen; static const char *logp;
static atomic_int n_create, n_write, n_rename, n_ropen, tmpfd = -1;
static int env_int(const char *n) { const char *v = getenv(n); return v ? atoi(v) : 0; }
__attribute__((constructor)) static void init(void) {
  dir = getenv("KKSHIM_DIR"); dlen = dir ? strlen(dir) : 0; logp = getenv("KKSHIM_LOG");
  n_create = env_int("KKSHIM_CREATE"); n_write = env_int("KKSHIM_WRITE");
  n_rename = env_int("KKSHIM_RENAME"); n_ropen = env_int("KKSHIM_ROPEN");
}
static int under(const char *p, const char *suffix) {
  if (!dir || !p || strncmp(p, dir, dlen) != 0 || p[dlen] != '/') return 0;
  size_t l = strlen(p), sl = strlen(suffix);
  return l > sl && strcmp(p + l - sl, suffix) == 0;
}
static int take(atomic_int *c) {
  int v = atomic_load(c);
  while (v > 0) { if (atomic_compare_exchange_weak(c, &v, v - 1)) return 1; }
  return 0;
}
static void note(const char *what, const char *path) {
  if (!logp) return;
  static int (*ropen)(const char *, int, ...);
  if (!ropen) ropen = dlsym(RTLD_NEXT, "open");
  static ssize_t (*rwrite)(int, const void *, size_t);
  if (!rwrite) rwrite = dlsym(RTLD_NEXT, "write");
  char b[600]; int n = snprintf(b, sizeof b, "%s %s\n", what, path ? path : "");
  int fd = ropen(logp, O_WRONLY | O_CREAT | O_APPEND | O_CLOEXEC, 0644);
  if (fd >= 0) { rwrite(fd, b, n); close(fd); }
}
static int gate(const char *path, int flags) {      /* -> errno to fail with, or 0 */
  if (under(path, ".tmp") && (flags & O_CREAT) && take(&n_create)) { note("CREATE", path); return ENOSPC; }
  if (under(path, ".key") && (flags & O_ACCMODE) == O_RDONLY && take(&n_ropen)) { note("ROPEN", path); return EIO; }
  return 0;
}
#define OPENLIKE(NAME)                                                        \
  int NAME(const char *path, int flags, ...) {                                \
    static int (*real)(const char *, int, ...);                               \
    if (!real) real = dlsym(RTLD_NEXT, #NAME);                                \
    mode_t mode = 0;                                                          \
    if (flags & (O_CREAT | O_TMPFILE)) { va_list ap; va_start(ap, flags); mode = va_arg(ap, mode_t); va_end(ap); } \
    int e = gate(path, flags);                                                \
    if (e) { errno = e; return -1; }                                          \
    int fd = real(path, flags, mode);                                         \
    if (fd >= 0 && under(path, ".tmp") && (flags & O_ACCMODE) != O_RDONLY) tmpfd = fd; \
    return fd;                                                                \
  }
OPENLIKE(open)
OPENLIKE(open64)
#define OPENATLIKE(NAME)                                                      \
  int NAME(int dfd, const char *path, int flags, ...) {                       \
    static int (*real)(int, const char *, int, ...);                          \
    if (!real) real = dlsym(RTLD_NEXT, #NAME);                                \
    mode_t mode = 0;                                                          \
    if (flags & (O_CREAT | O_TMPFILE)) { va_list ap; va_start(ap, flags); mode = va_arg(ap, mode_t); va_end(ap); } \
    int e = gate(path, flags);                                                \
    if (e) { errno = e; return -1; }                                          \
    int fd = real(dfd, path, flags, mode);                                    \
    if (fd >= 0 && under(path, ".tmp") && (flags & O_ACCMODE) != O_RDONLY) tmpfd = fd; \
    return fd;                                                                \
  }
OPENATLIKE(openat)
OPENATLIKE(openat64)
ssize_t write(int fd, const void *buf, size_t n) {
  static ssize_t (*real)(int, const void *, size_t);
  if (!real) real = dlsym(RTLD_NEXT, "write");
  if (fd >= 0 && fd == atomic_load(&tmpfd) && take(&n_write)) { note("WRITE", "tmp"); errno = ENOSPC; return -1; }
  return real(fd, buf, n);
}
int close(int fd) {
  static int (*real)(int);
  if (!real) real = dlsym(RTLD_NEXT, "close");
  int t = fd; atomic_compare_exchange_strong(&tmpfd, &t, -1);
  return real(fd);
}
int rename(const char *a, const char *b) {
  static int (*real)(const char *, const char *);
  if (!real) real = dlsym(RTLD_NEXT, "rename");
  if (under(b, ".key") && take(&n_rename)) { note("RENAME", b); errno = EIO; return -1; }
  return real(a, b);
}
"""


def shim_path():
    """the fault-injection library, compiled once per content into .build"""
    h = hashlib.sha256(SHIM_C.encode()).hexdigest()[:12]
    d = os.path.join(util.BUILD, "kkshim")
    so = os.path.join(d, "kkshim_%s.so" % h)
    if not os.path.exists(so):
        os.makedirs(d, exist_ok=True)
        src = os.path.join(d, "kkshim_%s_%d.c" % (h, os.getpid()))
        tmp = so + ".%d" % os.getpid()
        with open(src, "w") as f:
            f.write(SHIM_C)
        util.sh(["gcc", "-shared", "-fPIC", "-O1", "-o", tmp, src, "-ldl"], timeout=600)
        os.replace(tmp, so)
        os.unlink(src)
    return so


class Sweeper:
    """one rig (namespace + host); runs agent processes under strace on scenario/plan/kill point"""

    def __init__(self, name, bindir, all_syscalls=False):
        self.rg = Rig(name, bindir, serve=False, interval_ms=5, loggers=True)
        self.all = all_syscalls
        self.n = 0
        self.shim = shim_path()

    def close(self, keep=False):
        self.rg.close(keep=keep)

    def _prepare(self, scenario, plan):
        spec = C08_SCENARIOS[scenario] + ((None, 0), "lower", [])[len(C08_SCENARIOS[scenario]) - 3:]
        sc, named, queue, (status_inc, key_inc), spelling, leftovers = spec
        Gs = lambda a: spell(G(a), spelling)
        init = init_row(adoc("1.0", "wireserver"), sc, named=named)
        init["inc"] = {a: key_inc for a in AGUIDS}
        for a in leftovers:
            init["final"][a] = "key"
            init["issued"] = init["issued"] + [a]
        cdoc = concrete_doc(init["doc"])
        if status_inc is not None:
            cdoc["keyIncarnationId"] = status_inc
        rg = self.rg
        rg.host.call(op="reset")
        rg.reset_keys(_files_for(init, spelling), absent=(init["dir"] == "absent"))
        if leftovers:
            # the latched key was written an hour ago; the others carry later (newer-) or earlier (older-) time stamps
            now = time.time()
            newer = "newer" in scenario
            for a in init["final"]:
                f = os.path.join(rg.keys, Gs(a) + ".key")
                if os.path.exists(f):
                    t = now - 3600 if a == init["latched"] else (now - 60 * AGUIDS.index(a) if newer else now - 7200 - 60 * AGUIDS.index(a))
                    os.utime(f, (t, t))
        shutil.rmtree(rg.logs, ignore_errors=True)
        os.makedirs(rg.logs, exist_ok=True)
        rg.host.call(op="set", hold=False, keydir=rg.keys, doc=cdoc, keys={Gs(a): K(a) for a in init["issued"]},
                     named=None if init["named"] == "none" else Gs(init["named"]),
                     latched=None if init["latched"] == "none" else Gs(init["latched"]),
                     issue_queue=[issue_entry(a, init["inc"], spelling) for a in queue], plans=C08_PLANS[plan])
        return init

    def _rotate_while_loaded(self, pid, second_attest):
        """controller of the 'a key is in memory when the latched key changes' scenario.  The host withholds every request
        and this loop answers them at once -- except the signed probe the driver sends when the first key is published:
        while that probe is withheld the process lives on and keeps polling with a key in memory.  At that moment the
        host drops its latch; the attestation of the next key is answered as `second_attest` (ok | lost | err); the loop
        ends when the third status request after the new latch arrives (the agent is then parked between two polls), or
        when the process is gone.  -> sequence number of the probe (the host dropped its latch right after it)"""
        host = self.rg.host

        def gone():
            try:
                return open("/proc/%d/stat" % pid).read().rsplit(")", 1)[1].split()[0] == "Z"
            except (OSError, IndexError):
                return True
        probe, rotated_at, relatched, second_done, statuses, t_end = None, None, False, False, 0, time.time() + 15
        while time.time() < t_end:
            r = host.call(op="next", timeout=0.05)
            if r.get("timeout"):
                if gone():
                    break
                continue
            rq = r["request"]
            k = rq.get("kind")
            if k == "signed" and probe is None:
                probe, rotated_at = rq, rq["seq"]
                host.call(op="set", named=None, latched=None)       # the host forgets the latch: rotation
                continue
            act = {"a": "ok"}
            if k == "attest" and probe is not None and not relatched and not second_done:
                act = {"ok": {"a": "ok"}, "lost": {"a": "lost"}, "err": {"a": "http", "status": 403}}[second_attest]
                second_done = True
            if k == "status" and relatched:
                statuses += 1
                if statuses >= 3:
                    break                                            # left unanswered: the agent is parked
            host.call(op="reply", id=rq["id"], action=act)
            if k == "attest" and probe is not None and not relatched:
                for _ in range(200):       # until the host has dealt with it (the withheld probe keeps the host "busy")
                    rec = [x for x in host.call(op="log", since=rq["seq"] - 1)["log"] if x["seq"] == rq["seq"]]
                    if rec and "latched_after" in rec[0]:
                        break
                    time.sleep(0.005)
                relatched = host.call(op="state")["latched"] is not None
        if probe is not None:
            host.call(op="reply", id=probe["id"], action={"a": "ok"})   # signed with the first key: the host judges it
        return rotated_at

    def _spawn(self, tag, inject=None, fault=None, interactive=None):
        """fault: counters of the storage-fault library for this process (None: the library is not loaded);
        interactive: outcome of the second attestation in the rotate-while-loaded scenario (None: ordinary run)"""
        rg = self.rg
        self.n += 1
        log = os.path.join(rg.dir, "st_%s.log" % tag)
        try:
            os.unlink(log)
        except FileNotFoundError:
            pass
        argv = ["strace", "-f", "-s", "200", "-o", log, "-e", "trace=all" if self.all else "trace=file,network,desc"]
        if inject:
            argv += ["-e", "inject=%s:signal=KILL:when=%d" % inject]
        argv.append(rg.exe)
        out = os.path.join(rg.dir, "once_%s.out" % tag)
        open(out, "w").close()
        extra = {"VERIF_KK_AUTONOTIFY": "1", "VERIF_KK_ONCE_TIMEOUT_MS": "6000"}
        hits_log = os.path.join(rg.dir, "shim_%s.log" % tag)
        try:
            os.unlink(hits_log)
        except FileNotFoundError:
            pass
        if fault:
            extra.update({"LD_PRELOAD": self.shim, "KKSHIM_DIR": rg.keys, "KKSHIM_LOG": hits_log})
            extra.update({"KKSHIM_" + k: str(v) for k, v in fault.items()})
        rotated_at = None
        if interactive:
            rg.host.call(op="set", hold=True, plans={})
            sp = rg.host.call(op="spawn", argv=argv, cwd=rg.dir, stdout=out, stderr=os.path.join(rg.dir, "once.err"),
                              env=rg.agent_env("once", extra))
            try:
                rotated_at = self._rotate_while_loaded(sp["pid"], interactive)
            finally:
                r = rg.host.call(op="wait", pid=sp["pid"], timeout=10, _to=25)
                rg.host.call(op="set", hold=False)      # first: nothing that still arrives from the ended process is withheld
                for rid in rg.host.call(op="state").get("pending", []):     # what was withheld is dropped
                    rg.host.call(op="reply", id=rid, action={"a": "drop"})
        else:
            r = rg.host.call(op="run", argv=argv, cwd=rg.dir, timeout=25, _to=40, stdout=out, stderr=os.path.join(rg.dir, "once.err"),
                             env=rg.agent_env("once", extra))
        hits = []
        if fault and os.path.exists(hits_log):
            hits = [ln.split(" ", 1) for ln in open(hits_log, errors="replace").read().splitlines() if ln.strip()]
        entries, killed = parse_strace(log, rg.keys)
        res = {}
        for ln in open(out, errors="replace").read().splitlines():
            if ln.startswith("{"):
                try:
                    res = json.loads(ln)
                except ValueError:
                    pass
        return {"rc": r.get("rc"), "timeout": r.get("timeout", False), "entries": entries, "killed": killed, "result": res,
                "rotated_at": rotated_at, "fault_hits": [[h[0], os.path.basename(h[1]) if len(h) > 1 else ""] for h in hits]}

    def _observe(self, damaged):
        q = self.rg.host.call(op="quiesce", timeout=5)
        if not q.get("quiet"):
            raise util.ToolError("the scripted host is still busy with a connection of an ended process")
        final, tmp, stray = read_keys_dir(self.rg.keys)
        hs = self.rg.host.call(op="state")
        lat = "none" if hs["latched"] is None else GUID_REV.get(hs["latched"], "?")
        return {"final": final, "tmp": tmp, "latched": lat, "damaged": sorted(damaged), "stray": stray}

    def baseline(self, scenario, plan):
        """an undisturbed run of the scenario (with the plan's storage fault, if it has one) -> its kill points"""
        self._prepare(scenario, plan)
        r = self._spawn("base", fault=C08_FSFAULTS.get(plan), interactive=INTERACTIVE.get(plan))
        if r["rc"] != 0 and not (plan in INTERACTIVE and r["rc"] == 4):
            raise util.ToolError("baseline run of %s/%s failed rc=%s %s: %s" % (scenario, plan, r["rc"], r["result"], self.rg.agent_err()[-400:]))
        inj = sorted({e["name"] for e in r["entries"]}) if self.all else QUICK_SET
        return kill_points(r["entries"], set(inj), all_points=self.all), len(r["entries"])

    def case(self, case_id, scenario, plan, point):
        """first process (killed before `point`, or undisturbed when point is None), then a fresh process on the same
        directory and host -> (rows for KeyKeeperTraceFs, summary)"""
        rg = self.rg
        init = self._prepare(scenario, plan)
        fault = C08_FSFAULTS.get(plan)
        r1 = self._spawn("first", inject=(point[0], point[1]) if point else None, fault=fault, interactive=INTERACTIVE.get(plan))
        damaged = set(init["damaged"])
        rows = [{"e": "case", "id": case_id, "final0": init["final"], "latched0": init["latched"], "damaged": sorted(damaged)},
                {"e": "spawn"}]
        # (the probe of the rotate-while-loaded scenario is signed with the key the host has since dropped: refused, rc 4)
        if r1["timeout"] or (r1["rc"] not in ((0, 4, -9) if plan in INTERACTIVE else (0, -9)) and not r1["killed"]):
            raise util.ToolError("case %s: first process ended rc=%s %s %s" % (case_id, r1["rc"], r1["result"], rg.agent_err()[-300:]))
        o1 = self._observe(damaged)
        hl1 = rg.host.call(op="log")["log"]
        rows += translate(r1["entries"], rg.keys, [x for x in hl1 if x["kind"] == "attest"])
        if r1.get("rotated_at") is not None:
            # the host dropped its latch while the probe was withheld, i.e. right after the probe was sent
            for j, x in enumerate(rows):
                if x.get("e") == "net" and x.get("op") == "signed":
                    rows.insert(j + 1, {"e": "host", "op": "unlatch"})
                    break
        base = {"restart": False, "latched0": "none", "good0": False, "acquires": sum(1 for x in hl1 if x["kind"] == "acquire"),
                "signedGuid": "none", "signedOk": False}
        rows.append(dict({"e": "exit", "killed": bool(r1["killed"])}, **{k: o1[k] for k in ("final", "tmp", "latched", "damaged")}, **base))
        killed_at = None
        if r1["killed"]:
            last = next((e for e in reversed(r1["entries"]) if e["ret"] == "?"), None)
            killed_at = "%s %s" % (last["name"], last["obj"]) if last else "?"
        # restart: no more host faults, a fresh process
        rg.host.call(op="set", plans={})
        seq0 = rg.host.call(op="state")["seq"]
        lat0 = o1["latched"]
        good0 = lat0 in o1["final"] and o1["final"][lat0] == "key" and lat0 not in damaged
        rows.append({"e": "spawn"})
        r2 = self._spawn("restart")
        o2 = self._observe(damaged)
        hl2 = [x for x in rg.host.call(op="log")["log"] if x["seq"] > seq0]
        rows += translate(r2["entries"], rg.keys, [x for x in hl2 if x["kind"] == "attest"])
        unknown = [x.get("issued") for x in hl1 + hl2 if x["kind"] == "acquire" and x.get("issued") and x["issued"] not in GUID_REV]
        if unknown:
            raise util.ToolError("case %s (%s/%s): the host ran out of scripted keys (%s)" % (case_id, scenario, plan, unknown[:2]))
        signed = [x for x in hl2 if x["kind"] == "signed"]
        sg = signed[-1] if signed else {}
        rows.append(dict({"e": "exit", "killed": False, "restart": True, "latched0": lat0, "good0": bool(good0),
                          "acquires": sum(1 for x in hl2 if x["kind"] == "acquire"),
                          "signedGuid": GUID_REV.get(sg.get("mac_guid"), "none") if sg else "none",
                          "signedOk": bool(sg.get("accepted")) and r2["rc"] == 0},
                         **{k: o2[k] for k in ("final", "tmp", "latched", "damaged")}))
        rows.append({"e": "end"})
        summary = {"case": case_id, "scenario": scenario, "plan": plan, "point": list(point) if point else None,
                   "killed": bool(r1["killed"]), "killed_before": killed_at,
                   "storage_fault": fault, "storage_fault_hit": r1["fault_hits"], "latched_at_kill": lat0, "good_local": bool(good0),
                   "restart_rc": r2["rc"], "restart_result": r2["result"].get("result"), "restart_acquires": rows[-2]["acquires"],
                   "final_after_kill": o1["final"], "tmp_after_kill": o1["tmp"],
                   "host_requests_first": [x["kind"] for x in hl1], "host_requests_restart": [x["kind"] for x in hl2]}
        return rows, summary


def cleanup_traces(prefix):
    """trace/script files of this process are scratch once TLC has decided them (violating cases are saved as replays)"""
    d = util.TRACES
    try:
        for n in os.listdir(d):
            if n.startswith(prefix) and ("_%d" % os.getpid()) in n:
                os.unlink(os.path.join(d, n))
    except OSError:
        pass
