"""C17 — the setup tool's upgrade is reversible (backup / install / restore / uninstall / purge).

spec/Setup.tla: every command of proxy_agent_setup as the sequence of file / systemctl steps of main.rs + linux.rs,
checked exhaustively by TLC (complete reachable graph: command sequences of every length from the six initial
states).  S->I: spec/gen/SetupGen.tla prints every behaviour of N commands with the abstract state expected after
each command; each is replayed on the REAL release binary inside a private mount namespace with overlayfs over
/etc /usr /var ... and a stand-in systemctl (harness/sys), and the projected file system is compared after every
command.  I->S: everything observed is validated by TLC against the property-level trace spec
spec/trace/SetupTrace.tla; a divergence from the model is a violation only if that spec rejects it.

Environment dimension "same file system" (Setup.tla: SameFs): every behaviour is replayed in two layouts of the
private mount namespace (harness/sys/ns_enter.sh): "separate" = the tool's folder, /etc and /usr are three mounts
(link(2)/rename(2) between them fail with EXDEV) and "samefs" = chroot into ONE overlay of the whole root whose
upper layer is a private tmpfs, the tool's folder being /var/lib/waagent/verif-c17-setup (link(2) into /etc/azure,
/usr/sbin, /usr/lib/azure-proxy-agent, /usr/lib/systemd/system succeeds; a probe proves it before any replay).
The expected contents are the same in both (Setup.tla: BackupIsSeparate).

Environment dimension "the wall clock is stepped between two commands" (Setup.tla: ClockSteps): the statement scenarios
and a seeded tenth of the behaviours in which a restore finds a backup are replayed once more, in both layouts, with
the time stamps of every file of the tool's world moved between two commands (replay.py step_clock: +180 s = the clock
was stepped back 3 minutes, -8 days = 8 days have passed).  Chosen over an LD_PRELOAD CLOCK_REALTIME shim because the
tool is a static-friendly Rust binary that also spawns /bin/sh children and file time stamps come from the kernel, not
from the shimmed clock: moving the stamps is exactly what a later command can observe of a step.  The expected contents
are the same (the design reads neither the clock nor a time stamp)."""
import hashlib
import json
import os
import random
import re
import shutil
import subprocess
import sys

from vlib import tlc as tlcmod
from vlib import util
from vlib.ctx import validate_trace

SYSDIR = os.path.join(util.VERIF, "harness", "sys")
NS_ENTER = os.path.join(SYSDIR, "ns_enter.sh")
REPLAY = os.path.join(SYSDIR, "replay.py")
SCRATCH = os.path.join(util.BUILD, "c17", "run-%d" % os.getpid())
LOCS = ("exe", "cfg", "ebpf", "unit")
LAYOUTS = ("separate", "samefs")
SAMEFS_SUFFIX = "@samefs"
CLOCKS = {"back3m": 180, "fwd8d": -8 * 86400}      # name -> shift of the files' time stamps in seconds
ACTIONS = ["Begin", "DoCall", "DoCheckBackup", "DoProbe", "DoCopyIn", "DoCopyUnit", "DoBackupFile",
           "DoRemoveUnit", "DoDeleteFile", "DoDeleteBackup", "ClockStep"]
# command-line spellings tried for "restore without backup deletion" (args.rs: positional `delete_backup: bool`)
RESTORE_F_SPELLINGS = [["restore", "false"], ["restore", "--delete-backup=false"], ["restore", "--delete-backup", "false"],
                       ["restore", "--delete_backup=false"], ["restore", "--", "false"], ["restore", "0"],
                       ["restore", "no"], ["restore", "False"]]

ASSUME = [
    "TLC 1.8 and the CommunityModules Json/IOUtils are correct",
    "the kernel's overlayfs and mount namespaces isolate the run: what the tool does to /etc, /usr, /var, /tmp, /root, "
    "/home, /opt, /srv, /mnt, /media lands in the upper layers under .build/ which the driver lists in full after every command",
    "file-system layout is a two-valued environment dimension: tool folder on another mount than /etc and /usr (link and "
    "rename into the system directories fail with EXDEV), and tool folder, /etc/azure, /usr/sbin, /usr/lib/azure-proxy-agent, "
    "/usr/lib/systemd/system on ONE mount (an overlayfs of the whole root with a tmpfs upper layer, entered with chroot; "
    "link(2) succeeds, proven by a probe before every worker's replays); mixed layouts (/etc and /usr on different file "
    "systems, tool folder on one of them) are not run; overlayfs stands for the VM's root file system as far as "
    "link/rename/O_TRUNC semantics of files created inside the sandbox go",
    "a step of the wall clock between two commands is realised by moving the access/modification times of every file and "
    "directory the tool reads or writes (system locations, tool folder with package, Backup and log) by +180 s (clock "
    "stepped back 3 minutes) or -8 days (8 days later); ctime and the stamps of unrelated files are not moved; steps while a "
    "command runs are out of scope",
    "systemctl is replaced by a stand-in that always succeeds and records its argv plus the hashes of the four system "
    "locations at call time; failures of the real service manager are out of scope",
    "the agent executable is a stand-in script answering --version (the only thing the tool runs it for); file contents "
    "are seeded random bytes (1 B .. 70 KB, non-empty, distinct per version)",
    "the package in the setup folder is complete (four files) in every initial state; initial states are all-or-nothing "
    "(a version installed or nothing, a complete backup or none) as in the property's quantifier; partially "
    "installed states are reached only through commands",
    "ordering between systemctl calls and file replacement is read from the stand-in's snapshots for every command and "
    "cross-checked with strace -f on a seeded subset",
    "RoundTrip / StartedAfter are claimed when a version was installed (all four files present) at backup time and, for "
    "restore, when the backup is complete; the tool's behaviour from partial states is modelled and compared but not judged",
]


# ---------------------------------------------------------------------------------------------
def target_dir():
    if os.path.realpath(util.REPO) == "/repo":
        return os.path.join(util.BUILD, "cargo", "setup")
    return os.path.join(util.BUILD, "cargo", "setup-" + hashlib.sha256(os.path.realpath(util.REPO).encode()).hexdigest()[:8])


def build_setup(release=True, timeout=1800):
    td = target_dir()
    os.makedirs(td, exist_ok=True)
    cmd = ["cargo", "build", "--offline", "--locked", "--quiet", "-p", "proxy_agent_setup", "--target-dir", td]
    if release:
        cmd.insert(2, "--release")
    t = util.Timer()
    p = util.sh(cmd, cwd=util.REPO, env={"CARGO_NET_OFFLINE": "true", "CARGO_TERM_COLOR": "never"},
                timeout=timeout, check=False)
    if p.returncode != 0:
        raise util.ToolError("cargo build of proxy_agent_setup failed:\n%s" % (p.stdout or "")[-6000:])
    util.log("built proxy_agent_setup (%s) in %ss" % ("release" if release else "debug", t.s()))
    exe = os.path.join(td, "release" if release else "debug", "proxy_agent_setup")
    if not os.path.isfile(exe):
        raise util.ToolError("no binary at %s" % exe)
    return exe


LINK_PROBES = {}      # layout -> what link(2) from Backup/Package into each system directory gave (last worker)


def start_worker(name, setup_bin, behaviours, seed, argv=None, layout="separate"):
    if layout not in LAYOUTS:
        raise util.ToolError("unknown layout %r" % layout)
    S = os.path.join(SCRATCH, name)
    shutil.rmtree(S, ignore_errors=True)
    os.makedirs(S)
    job = {"scratch": S, "setup_bin": setup_bin, "seed": seed, "behaviours": behaviours, "argv": argv or {},
           "layout": layout}
    jp, op = os.path.join(S, "job.json"), os.path.join(S, "out.ndjson")
    with open(jp, "w") as f:
        json.dump(job, f)
    env = dict(os.environ)
    env["PYTHONDONTWRITEBYTECODE"] = "1"
    env["VERIF_C17_LAYOUT"] = layout
    p = subprocess.Popen([NS_ENTER, S, sys.executable, REPLAY, jp, op], stdout=subprocess.PIPE, stderr=subprocess.STDOUT,
                         env=env, text=True, errors="replace")
    return {"S": S, "p": p, "out": op, "n": len(behaviours), "layout": layout}


def finish_worker(w, timeout):
    try:
        out, _ = w["p"].communicate(timeout=timeout)
    except subprocess.TimeoutExpired:
        w["p"].kill()
        raise util.ToolError("replay worker timed out after %ss (%s)" % (timeout, w["S"]))
    if w["p"].returncode != 0:
        raise util.ToolError("replay worker failed rc=%s (%s): %s" % (w["p"].returncode, w["S"], (out or "")[-3000:]))
    recs = util.read_ndjson(w["out"])
    if len(recs) != w["n"]:
        raise util.ToolError("replay worker returned %d of %d behaviours (%s)" % (len(recs), w["n"], w["S"]))
    # vacuity guard of the layout dimension: the driver's link probe (it refuses to replay otherwise; checked again here)
    try:
        lp = util.read_json(os.path.join(w["S"], "layout.json"))
    except (OSError, ValueError) as ex:
        raise util.ToolError("replay worker left no layout probe (%s): %s" % (w["S"], ex))
    want = "linked" if w["layout"] == "samefs" else "EXDEV"
    if lp.get("layout") != w["layout"] or len(lp.get("link_into", {})) != 4 or any(v != want for v in lp["link_into"].values()):
        raise util.ToolError("layout %s is not what it claims: link probe %r" % (w["layout"], lp))
    LINK_PROBES[w["layout"]] = {"setup_folder": lp["setup_folder"], "link_from_Backup/Package_into": lp["link_into"]}
    shutil.rmtree(os.path.join(w["S"], "ov"), ignore_errors=True)
    return recs


# Commands that exceeded their time limit (machine load): the driver aborts only that behaviour and runs it once more
# at the end of its worker.  A behaviour that times out twice, or more than 0.5 % of all behaviours timing out, is a
# tool error; anything less is counted in the evidence (coverage.tool_timeouts) and nothing of the aborted attempt
# is compared, judged or fed to the trace spec.
TIMEOUTS = {"behaviours_run": 0, "timed_out_once": [], "limit": 0.005}


def note_timeouts(recs):
    TIMEOUTS["behaviours_run"] += len(recs)
    twice = []
    for r in recs:
        if r.get("timeouts"):
            entry = {"id": r["id"], "attempts": [{"argv": t["argv"], "timeout_s": t["timeout"],
                                                   "processes": t["processes"][:8]} for t in r["timeouts"]]}
            if r.get("aborted"):
                twice.append(entry)
            else:
                TIMEOUTS["timed_out_once"].append(entry)
                util.log("setup tool timed out once (re-run succeeded): %s" % json.dumps(entry)[:600])
    if twice:
        raise util.ToolError("setup tool timed out twice on the same behaviour: %s" % json.dumps(twice)[:2000])


def check_timeout_rate(c):
    n, k = TIMEOUTS["behaviours_run"], len(TIMEOUTS["timed_out_once"])
    c.extra["tool_timeouts"] = {"count": k, "behaviours_run": n, "re_run_succeeded": k,
                                "detail": TIMEOUTS["timed_out_once"][:5]}
    if k > TIMEOUTS["limit"] * n:
        raise util.ToolError("%d of %d behaviours hit the setup tool's time limit (> 0.5%%): %s"
                             % (k, n, json.dumps(TIMEOUTS["timed_out_once"][:3])[:1500]))


def replay_start(setup_bin, behaviours, seed, workers, argv=None, tag="w", layout="separate"):
    if not behaviours:
        return []
    workers = max(1, min(workers, len(behaviours)))
    chunks = [behaviours[k::workers] for k in range(workers)]
    return [start_worker("%s%d" % (tag, k), setup_bin, ch, seed, argv, layout) for k, ch in enumerate(chunks)]


def replay_many(setup_bin, behaviours, seed, workers, argv=None, timeout=3000, tag="w", layout="separate"):
    """behaviours: [{id, init, cmds, trace?}] -> {id: observation record}"""
    return replay_finish(replay_start(setup_bin, behaviours, seed, workers, argv, tag, layout), timeout)


def replay_finish(ws, timeout=3000):
    out = {}
    err = None
    for w in ws:
        try:
            for r in finish_worker(w, timeout):
                out[r["id"]] = r
        except util.ToolError as ex:
            err = err or ex
    if err:
        raise err
    note_timeouts(list(out.values()))
    return out


# ---------------------------------------------------------------------------------------------
def exit_of(res):
    return {"ok": 0, "skip": 0, "fail": 1, "panic": 101}.get(res, 0)


def svc_after(svc, calls):
    for cl in calls:
        if cl["v"] == "stop":
            svc = "stopped"
        elif cl["v"] == "start":
            svc = "running"
    return svc


def compare(beh, obs):
    """S->I: expected abstract state after each command vs the projection of the real file system.
    Returns a list of (step index, component, expected, got)."""
    diffs = []
    io = obs["init"]
    for k in ("sys", "bak", "pkg", "bdir"):
        if io[k] != beh["init"][k]:
            raise util.ToolError("harness could not establish the initial state (%s): %r vs %r" % (k, io[k], beh["init"][k]))
    for i, (e, o) in enumerate(zip(beh["steps"], obs["steps"])):
        for k in ("sys", "bak", "bdir"):
            if o[k] != e[k]:
                diffs.append((i, k, e[k], o[k]))
        if o["pkg"] != beh["init"]["pkg"]:
            diffs.append((i, "pkg", beh["init"]["pkg"], o["pkg"]))
        if o["rest"] != "r0":
            diffs.append((i, "rest", "r0", o["rest"]))
        if o.get("bak_extra"):
            diffs.append((i, "bak_extra", [], o["bak_extra"]))
        if o.get("bak_is_live_inode"):
            # Setup.tla BackupIsSeparate: a backup file that IS the live file (hard link).  Like every divergence it
            # is decided by the property on the whole observed behaviour, not by itself
            diffs.append((i, "bak-shares-inode", [], o["bak_is_live_inode"]))
        if [c["v"] for c in o["calls"]] != [c["v"] for c in e["calls"]]:
            diffs.append((i, "calls", [c["v"] for c in e["calls"]], [c["v"] for c in o["calls"]]))
        elif [c["s"] for c in o["calls"]] != [c["s"] for c in e["calls"]]:
            diffs.append((i, "call-snapshots", [c["s"] for c in e["calls"]], [c["s"] for c in o["calls"]]))
        if o["exit"] != exit_of(e["res"]):
            diffs.append((i, "exit", exit_of(e["res"]), o["exit"]))
        st = o.get("strace")
        if st:
            if st["outside"]:
                diffs.append((i, "strace-outside", [], st["outside"]))
            complete = st["systemctl"] == [cl["v"] for cl in o["calls"]] and len(st["w"]) == len(o["calls"])
            if not complete:
                pass            # the trace could not be aligned with the stand-in's log: snapshots only
            elif len(st["w"]) == len(e["calls"]) and st["w"] != [cl["w"] for cl in e["calls"]]:
                diffs.append((i, "strace-write-order", [cl["w"] for cl in e["calls"]], st["w"]))
            elif (st["mutations"] > 0) != e["wrote"]:
                diffs.append((i, "strace-wrote", e["wrote"], st["mutations"] > 0))
        if diffs and diffs[-1][0] == i:
            break           # states after the first divergent command are not comparable
    return diffs


def written_flags(o, pre_sys):
    """(w flag of every systemctl call, wrote) for one observed command: from strace when the command was traced
    (a successful write-open / unlink / rename of a system location precedes the call), else from the stand-in's
    snapshots (weaker: cannot see a rewrite with identical bytes)"""
    st = o.get("strace")
    if st and st.get("systemctl") == [cl["v"] for cl in o["calls"]] and len(st.get("w", [])) == len(o["calls"]):
        return list(st["w"]), st["mutations"] > 0
    w = [cl["s"] != pre_sys for cl in o["calls"]]
    return w, (o["sys"] != pre_sys or any(w))


def rows_of(beh, obs):
    """ndjson rows for SetupTrace.tla from what was observed (nothing from the model but the initial svc)"""
    io = obs["init"]
    svc = beh["init"]["svc"]
    rows = [{"e": "reset", "sys": io["sys"], "bak": io["bak"], "bdir": io["bdir"], "pkg": io["pkg"], "rest": io["rest"],
             "svc": svc}]
    pre_sys = io["sys"]
    for o in obs["steps"]:
        svc = svc_after(svc, o["calls"])
        rest = o["rest"]
        st = o.get("strace")
        if st and st["outside"] and rest == "r0":
            rest = "changed:strace:" + ",".join(st["outside"][:4])
        w, wrote = written_flags(o, pre_sys)
        rows.append({"e": "cmd", "c": o["c"], "res": "ok" if o["exit"] == 0 else "fail", "sys": o["sys"], "bak": o["bak"],
                     "bdir": o["bdir"], "pkg": o["pkg"], "rest": rest, "svc": svc, "wrote": wrote,
                     "calls": [{"v": cl["v"], "s": cl["s"], "w": wk} for cl, wk in zip(o["calls"], w)]})
        pre_sys = o["sys"]
    return rows


def is_arg_rejection(step):
    return step["exit"] == 2 and "Usage:" in step.get("out_tail", "") and "error:" in step.get("out_tail", "")


def slim(obs):
    o = json.loads(json.dumps(obs))
    for s in o["steps"]:
        s["out_tail"] = s.get("out_tail", "")[-300:]
    return o


class Judge:
    """decides a behaviour against the property: replay (traced), trace-validate; a rejection must reproduce"""

    def __init__(self, c, setup_bin, argv):
        self.c, self.bin, self.argv, self.n = c, setup_bin, argv, 0

    def run_once(self, beh, traced=True):
        self.n += 1
        b = {"id": beh["id"], "init": beh["init"], "cmds": beh["cmds"], "trace": traced}
        if beh.get("clock"):
            b["clock"] = {"after": min(beh["clock"]["after"], len(beh["cmds"]) - 1), "shift": beh["clock"]["shift"]}
        obs = replay_many(self.bin, [b], self.c.seed, 1, self.argv, timeout=600, tag="j",
                          layout=beh.get("layout", "separate"))[beh["id"]]
        ok, why, _ = validate_trace(self.c, "SetupTrace", "SetupTrace.cfg", rows_of(beh, obs),
                                    "c17_judge%d" % self.n, count=0)
        return ok, why, obs

    def decide(self, beh, what):
        ok, why, obs = self.run_once(beh)
        if ok:
            return True, "", obs
        ok2, why2, obs2 = self.run_once(beh)
        if ok2 or why2 != why:
            raise util.ToolError("unreproduced rejection (%s then %s) for %s: %s" % (why, why2 or "accepted", what, beh["cmds"]))
        return False, why, obs2


def report(c, beh, obs, why, diffs, what):
    bad = None
    for s in obs["steps"]:
        if s["c"] == "restoreF" and is_arg_rejection(s):
            bad = s
            break
    layout = beh.get("layout", "separate")
    case = {"init": beh["init"], "cmds": beh["cmds"], "layout": layout, "clock": beh.get("clock"),
            "observed": slim(obs), "expected": beh.get("steps"),
            "divergence": [list(d) for d in diffs[:5]], "rejected_by": why}
    if bad is not None:
        sig = {"kind": "restore-delete-backup-arg"}
        msg = ("`proxy_agent_setup %s` is rejected by the argument parser (exit %d: %s), so restore without backup "
               "deletion cannot be requested; on %s the trace spec rejects the observed behaviour: %s"
               % (" ".join(bad["argv"]), bad["exit"], bad["out_tail"].strip().splitlines()[0][:160] if bad["out_tail"].strip() else "",
                  beh["cmds"], why))
    else:
        d = diffs[0] if diffs else (len(obs["steps"]) - 1, "?", None, None)
        sig = {"kind": "property", "broken": why, "cmd": obs["steps"][min(d[0], len(obs["steps"]) - 1)]["c"], "component": d[1]}
        msg = "%s: %s on %s from %s; first divergence from the model at command %d (%s): expected %r, got %r" % (
            what, why, beh["cmds"], {k: beh["init"][k]["exe"] for k in ("sys", "bak", "pkg")}, d[0] + 1, d[1], d[2], d[3])
        if layout != "separate":
            sig["layout"] = layout
            last = obs["steps"][-1]
            msg += ("; layout %s (tool folder on the file system of the system locations); after the last command "
                    "sys=%r bak=%r%s" % (layout, last["sys"], last["bak"],
                                         ", backup file IS the live inode for %s" % last["bak_is_live_inode"]
                                         if last.get("bak_is_live_inode") else ""))
        if beh.get("clock"):
            ck = beh["clock"]
            sig["clock"] = ck.get("name", "stepped")
            msg += ("; the wall clock was stepped %s command %d (file time stamps moved by %+d s; the backed-up executable "
                    "then looked %s s old)" % ("after" if ck["after"] >= 0 else "before", max(ck["after"], 0) + 1, ck["shift"],
                                               (obs.get("clock_stepped") or {}).get("backup_exe_age_s")))
    c.violation(msg, sig, case)
    return sig


# ---------------------------------------------------------------------------------------------
def generate(c, n, restore_f_ok, sample=None, rnd=None, timeout=1500):
    """all behaviours of n commands; returns (behaviours kept, number generated, number executable).
    Behaviours containing restoreF are dropped when no command line can request it; `sample` keeps a seeded subset
    (lines are filtered and sampled before they are parsed: N=5 prints 100k behaviours)."""
    res = c.tlc("SetupGen", "SetupGen.cfg", subdir="gen", workers=1, coverage=False, env={"VERIF_N": str(n)},
                timeout=timeout, heap="8g")
    prefix = '<<"BEH", "'
    lines = [ln for ln in res.stdout.splitlines() if ln.startswith(prefix) and ln.endswith('">>')]
    total = len(lines)
    if not total:
        raise util.ToolError("generator printed no behaviours for N=%d" % n)
    if total != 6 * 7 ** n:
        raise util.ToolError("generator printed %d behaviours for N=%d, expected %d" % (total, n, 6 * 7 ** n))
    lines = [(k, ln) for k, ln in enumerate(lines) if restore_f_ok or "restoreF" not in ln]
    executable = len(lines)
    if sample is not None and len(lines) > sample:
        lines = rnd.sample(lines, sample)
    behs = []
    for k, ln in lines:
        try:
            b = json.loads(ln[len(prefix):-3].replace('\\"', '"').replace("\\\\", "\\"))
        except json.JSONDecodeError as ex:
            raise util.ToolError("cannot parse generated behaviour: %s" % ex)
        behs.append({"id": "n%d-%d" % (n, k), "init": b["init"], "cmds": [s["c"] for s in b["steps"]], "steps": b["steps"]})
    return behs, total, executable


def init_key(b):
    return json.dumps(b["init"], sort_keys=True)


def probe_restore_spelling(c, setup_bin):
    """which command line, if any, means `restore` with delete_backup = false?"""
    init = {"sys": {l: "a" for l in LOCS}, "bak": {l: "b" for l in LOCS}, "bdir": True, "pkg": {l: "p" for l in LOCS},
            "rest": "r0", "svc": "running"}
    behs = [{"id": "sp%d" % k, "init": init, "cmds": [{"c": "restoreF", "argv": a}]} for k, a in enumerate(RESTORE_F_SPELLINGS)]
    behs.append({"id": "sp-default", "init": init, "cmds": [{"c": "restoreT", "argv": ["restore"]}]})
    behs.append({"id": "sp-true", "init": init, "cmds": [{"c": "restoreT", "argv": ["restore", "true"]}]})
    obs = replay_many(setup_bin, behs, c.seed, 1, tag="p")
    table, accepted = [], None
    for b in behs:
        s = obs[b["id"]]["steps"][0]
        rej = is_arg_rejection(s)
        kept = all(s["bak"][l] == "b" for l in LOCS)
        restored = all(s["sys"][l] == "b" for l in LOCS)
        first = s["out_tail"].strip().splitlines()
        err = [x for x in first if x.startswith("error:")]
        table.append({"argv": s["argv"], "exit": s["exit"], "rejected_by_parser": rej, "restored": restored,
                      "backup_kept": kept, "message": (err[0] if err else "")[:200]})
        if b["cmds"][0]["c"] == "restoreF" and not rej and accepted is None and s["exit"] == 0:
            accepted = s["argv"]
    return accepted, table


def run(c):
    try:
        _run(c)
    finally:
        shutil.rmtree(SCRATCH, ignore_errors=True)


def _run(c):
    thorough = c.tier == "thorough"
    rnd = random.Random(c.seed)
    c.assumptions = ASSUME
    os.makedirs(SCRATCH, exist_ok=True)
    for tool in ("unshare", "strace", "mount"):
        if not shutil.which(tool):
            raise util.ToolError("%s not available" % tool)
    setup_bin = build_setup(release=True)

    # 1. the design: complete reachable graph (sequences of every length from the six initial states), for both
    #    values of the environment constant SameFs: the graphs must be the same (the design never links), and the
    #    design variant "backup by hard link, overwrite in place" must be rejected when SameFs (anti-vacuity of the
    #    dimension) and indistinguishable from the design when every link fails with EXDEV
    r_sep = c.tlc("Setup", "Setup.cfg", workers=8, required_actions=ACTIONS, timeout=300)
    r_same = c.tlc("Setup", "Setup_samefs.cfg", workers=8, required_actions=ACTIONS, timeout=300)
    for r, cfg in ((r_sep, "Setup.cfg"), (r_same, "Setup_samefs.cfg")):
        if not r.ok:
            raise tlcmod.TlcError("%s: the design does not satisfy its properties: %s" % (cfg, r.invariant_violated or r.error_lines[:3]))
    if (r_sep.distinct, r_sep.generated) != (r_same.distinct, r_same.generated):     # (depth varies with 8 workers)
        raise tlcmod.TlcError("Setup.tla: SameFs changes the design's graph (%s vs %s)" % (
            (r_sep.distinct, r_sep.generated), (r_same.distinct, r_same.generated)))
    r_lo = c.tlc("Setup", "Setup_linkbackup_otherfs.cfg", workers=8, timeout=300)
    if not r_lo.ok:
        raise tlcmod.TlcError("Setup_linkbackup_otherfs.cfg: the link variant must equal the design when link(2) fails: %s"
                              % (r_lo.invariant_violated or r_lo.error_lines[:3]))
    r_ls = c.tlc("Setup", "Setup_linkbackup.cfg", workers=8, coverage=False, expect_ok=False, timeout=300)
    if r_ls.invariant_violated != "RoundTrip":
        raise tlcmod.TlcError("Setup_linkbackup.cfg: the design variant 'backup by hard link + in-place overwrite' on one "
                              "file system was expected to violate RoundTrip (anti-vacuity of SameFs); got %s"
                              % (r_ls.invariant_violated or r_ls.error_lines[:2] or "no violation"))
    r_sc0 = c.tlc("Setup", "Setup_stalecheck_steadyclock.cfg", workers=8, timeout=300)
    if not r_sc0.ok:
        raise tlcmod.TlcError("Setup_stalecheck_steadyclock.cfg: the stale-check variant must equal the design under a steady "
                              "clock: %s" % (r_sc0.invariant_violated or r_sc0.error_lines[:3]))
    r_sc = c.tlc("Setup", "Setup_stalecheck.cfg", workers=8, coverage=False, expect_ok=False, timeout=300)
    if r_sc.invariant_violated != "RoundTrip":
        raise tlcmod.TlcError("Setup_stalecheck.cfg: the design variant 'restore refuses a backup that does not look at most 7 "
                              "days old' was expected to violate RoundTrip when the clock is stepped (anti-vacuity of "
                              "ClockSteps); got %s" % (r_sc.invariant_violated or r_sc.error_lines[:2] or "no violation"))
    c.extra["design_variants_clock"] = [
        {"cfg": "Setup_stalecheck_steadyclock.cfg", "ClockSteps": False, "StaleCheck": True, "result": "all properties hold (steady clock: as the design)"},
        {"cfg": "Setup_stalecheck.cfg", "ClockSteps": True, "StaleCheck": True, "result": "rejected: RoundTrip", "expected_violation": "RoundTrip"}]
    c.extra["design_variants"] = [
        {"cfg": "Setup_samefs.cfg", "SameFs": True, "LinkBackup": False, "result": "all properties hold; same graph as Setup.cfg"},
        {"cfg": "Setup_linkbackup_otherfs.cfg", "SameFs": False, "LinkBackup": True, "result": "all properties hold (every link fails, copies as the design)"},
        {"cfg": "Setup_linkbackup.cfg", "SameFs": True, "LinkBackup": True, "result": "rejected: RoundTrip", "expected_violation": "RoundTrip"}]

    # 2. how is "restore without backup deletion" spelled?
    spelling, table = probe_restore_spelling(c, setup_bin)
    c.extra["restore_spellings"] = table
    argv = {"restoreF": spelling} if spelling else {}
    util.log("restore(delete_backup=false) spelling: %s" % (spelling or "none accepted"))
    judge = Judge(c, setup_bin, argv)

    # 3. behaviours
    n = 4
    behs, total, _ = generate(c, n, True)
    c.extra["generated_behaviours"] = {"N=%d" % n: total}
    executable = [b for b in behs if spelling or "restoreF" not in b["cmds"]]
    skipped = total - len(executable)
    if thorough:
        chosen = list(executable)
        ex5, total5, nexec5 = generate(c, 5, bool(spelling), sample=5000, rnd=rnd, timeout=2400)
        c.extra["generated_behaviours"]["N=5"] = total5
        c.extra["generated_behaviours"]["N=5 executable"] = nexec5
        chosen += ex5
        del ex5
    else:
        # every sequence of 3 commands from every initial state, each extended by one seeded 4th command
        groups = {}
        for b in executable:
            groups.setdefault((init_key(b), tuple(b["cmds"][:3])), []).append(b)
        chosen = [g[rnd.randrange(len(g))] for _, g in sorted(groups.items())]
    by_id = {b["id"]: b for b in chosen}
    traced_ids = set(b["id"] for b in rnd.sample(chosen, min(len(chosen), 400 if thorough else 60)))
    util.log("replaying %d behaviours (%d traced with strace); %d of N=%d not executable" % (len(chosen), len(traced_ids), skipped, n))

    # 3a. the statement's own scenario, first and traced: a version installed; backup; install another version;
    #     restore with and without backup deletion
    reported = set()
    stmt_clock = []       # the clock-stepped statement scenarios run with the batch of 3b (both layouts, traced)
    for third, layout, clk in [(t, lay, ck) for ck in [None] + sorted(CLOCKS) for lay in LAYOUTS for t in ("restoreT", "restoreF")]:
        cand = [b for b in behs if b["cmds"][:3] == ["backup", "install", third] and b["init"]["sys"]["exe"] == "a"
                and b["init"]["pkg"]["exe"] == "p" and b["init"]["bak"]["exe"] == "absent"]
        if not cand:
            raise util.ToolError("generator did not produce the statement's scenario")
        b = dict(cand[0])
        b["id"] = "stmt-" + third + ("@" + clk if clk else "") + ("" if layout == "separate" else SAMEFS_SUFFIX)
        b["layout"] = layout
        b["cmds"], b["steps"] = b["cmds"][:3], b["steps"][:3]
        if clk:
            b["clock"] = {"name": clk, "after": 0, "shift": CLOCKS[clk]}      # stepped right after the backup
            if layout == "separate" and (spelling or third != "restoreF"):
                del b["layout"]
                stmt_clock.append(b)
            continue
        ok, why, obs = judge.decide(b, "statement scenario (%s%s)" % (layout, ", clock " + clk if clk else ""))
        if clk and not (obs.get("clock_stepped") or {}).get("files"):
            raise util.ToolError("vacuity: the clock step of %s moved no time stamp" % b["id"])
        diffs = compare(b, obs)
        c.count(json.dumps([init_key(b), b["cmds"], layout, clk]))
        if ok:
            c.traces_validated += 1
            c.sample({"init": {k: b["init"][k]["exe"] for k in ("sys", "bak", "pkg")}, "cmds": b["cmds"], "layout": layout,
                      "clock": dict(b["clock"], **(obs.get("clock_stepped") or {})) if clk else None,
                      "observed": [{"c": s["c"], "argv": s["argv"], "exit": s["exit"], "sys": s["sys"], "bak": s["bak"],
                                    "calls": [cl["v"] for cl in s["calls"]], "strace": s.get("strace")} for s in obs["steps"]]})
            if diffs:
                c.extra.setdefault("model_drift", []).append({"cmds": b["cmds"], "layout": layout, "diff": [list(d) for d in diffs[:3]]})
        else:
            sig = report(c, b, obs, why, diffs, "statement scenario")
            reported.add(json.dumps(sig, sort_keys=True))

    # 3b. S->I over the chosen behaviours, every one of them in both layouts (the two sets of workers run side by side)
    jobs = [{"id": b["id"], "init": b["init"], "cmds": b["cmds"], "trace": b["id"] in traced_ids} for b in chosen]
    rnd.shuffle(jobs)
    # the clock dimension: every 10th of the behaviours in which a restore finds a backup (one present from the start or
    # taken by an earlier command) once more, the clock stepped at a seeded point between the backup and that restore
    withrestore = []
    for b in sorted(chosen, key=lambda x: x["id"]):
        for r, cm in enumerate(b["cmds"]):
            if cm not in ("restoreT", "restoreF"):
                continue
            if (b["steps"][r - 1]["bak"]["exe"] if r else b["init"]["bak"]["exe"]) == "absent":
                continue                 # this restore finds no backup
            taken = [j for j in range(r) if b["cmds"][j] == "backup"]
            lo = taken[-1] if taken else -1          # -1: the backup was there from the start; step before any command
            withrestore.append((b, lo, r))
            break
    clock_jobs = []
    for k, (b, lo, r) in enumerate(withrestore[rnd.randrange(10)::10]):
        name = sorted(CLOCKS)[k % len(CLOCKS)]
        cb = dict(b, id=b["id"] + "@" + name, clock={"name": name, "after": rnd.randrange(lo, r), "shift": CLOCKS[name]})
        by_id[cb["id"]] = cb
        clock_jobs.append({"id": cb["id"], "init": cb["init"], "cmds": cb["cmds"], "trace": False, "clock": cb["clock"]})
    for cb in stmt_clock:
        by_id[cb["id"]] = cb
        clock_jobs.append({"id": cb["id"], "init": cb["init"], "cmds": cb["cmds"], "trace": True, "clock": cb["clock"]})
    if len(clock_jobs) <= len(stmt_clock) or len(stmt_clock) != (2 if spelling else 1) * len(CLOCKS):
        raise util.ToolError("vacuity: no behaviour with a restore that finds a backup to replay under a clock step")
    c.extra["clock_step_behaviours"] = {"per_layout": len(clock_jobs) - len(stmt_clock), "of": len(withrestore),
                                        "shifts_s": CLOCKS, "plus": "the statement scenarios, stepped right after the backup"}
    jobs += clock_jobs
    jobs_same = [dict(j, id=j["id"] + SAMEFS_SUFFIX) for j in jobs]
    for b in [by_id[j["id"]] for j in jobs]:
        by_id[b["id"] + SAMEFS_SUFFIX] = dict(b, id=b["id"] + SAMEFS_SUFFIX, layout="samefs")
    chosen_n = len(jobs)
    t = util.Timer()
    nw = 12 if thorough else 8
    ws_sep = replay_start(setup_bin, jobs, c.seed, nw, argv, tag="w", layout="separate")
    ws_same = replay_start(setup_bin, jobs_same, c.seed, nw, argv, tag="s", layout="samefs")
    observed, err = {}, None
    for ws in (ws_sep, ws_same):
        try:
            observed.update(replay_finish(ws, timeout=5400 if thorough else 900))
        except util.ToolError as ex:
            err = err or ex
    if err:
        raise err
    if len(observed) != 2 * chosen_n:
        raise util.ToolError("replayed %d of %d behaviours" % (len(observed), 2 * chosen_n))
    util.log("replayed %d behaviours (%d in each layout, %d of them under a clock step) in %ss"
             % (len(observed), chosen_n, len(clock_jobs), t.s()))
    for bid, obs in observed.items():
        if by_id[bid].get("clock") and not (obs.get("clock_stepped") or {}).get("files"):
            raise util.ToolError("vacuity: the clock step of %s moved no time stamp" % bid)
    c.extra["layouts"] = {lay: dict(LINK_PROBES.get(lay, {}), behaviours=chosen_n) for lay in LAYOUTS}
    ncmds = 0
    mismatching = {}
    for bid, obs in observed.items():
        b = by_id[bid]
        ncmds += len(obs["steps"])
        lay = b.get("layout", "separate") + ("+" + b["clock"]["name"] if b.get("clock") else "")
        c.count(json.dumps([init_key(b), b["cmds"]] + ([lay] if lay != "separate" else [])))
        diffs = compare(b, obs)
        if diffs:
            d = diffs[0]
            mismatching.setdefault((obs["steps"][d[0]]["c"], d[1], lay), []).append((b, obs, diffs))
    c.count(n=ncmds)
    c.extra["replayed_behaviours"] = len(observed)
    c.extra["replayed_commands"] = ncmds
    c.extra["traced_with_strace"] = len(traced_ids)
    c.extra["not_executable_behaviours"] = {"count": skipped, "why": "contain `restore` without backup deletion, "
                                            "which no command line can request"} if skipped else {"count": 0}
    # outside the statement (recorded, modelled and compared, not judged): a backup taken while the unit file was
    # not installed (after `uninstall service`) makes a later restore copy three files, fail on the missing unit
    # (exit 1) and leave the service stopped
    part = [(b, observed[b["id"]]) for b in chosen if any(s["res"] == "fail" for s in b["steps"])]      # separate layout
    if part:
        b, o = min(part, key=lambda x: [s["res"] for s in x[0]["steps"]].index("fail"))
        k = [s["res"] for s in b["steps"]].index("fail")
        c.extra["partial_state_restore_note"] = {
            "behaviours": len(part), "example": b["cmds"][:k + 1], "from": {x: b["init"][x]["exe"] for x in ("sys", "bak", "pkg")},
            "observed": {"exit": o["steps"][k]["exit"], "sys": o["steps"][k]["sys"], "calls": [cl["v"] for cl in o["steps"][k]["calls"]]},
            "note": "restore from a backup without unit file exits 1 after replacing three files and never starts the "
                    "service; the model predicts exactly this and the statement (a version installed / nothing installed) "
                    "does not cover it"}
    round_trips = sum(1 for b in chosen if any(s["chk"] for s in b["steps"]))
    c.extra["behaviours_closing_a_round_trip"] = round_trips
    if round_trips == 0:
        raise util.ToolError("vacuity: no replayed behaviour closes a backup/install/restore round trip")

    # 3c. every kind of divergence from the model is decided against the property: all its members are validated as
    #     one trace; where TLC rejects, the offending behaviour is cut at the rejected command, re-executed (traced)
    #     and reported only if the rejection reproduces.  Accepted divergence is model drift.
    drift = []
    for key, lst in sorted(mismatching.items()):
        lst.sort(key=lambda x: (x[2][0][0], len(x[0]["cmds"]), x[0]["id"]))
        remaining, rejected = list(lst), 0
        limit = 1 if "+" in key[2] else 4        # clock-stepped groups: one witness per kind of divergence is enough
        while remaining and rejected < limit:
            rows, owner = [], []
            for idx, (b2, o2, _) in enumerate(remaining):
                r = rows_of(b2, o2)
                owner += [(idx, j) for j in range(len(r))]
                rows += r
            ok, why, res = validate_trace(c, "SetupTrace", "SetupTrace.cfg", rows, "c17_div_%s_%s_%s" % key, count=0,
                                          timeout=1200, heap="6g")
            if ok:
                break
            ls = re.findall(r"^/\\ l = (\d+)\s*$", res.stdout, re.M)
            if not ls or not (2 <= int(ls[-1]) <= len(rows) + 1):
                raise util.ToolError("divergent group %s rejected (%s) but the offending row was not located" % (key, why))
            idx, j = owner[int(ls[-1]) - 2]          # row j of behaviour idx is the first rejected one (row 0 = reset)
            b2, o2, d2 = remaining[idx]
            short = dict(b2)
            short["cmds"], short["steps"] = b2["cmds"][:j], b2["steps"][:j]
            ok3, why3, obs3 = judge.decide(short, "divergence %s/%s (%s)" % key)
            if ok3:
                first = o2["steps"][j - 1]
                util.write_json(os.path.join(util.BUILD, "c17_unreproduced.json"),
                                {"why": why, "init": b2["init"], "cmds": b2["cmds"], "first_observation": slim(o2),
                                 "second_observation": slim(obs3)})
                raise util.ToolError("unreproduced rejection (%s) of %s from %s: first run exit=%s calls=%s out=%r; "
                                     "details in .build/c17_unreproduced.json"
                                     % (why, short["cmds"], {x: b2["init"][x]["exe"] for x in ("sys", "bak", "pkg")},
                                        first["exit"], [cl["v"] for cl in first["calls"]], first.get("out_tail", "")[-300:]))
            sig = report(c, short, obs3, why3, compare(short, obs3) or d2, "replay diverges from Setup.tla and breaks C17")
            reported.add(json.dumps(sig, sort_keys=True))
            rejected += 1
            # drop the members that share the rejected prefix; look for other ways of breaking the property
            remaining = [m for m in remaining if not (init_key(m[0]) == init_key(b2) and m[0]["cmds"][:j] == b2["cmds"][:j])]
        if rejected == 0:
            c.traces_validated += len(lst)
            b, obs, diffs = lst[0]
            drift.append({"cmd": key[0], "component": key[1], "layout": key[2], "behaviours": len(lst),
                          "example": b["cmds"][:diffs[0][0] + 1], "expected": diffs[0][2], "got": diffs[0][3]})
    if drift:
        c.extra["model_drift"] = c.extra.get("model_drift", []) + drift
        util.log("model drift (property holds): %s" % drift[:3])

    # 4. I->S: everything observed that conforms to the model, as one trace, against the property-level spec
    rows, nb = [], 0
    bad_ids = set(x[0]["id"] for lst in mismatching.values() for x in lst)
    for bid in sorted(observed):
        if bid in bad_ids:
            continue
        rows += rows_of(by_id[bid], observed[bid])
        nb += 1
    if rows:
        ok, why, res = validate_trace(c, "SetupTrace", "SetupTrace.cfg", rows, "c17_all", count=nb, timeout=1500, heap="6g")
        if not ok:
            raise util.ToolError("model-conformant observations rejected by SetupTrace (%s): Setup.tla and SetupTrace.tla disagree" % why)

    # 5. the trace spec binds: a corrupted recording of a real round trip must be rejected
    good = [b for b in chosen if b["id"] not in bad_ids and b["id"] + SAMEFS_SUFFIX not in bad_ids
            and any(s["chk"] for s in b["steps"])]
    if good:
        b = good[0]
        rws = rows_of(b, observed[b["id"]])
        k = [i for i, s in enumerate(b["steps"]) if s["chk"]][0] + 1
        bad = json.loads(json.dumps(rws[:k + 1]))
        bad[k]["sys"]["cfg"] = "p" if bad[k]["sys"]["cfg"] != "p" else "b"
        ok, why, _ = validate_trace(c, "SetupTrace", "SetupTrace.cfg", bad, "c17_selftest_corrupt", count=0)
        if ok or "RoundTrip" not in why:
            raise util.ToolError("self-test: corrupted round trip was not rejected by P_RoundTrip (%s)" % (why or "accepted"))
        bad2 = json.loads(json.dumps(rws[:k + 1]))
        bad2[k]["rest"] = "changed:selftest"
        ok, why, _ = validate_trace(c, "SetupTrace", "SetupTrace.cfg", bad2, "c17_selftest_frame", count=0)
        if ok or "Frame" not in why:
            raise util.ToolError("self-test: frame corruption was not rejected by P_Frame (%s)" % (why or "accepted"))
        c.extra["trace_spec_selftest"] = "corrupted sys.cfg after restore -> P_RoundTrip; corrupted rest -> P_Frame"
        c.sample({"init": {x: b["init"][x]["exe"] for x in ("sys", "bak", "pkg")}, "cmds": b["cmds"],
                  "observed": [{"c": s["c"], "exit": s["exit"], "sys": s["sys"], "bak": s["bak"], "bdir": s["bdir"],
                                "rest": s["rest"], "calls": [cl["v"] for cl in s["calls"]]} for s in observed[b["id"]]["steps"]]})

    # 6. thorough: the debug profile (does not ship; recorded, never a verdict)
    if thorough:
        try:
            dbg = build_setup(release=False)
            init = {"sys": {l: "a" for l in LOCS}, "bak": {l: "b" for l in LOCS}, "bdir": True,
                    "pkg": {l: "p" for l in LOCS}, "rest": "r0", "svc": "running"}
            o = replay_many(dbg, [{"id": "dbg", "init": init, "cmds": [{"c": "restoreT", "argv": ["restore"]}]}], c.seed, 1, tag="d")
            s = o["dbg"]["steps"][0]
            c.extra["debug_profile_restore"] = {"argv": s["argv"], "exit": s["exit"], "panic": re.sub(r"/\S*/registry/src/[^/]+/", "", s.get("panic", "")), "sys": s["sys"],
                                                "note": "debug profile does not ship; recorded, not judged"}
        except util.ToolError as ex:
            c.extra["debug_profile_restore"] = {"error": str(ex)[:300]}

    check_timeout_rate(c)
    c.exhaustive = (skipped == 0 and not drift and not c.violations)
    c.rule = ("S->I: TLC enumerates every behaviour of Setup.tla with N commands from all six initial states "
              "(quick: every 3-command sequence extended by one seeded 4th command; thorough: every 4-command sequence plus "
              "a seeded sample of 5-command ones); each is run on the real release binary in an overlay mount namespace, once "
              "per file-system layout (tool folder on another mount than /etc and /usr; tool folder and all four system "
              "directories on one mount, link(2) between them proven to succeed), the statement scenarios and a seeded tenth of the "
              "behaviours whose restore finds a backup once more per layout with the wall clock stepped between two commands "
              "(file time stamps moved +3 min / -8 days), and "
              "the projected state (4 system locations, backup, package, rest digest, exit code, systemctl calls with "
              "snapshots) is compared with the model after every command; every kind of divergence is decided by the "
              "property-level trace spec SetupTrace.tla (re-executed, traced with strace). I->S: all observations are "
              "validated by TLC against SetupTrace.tla. distinct = distinct (initial state, command sequence, layout) triples executed")


def replay(c, path):
    """re-execute one saved behaviour and decide it again"""
    try:
        _replay(c, path)
    finally:
        shutil.rmtree(SCRATCH, ignore_errors=True)


def _replay(c, path):
    art = util.read_json(path)
    case = art["case"]
    c.assumptions = ASSUME
    os.makedirs(SCRATCH, exist_ok=True)
    setup_bin = build_setup(release=True)
    spelling, table = probe_restore_spelling(c, setup_bin)
    judge = Judge(c, setup_bin, {"restoreF": spelling} if spelling else {})
    b = {"id": "replay", "init": case["init"], "cmds": case["cmds"], "steps": case.get("expected") or [],
         "layout": case.get("layout", "separate")}
    if case.get("clock"):
        b["clock"] = case["clock"]
    ok, why, obs = judge.decide(b, "replay")
    c.count(json.dumps(b["cmds"]))
    if ok:
        c.traces_validated += 1
        c.sample({"cmds": b["cmds"], "accepted": True})
    else:
        report(c, b, obs, why, compare(b, obs) if b["steps"] else [], "replay")
    c.rule = "re-execution of one saved behaviour on the real binary, decided by SetupTrace.tla"
