"""X01_STATUS -- aggregation and publication of the agent status (growth of the specification, DESIGN section 5).
spec/Status.tla: the AgentStatusSharedState actor (one action per message), the ProxyAgentStatusTask loop (13 reads, the
15 min event, tmp + rename, the 24 h clear), the clock, crashes; properties P1..P9 of the header (NEW properties, derived
from the code's evident intent, not from properties.jsonl).
  1. TLC, exhaustive small configurations (mc/Status_*.cfg) + two WITNESS configurations that exhibit the two stated
     non-properties (a document is not one instant's aggregate; an add can be cleared without ever being published).
  2. S->I: seeded lock-step histories -> gen/StatusGen (TLC prints what Status.tla prescribes after every iteration)
     -> the same history on the REAL actor + REAL ProxyAgentStatusTask (harness/agent, VERIF_CMD=status, tokio clock
     paused, std::time::Instant moved by an LD_PRELOAD shim) -> comparison observation by observation.
  3. I->S: the lock-step observations and seeded STRESS runs (concurrent writers, 1 ms publication interval, a reader
     thread polling status.json) recorded as ndjson and judged by TLC against trace/StatusTrace (property level).
     Only this decides a VIOLATION; a difference from Status.tla that keeps the properties is drift.
  4. kill -9 at random instants: status.json is always a complete document.
  5. observations (never verdicts): documents that mix instants, adds lost at the clear, the event cut at 4096 bytes,
     request accounting of the real ProxyServer (rig).
ExtensionTopN (P9) is model-level only: get_top_proxy_connection_summary is private to service_main.rs."""
import bisect
import json
import os
import random
import re
import shutil
import signal
import subprocess
import time
from concurrent.futures import ThreadPoolExecutor

from vlib import build, rig, tlc as tlcmod, util
from vlib.ctx import validate_trace

ASSUME = [
    "TLC 1.8 and the CommunityModules Json/IOUtils are correct",
    "lock-step: the tokio clock is paused and the driver stays half an interval out of phase with the status task, so a "
    "tick returns when exactly one iteration of loop_status has run (file IO of the task is synchronous)",
    "std::time::Instant reads CLOCK_MONOTONIC through libc's clock_gettime, which the LD_PRELOAD shim offsets; clock "
    "sums are multiples of 300 s (never within 120 s below a deadline) and a run lasts far less than 120 s",
    "stress: one writer task per module (possible values of a module = last completed write or the one in flight); the "
    "window of an observed document starts at the last read that still saw the document before the previous one",
    "a message is identified by its leading #id# tag; published prefix relations are computed bytewise by the check",
    "ExtensionTopN is checked on the model only (function private to proxy_agent_extension::service_main)",
]

MODULES = ["KeyKeeper", "TelemetryReader", "TelemetryLogger", "Redirector", "ProxyServer", "ProxyAgentStatus"]
PUBLISHED = {"KeyKeeper": "keyLatchStatus", "Redirector": "ebpfProgramStatus", "ProxyServer": "proxyListenerStatus",
             "TelemetryLogger": "telemetryLoggerStatus"}
STATES = ["UNKNOWN", "RUNNING", "STOPPED"]
MAXMSG = 1024
# abstract key -> the fields of ProxySummary that make to_key_string() and are visible in the published entry
KEYS = {
    "k1": {"userName": "u1"},
    "k2": {"userName": "u2"},
    "k3": {"userName": "u1", "port": 32526},
    "k4": {"userName": "u1", "responseStatus": "403 Forbidden"},
    "k5": {"userName": "u1", "processCmdLine": "curl -s http://168.63.129.16/machine"},
    "k6": {"userName": "u1", "processFullPath": "/usr/bin/curl", "ip": "169.254.169.254"},
}
KEY_DEFAULT = {"userName": "root", "ip": "168.63.129.16", "port": 80, "processFullPath": "/usr/bin/x",
               "processCmdLine": "x", "responseStatus": "200 OK"}
VISIBLE = ["userName", "ip", "port", "processFullPath", "processCmdLine", "responseStatus"]

SHIM_C = r"""
#define _GNU_SOURCE
#include <time.h>
#include <stdint.h>
#include <stdlib.h>
#include <fcntl.h>
#include <unistd.h>
#include <sys/mman.h>
#include <sys/syscall.h>
/* CLOCK_MONOTONIC + the 8-byte little-endian number of seconds held in the file named by VERIF_CLOCK_FILE */
static volatile int64_t *off = 0;
static int tried = 0;
static void init(void) {
    tried = 1;
    const char *p = getenv("VERIF_CLOCK_FILE");
    if (!p) return;
    int fd = open(p, O_RDWR | O_CREAT, 0644);
    if (fd < 0) return;
    if (ftruncate(fd, 8) == 0) {
        void *m = mmap(0, 8, PROT_READ | PROT_WRITE, MAP_SHARED, fd, 0);
        if (m != MAP_FAILED) off = (volatile int64_t *)m;
    }
    close(fd);
}
int clock_gettime(clockid_t c, struct timespec *ts) {
    long r = syscall(SYS_clock_gettime, c, ts);
    if (r == 0 && (c == CLOCK_MONOTONIC || c == CLOCK_BOOTTIME)) {
        if (!tried) init();
        if (off) ts->tv_sec += *off;
    }
    return (int)r;
}
"""


def build_shim():
    d = os.path.join(util.RUNDIR, "x01")
    os.makedirs(d, exist_ok=True)
    src, so = os.path.join(d, "clockshim.c"), os.path.join(d, "clockshim.so")
    if not os.path.exists(so) or not os.path.exists(src) or open(src).read() != SHIM_C:
        with open(src, "w") as f:
            f.write(SHIM_C)
        tmp = so + ".%d" % os.getpid()
        util.sh(["gcc", "-O2", "-shared", "-fPIC", "-o", tmp, src], timeout=600)
        os.replace(tmp, so)
    return so


# ---------------------------------------------------------------------------------------------------------------------
# messages
class Messages:
    """id -> text.  '#id#' + filler up to an exact byte length; fillers with 2/3/4-byte characters put byte 1024 inside a
    character for some lengths."""

    def __init__(self):
        self.text = {}

    def make(self, mid, nbytes, filler):
        s = "#%s#" % mid
        b = len(s.encode())
        out = [s]
        i = 0
        while b < nbytes:
            ch = filler[i % len(filler)]
            n = len(ch.encode())
            if b + n > nbytes:
                ch, n = "x", 1
            out.append(ch)
            b += n
            i += 1
        t = "".join(out)
        self.text[mid] = t
        return t

    @staticmethod
    def cut(text):
        """byte length of the longest prefix of at most MAXMSG bytes that ends on a character boundary"""
        b = text.encode()
        if len(b) <= MAXMSG:
            return len(b)
        end = MAXMSG
        while end > 0 and (b[end] & 0xC0) == 0x80:
            end -= 1
        return end

    def spec_msg(self, mid):
        t = self.text[mid]
        return {"id": mid, "len": len(t.encode()), "cut": self.cut(t)}

    def abstract(self, text):
        """published text -> {id, len, dots, pfx}"""
        if text == "Status unknown.":
            return {"id": "unk", "len": 15, "dots": False, "pfx": True}
        m = re.match(r"#([A-Za-z0-9_.]+)#", text)
        if not m or m.group(1) not in self.text:
            return {"id": "?", "len": len(text.encode()), "dots": False, "pfx": False}
        mid = m.group(1)
        orig = self.text[mid]
        if text == orig:
            return {"id": mid, "len": len(text.encode()), "dots": False, "pfx": True}
        if text.endswith("...") and len(text) - 3 < len(orig):
            body = text[:-3]
            return {"id": mid, "len": len(body.encode()), "dots": True, "pfx": orig.startswith(body)}
        return {"id": mid, "len": len(text.encode()), "dots": False, "pfx": False}


def mon_id(text):
    if text == "Proxy agent status is running.":
        return "mon_running"
    if text.startswith("Aggregate status written to status file: "):
        return "mon_written"
    if text.startswith("Error writing aggregate status to status file: "):
        return "mon_error"
    return "mon_other"


TS_RE = re.compile(r"^\d{4}-\d{2}-\d{2}T\d{2}:\d{2}:\d{2}\.\d{3}$")


def key_of_entry(e):
    vis = tuple(e.get(f) for f in VISIBLE)
    for k, over in KEYS.items():
        full = dict(KEY_DEFAULT, **over)
        if vis == tuple(full[f] for f in VISIBLE):
            return k
    return None


def abstract_pas(pas, msgs, why):
    det = {}
    for m, field in PUBLISHED.items():
        d = pas.get(field)
        if not isinstance(d, dict) or d.get("status") not in STATES or not isinstance(d.get("message"), str):
            why.append("detail status %s malformed" % field)
            return None
        if (field == "keyLatchStatus") != ("states" in d):
            why.append("states map on the wrong module (%s)" % field)
        if field == "keyLatchStatus":
            for k in ("secureChannelState", "wireServerRuleId", "imdsRuleId", "hostGARuleId"):
                if k not in d.get("states", {}):
                    why.append("keyLatchStatus.states lacks %s" % k)
        det[m] = {"status": d["status"], "message": msgs.abstract(d["message"])}
    mon = pas.get("monitorStatus")
    if not isinstance(mon, dict) or mon.get("status") != "RUNNING" or not isinstance(mon.get("message"), str):
        why.append("monitorStatus malformed")
        return None
    if not isinstance(pas.get("version"), str) or not pas["version"]:
        why.append("version missing")
    if pas.get("status") not in ("SUCCESS", "ERROR", "UNKNOWN"):
        why.append("overall status %r" % pas.get("status"))
    if not isinstance(pas.get("proxyConnectionsCount"), int):
        why.append("proxyConnectionsCount")
        return None
    return {"status": str(pas.get("status")), "mon": mon_id(mon["message"]), "count": pas["proxyConnectionsCount"],
            "det": det}


def abstract_doc(doc, msgs):
    """real status.json -> the record trace/StatusTrace.tla and gen/StatusGen.tla talk about (+ reasons when malformed)"""
    why = []
    out = {"shape": True, "status": "?", "mon": "?", "count": 0,
           "det": {m: {"status": "UNKNOWN", "message": {"id": "?", "len": 0, "dots": False, "pfx": False}} for m in PUBLISHED},
           "conn": {k: 0 for k in KEYS}, "fail": {k: 0 for k in KEYS}}
    if not isinstance(doc, dict) or not isinstance(doc.get("proxyAgentStatus"), dict):
        return dict(out, shape=False), ["no proxyAgentStatus"]
    if not isinstance(doc.get("timestamp"), str) or not TS_RE.match(doc["timestamp"]):
        why.append("timestamp %r" % doc.get("timestamp"))
    pas = abstract_pas(doc["proxyAgentStatus"], msgs, why)
    if pas:
        out.update(pas)
    for bag, field in (("conn", "proxyConnectionSummary"), ("fail", "failedAuthenticateSummary")):
        lst = doc.get(field)
        if not isinstance(lst, list):
            why.append("%s missing" % field)
            continue
        for e in lst:
            k = key_of_entry(e) if isinstance(e, dict) else None
            if k is None:
                why.append("%s: entry of no known key: %s" % (field, json.dumps(e)[:200]))
            elif out[bag][k]:
                why.append("%s: two entries for one key %s" % (field, k))
            elif not isinstance(e.get("count"), int) or e["count"] < 1:
                why.append("%s: count %r" % (field, e.get("count")))
            else:
                out[bag][k] = e["count"]
    if why or pas is None:
        out["shape"] = False
    return out, why


def abstract_event(message, doc, msgs, notes):
    """payload of the loop_status event -> abstract proxyAgentStatus (the event logger cuts messages at 4096 bytes)"""
    try:
        pas = json.loads(message)
    except ValueError:
        if doc is not None and len(message.encode()) >= 4093:
            whole = json.dumps(doc["proxyAgentStatus"], separators=(",", ":"), ensure_ascii=False)
            if whole.startswith(message):
                notes["status_event_cut_at_4096_not_json"] = notes.get("status_event_cut_at_4096_not_json", 0) + 1
                return abstract_pas(doc["proxyAgentStatus"], msgs, [])
        if doc is None and len(message.encode()) >= 4093:
            # cut at 4096 and no document of the same iteration to compare with (the write was refused)
            notes["status_event_cut_at_4096_not_json"] = notes.get("status_event_cut_at_4096_not_json", 0) + 1
            return {"cut": True}
        return {"status": "unparsable", "mon": "?", "count": -1, "det": {}}
    why = []
    a = abstract_pas(pas, msgs, why)
    return a if a and not why else {"status": "malformed", "mon": "?", "count": -1, "det": {}}


# ---------------------------------------------------------------------------------------------------------------------
# lock-step histories
def summary_for(key, rnd):
    s = dict(KEY_DEFAULT, **KEYS[key])
    # fields that are not part of the key vary freely
    s.update({"id": rnd.randrange(1, 10 ** 6), "method": rnd.choice(["GET", "POST"]), "url": "/p/%d" % rnd.randrange(99),
              "clientPort": rnd.randrange(1024, 65535), "userId": rnd.randrange(0, 2000), "elapsedTime": rnd.randrange(500),
              "runAsElevated": rnd.random() < 0.5, "errorDetails": rnd.choice(["", "e"]),
              "userGroups": rnd.choice([["root"], ["adm", "sudo"], []])})
    return s


FILLERS = ["x", "é", "€x", "😀", "aé€😀"]
LENS = [3 + 4, 40, 1000, 1021, 1022, 1023, 1024, 1025, 1026, 1027, 1028, 1500, 5000]


def gen_history(rnd, msgs, tag, n_rows):
    """one lock-step history: rows for gen/StatusGen (script) -- the driver commands and the trace rows derive from them"""
    rows = [{"e": "run"}]
    nm = 0
    cur_state = {m: "UNKNOWN" for m in MODULES}
    ops = ["set_state"] * 5 + ["set_msg"] * 3 + ["add"] * 8 + ["inc_http"] * 2 + ["inc_tcp"] + ["tick"] * 6 + ["adv"] * 3 \
        + ["block"] + ["restart"]
    blocked = False
    mods = ["KeyKeeper", "Redirector", "ProxyServer", "TelemetryLogger", "TelemetryReader"]
    bias = rnd.choice(["gates", "bags", "time", "mixed"])
    while len(rows) < n_rows:
        op = rnd.choice(ops)
        if bias == "gates" and rnd.random() < 0.4:
            op = "set_state"
        if bias == "bags" and rnd.random() < 0.4:
            op = "add"
        if bias == "time" and rnd.random() < 0.3:
            op = rnd.choice(["adv", "tick"])
        if op == "set_state":
            m = rnd.choice(mods[:3] if rnd.random() < 0.8 else mods)
            s = "RUNNING" if rnd.random() < 0.6 else rnd.choice(STATES)
            rows.append({"e": "set_state", "m": m, "s": s})
        elif op == "set_msg":
            m = rnd.choice(mods)
            if nm and rnd.random() < 0.25:
                mid = "%s_%d" % (tag, rnd.randrange(nm))       # repeat an earlier message (possibly "not updated")
            else:
                mid = "%s_%d" % (tag, nm)
                nm += 1
                msgs.make(mid, rnd.choice(LENS), rnd.choice(FILLERS))
            rows.append({"e": "set_msg", "m": m, "msg": msgs.spec_msg(mid)})
        elif op == "add":
            rows.append({"e": "add", "bag": rnd.choice(["conn", "conn", "fail"]), "k": rnd.choice(list(KEYS)[:rnd.choice([2, 6])])})
        elif op in ("inc_http", "inc_tcp", "tick"):
            rows.append({"e": op})
        elif op == "adv":
            rows.append({"e": "adv", "secs": rnd.choice([300, 600, 900, 900, 1200, 43200, 85500, 86400, 86400, 90000])})
        elif op == "block":
            blocked = not blocked
            rows.append({"e": "block", "on": blocked})
            rows.append({"e": "tick"})
        elif op == "restart":
            if blocked:
                continue
            rows.append({"e": "restart"})
    rows.append({"e": "tick"})
    if blocked:
        rows += [{"e": "block", "on": False}, {"e": "tick"}, {"e": "tick"}]
    return rows


def fixed_histories(msgs):
    """histories every run contains: the deadlines from both sides, both bags at the clear, every gate combination"""
    H = []
    h = [{"e": "run"}]
    for bag, k in (("conn", "k1"), ("conn", "k1"), ("conn", "k2"), ("fail", "k1"), ("fail", "k3")):
        h.append({"e": "add", "bag": bag, "k": k})
    h += [{"e": "inc_http"}, {"e": "inc_tcp"}, {"e": "inc_tcp"}, {"e": "tick"}, {"e": "adv", "secs": 600}, {"e": "tick"},
          {"e": "adv", "secs": 300}, {"e": "tick"}, {"e": "tick"}, {"e": "adv", "secs": 84600}, {"e": "tick"},
          {"e": "add", "bag": "conn", "k": "k1"}, {"e": "adv", "secs": 900}, {"e": "tick"}, {"e": "tick"},
          {"e": "add", "bag": "fail", "k": "k2"}, {"e": "tick"}, {"e": "adv", "secs": 86400}, {"e": "inc_http"}, {"e": "tick"},
          {"e": "tick"}]
    H.append(h)
    h = [{"e": "run"}]
    for kk in STATES:
        for rd in STATES:
            for ps in STATES:
                h += [{"e": "set_state", "m": "KeyKeeper", "s": kk}, {"e": "set_state", "m": "Redirector", "s": rd},
                      {"e": "set_state", "m": "ProxyServer", "s": ps}, {"e": "tick"}]
    for m in ("TelemetryLogger", "TelemetryReader", "ProxyAgentStatus"):
        for s in ("STOPPED", "UNKNOWN", "RUNNING"):
            h += [{"e": "set_state", "m": m, "s": s}, {"e": "tick"}]
    H.append(h)
    h = [{"e": "run"}]
    for j, n in enumerate([1020, 1023, 1024, 1025, 1026, 1027, 1028, 4100]):
        for fi, f in enumerate(FILLERS):
            mid = "fx_%d_%d" % (j, fi)
            msgs.make(mid, n, f)
            m = ["KeyKeeper", "Redirector", "ProxyServer", "TelemetryLogger"][(j + fi) % 4]
            h.append({"e": "set_msg", "m": m, "msg": msgs.spec_msg(mid)})
            if fi % 2 == 1:
                h.append({"e": "tick"})
        h += [{"e": "adv", "secs": 900}, {"e": "tick"}]
    H.append(h)
    h = [{"e": "run"}, {"e": "add", "bag": "conn", "k": "k1"}, {"e": "tick"}, {"e": "block", "on": True}, {"e": "tick"},
         {"e": "add", "bag": "conn", "k": "k1"}, {"e": "adv", "secs": 900}, {"e": "tick"}, {"e": "block", "on": False},
         {"e": "tick"}, {"e": "tick"}, {"e": "restart"}, {"e": "tick"}, {"e": "add", "bag": "fail", "k": "k1"}, {"e": "tick"}]
    H.append(h)
    return H


def driver_cmds(hist, msgs, rnd):
    cmds = []
    for r in hist[1:]:
        e = r["e"]
        if e == "tick":
            cmds.append({"op": "tick"})
        elif e == "adv":
            cmds.append({"op": "advance", "secs": r["secs"]})
        elif e == "block":
            cmds.append({"op": "fs_block", "on": r["on"]})
        elif e == "restart":
            cmds.append({"op": "restart"})
        elif e == "set_state":
            cmds.append({"op": "set_state", "module": r["m"], "state": r["s"]})
        elif e == "set_msg":
            cmds.append({"op": "set_msg", "module": r["m"], "text": msgs.text[r["msg"]["id"]]})
        elif e == "add":
            cmds.append({"op": "add", "bag": r["bag"], "summary": summary_for(r["k"], rnd)})
        else:
            cmds.append({"op": e})
    return cmds


def run_driver(bindir, name, first, cmds, shim=None, timeout=600, kill_after=None):
    d, exe = rig.prepare(name, bindir)
    out = os.path.join(d, "out.ndjson")
    env = dict(os.environ, VERIF_CMD="status", VERIF_OUT=out, RUST_BACKTRACE="0")
    first = dict(first, dir=os.path.join(d, "status"), events=os.path.join(d, "events"))
    if shim:
        cf = os.path.join(d, "clock")
        with open(cf, "wb") as f:
            f.write(b"\0" * 8)
        env.update(LD_PRELOAD=shim, VERIF_CLOCK_FILE=cf)
        first["clock_file"] = cf
    inp = "\n".join(json.dumps(c) for c in [first] + cmds + [{"op": "quit"}]) + "\n"
    if kill_after is not None:
        p = subprocess.Popen([exe], env=env, cwd=d, stdin=subprocess.PIPE, stdout=subprocess.DEVNULL, stderr=subprocess.DEVNULL)
        p.stdin.write(inp.encode())
        p.stdin.flush()
        t0 = time.time()      # the kill timer starts once the task publishes
        while not os.path.exists(os.path.join(d, "status", "status.json")) and time.time() - t0 < 10 and p.poll() is None:
            time.sleep(0.002)
        time.sleep(kill_after)
        p.send_signal(signal.SIGKILL)
        p.wait()
        return d, []
    try:
        p = subprocess.run([exe], env=env, cwd=d, input=inp, stdout=subprocess.DEVNULL, stderr=subprocess.PIPE,
                           timeout=timeout, text=True, errors="replace")
    except subprocess.TimeoutExpired:
        raise util.ToolError("status driver %s timed out" % name)
    if p.returncode != 0:
        raise util.ToolError("status driver %s failed rc=%s: %s" % (name, p.returncode, p.stderr[-2000:]))
    return d, util.read_ndjson(out)


def lockstep_rows(hist, answers, msgs, base, notes):
    """history + the driver's answers -> (trace rows, observations comparable with StatusGen's EXPECT lines)
    base = number of trace rows that precede this history in the trace file"""
    rows = [{"e": "reset"}]
    obs = []
    n = [0]

    def pub(ans, idx):
        doc = ans.get("doc")
        if ans.get("file") == "doc" and "raw" in ans:
            doc = json.loads(ans["raw"])          # key order as written (the driver's "doc" has sorted keys)
        fresh = bool(ans.get("fresh"))
        evs = []
        a = None
        if ans.get("file") == "doc":
            a, why = abstract_doc(doc, msgs)
            if why:
                notes.setdefault("malformed", []).append(why[:3])
        for e in ans.get("events", []):
            if e.get("task") == "loop_status":
                evs.append(abstract_event(e.get("message", ""), doc if fresh else None, msgs, notes))
        if ans.get("file") == "absent":
            kind = "absent"
        elif ans.get("file") == "bad" or not ans.get("real_ok", False):
            kind = "bad"
        else:
            kind = "doc" if fresh else "stale"
        row = {"e": "pub", "w": base + len(rows), "kind": kind, "it": 1, "evs": evs}
        if kind == "doc":
            row["doc"] = a
        rows.append(row)
        obs.append({"i": idx, "kind": kind, "doc": a, "event": evs[0] if evs else None, "nev": len(evs), "tmp": ans.get("tmp")})

    pub(answers[0], 1)
    for j, (r, ans) in enumerate(zip(hist[1:], answers[1:])):
        e = r["e"]
        idx = j + 2                      # 1-based index of the script row
        if "error" in ans:
            raise util.ToolError("status driver refused %s: %s" % (r, ans["error"]))
        if e == "tick":
            pub(ans, idx)
        elif e == "restart":
            rows.append({"e": "restart"})
            pub(ans, idx)
        elif e == "adv":
            if not ans.get("shim"):
                raise util.ToolError("the clock shim is not in effect (LD_PRELOAD)")
            rows.append({"e": "adv", "secs": r["secs"]})
        elif e == "block":
            if not ans.get("ok"):
                raise util.ToolError("fs_block failed")
            rows.append({"e": "block", "on": r["on"]})
        else:
            n[0] += 1
            i = "L%d" % n[0]
            if not ans.get("ok"):
                raise util.ToolError("operation failed: %s -> %s" % (r, ans))
            if e == "set_state":
                rows += [{"e": "call", "i": i, "op": e, "m": r["m"], "s": r["s"]}, {"e": "ret", "i": i, "r": ans["r"]}]
            elif e == "set_msg":
                rows += [{"e": "call", "i": i, "op": e, "m": r["m"], "msg": {"id": r["msg"]["id"], "len": r["msg"]["len"]}},
                         {"e": "ret", "i": i, "r": bool(ans["r"])}]
                obs.append({"i": idx, "updated": bool(ans["r"])})
            elif e == "add":
                rows += [{"e": "call", "i": i, "op": e, "bag": r["bag"], "k": r["k"]}, {"e": "ret", "i": i, "r": True}]
            else:
                rows += [{"e": "call", "i": i, "op": e}, {"e": "ret", "i": i, "r": int(ans["r"])}]
                obs.append({"i": idx, "r": int(ans["r"])})
    return rows, obs


def expect_to_obs(x):
    """an EXPECT line of StatusGen -> the shape of lockstep_rows' observations"""
    if "updated" in x or "r" in x:
        return x
    f = x["file"]
    doc = None
    if f["v"] == "doc":
        doc = {"status": f["status"], "mon": f["mon"]["id"], "count": f["count"], "conn": f["conn"], "fail": f["fail"],
               "det": {m: {"status": f["det"][m]["status"],
                           "message": {k: f["det"][m]["message"][k] for k in ("id", "len", "dots")}} for m in PUBLISHED}}
    ev = None
    if x["event"].get("v") != "none":
        e = x["event"]
        ev = {"status": e["status"], "mon": e["mon"]["id"], "count": e["count"],
              "det": {m: {"status": e["det"][m]["status"],
                          "message": {k: e["det"][m]["message"][k] for k in ("id", "len", "dots")}} for m in PUBLISHED}}
    kind = "absent" if f["v"] == "none" else ("doc" if x["fresh"] else "stale")
    return {"i": x["i"], "kind": kind, "doc": doc, "event": ev, "tmp": x["tmp"]}


def strip(o):
    """what of an observation the specification speaks about"""
    if o is None:
        return None
    if "kind" not in o:
        return o

    def d(a):
        if a is None or a.get("cut"):
            return a
        r = {"status": a["status"], "mon": a["mon"], "count": a["count"],
             "det": {m: {"status": a["det"][m]["status"],
                         "message": {"id": "unk" if a["det"][m]["message"]["id"] == "unk" else a["det"][m]["message"]["id"],
                                     "len": 0 if a["det"][m]["message"]["id"] == "unk" else a["det"][m]["message"]["len"],
                                     "dots": a["det"][m]["message"]["dots"]}} for m in a.get("det", {})}}
        if "conn" in a:
            r["conn"], r["fail"] = a["conn"], a["fail"]
        return r
    return {"i": o["i"], "kind": o["kind"], "doc": d(o["doc"]) if o["kind"] == "doc" else None, "event": d(o.get("event"))}


# ---------------------------------------------------------------------------------------------------------------------
# stress
def stress_plan(rnd, msgs, tag, kind):
    def slp():
        return rnd.choice([0, 0, 0, 20, 50, 100, 300, 1000, 2000])
    tasks = []
    if kind == "phantom":
        # ONE writer keeps "KeyKeeper and Redirector are never RUNNING together" true at every instant
        ops = [{"op": "set_state", "module": "ProxyServer", "state": "RUNNING"}]
        for _ in range(220):
            for m, s in (("KeyKeeper", "RUNNING"), ("KeyKeeper", "STOPPED"), ("Redirector", "RUNNING"), ("Redirector", "STOPPED")):
                ops.append({"op": "set_state", "module": m, "state": s, "sleep_us": rnd.choice([0, 0, 0, 30, 120])})
        return [{"ops": ops}]
    nkeys = rnd.choice([2, 3, 6])
    keys = list(KEYS)[:nkeys]
    for _ in range(rnd.choice([2, 3])):
        tasks.append({"ops": [{"op": "add", "bag": "conn", "summary": summary_for(rnd.choice(keys), rnd), "sleep_us": slp()}
                              for _ in range(rnd.randrange(30, 70))]})
    for _ in range(rnd.choice([1, 2])):
        tasks.append({"ops": [{"op": "add", "bag": "fail", "summary": summary_for(rnd.choice(keys), rnd), "sleep_us": slp()}
                              for _ in range(rnd.randrange(20, 50))]})
    nm = 0
    for m in ("KeyKeeper", "Redirector", "ProxyServer", "TelemetryLogger"):
        ops = []
        for _ in range(rnd.randrange(20, 45)):
            if rnd.random() < 0.7:
                ops.append({"op": "set_state", "module": m, "state": "RUNNING" if rnd.random() < 0.65 else rnd.choice(STATES),
                            "sleep_us": slp()})
            else:
                mid = "%s_%d" % (tag, nm)
                nm += 1
                msgs.make(mid, rnd.choice(LENS), rnd.choice(FILLERS))
                ops.append({"op": "set_msg", "module": m, "text": msgs.text[mid], "mid": mid, "sleep_us": slp()})
        tasks.append({"ops": ops})
    for _ in range(2):
        tasks.append({"ops": [{"op": "inc_http", "sleep_us": slp()} for _ in range(rnd.randrange(15, 40))]})
    tasks.append({"ops": [{"op": "inc_tcp", "sleep_us": slp()} for _ in range(20)]})
    return tasks


def stress_rows(raw, msgs, base, notes):
    """driver rows (sorted by ticket) -> trace rows.  w of the n-th document = number of rows before the start of the last
    read that still saw document n-2 (the publication seen as n-1 was renamed after that read opened the file; the
    iteration that produced n started after that rename); for the first two documents: the start of the process."""
    rows = [{"e": "reset"}]
    seqs = [0]
    docs = []          # prev_r0 of each document row
    ndoc = 0
    for r in raw:
        e = r["e"]
        if e == "done":
            continue
        if e == "call":
            c = r["cmd"]
            row = {"e": "call", "i": r["i"], "op": c["op"]}
            if c["op"] == "add":
                k = key_of_entry(c["summary"])
                row.update(bag=c.get("bag", "conn"), k=k)
            elif c["op"] == "set_state":
                row.update(m=c["module"], s=c["state"])
            elif c["op"] == "set_msg":
                row.update(m=c["module"], msg={"id": c["mid"], "len": len(c["text"].encode())})
            rows.append(row)
        elif e == "ret":
            a = r["ans"]
            if not a.get("ok"):
                raise util.ToolError("stress operation failed: %s" % a)
            rows.append({"e": "ret", "i": r["i"], "r": a["r"] if "r" in a else True})
        elif e == "pub":
            kind = r["kind"]
            row = {"e": "pub", "kind": kind, "it": 0, "evs": []}
            lo = 0
            if kind == "doc":
                a, why = abstract_doc(r["doc"], msgs)
                if why:
                    notes.setdefault("malformed", []).append(why[:3])
                row["doc"] = a
                ndoc += 1
                if len(docs) >= 1:
                    lo = docs[-1]
                docs.append(r["prev_r0"])
            # w = number of rows (of the whole trace file) whose ticket is below lo; at least the reset row
            row["w"] = base + max(1, bisect.bisect_left(seqs, lo))
            rows.append(row)
        seqs.append(r["seq"])
    return rows, ndoc


# ---------------------------------------------------------------------------------------------------------------------
MC = [     # largest first (they run three at a time)
    ("Status_states.cfg", ["EnvSetState", "GetState", "GetMessage", "RenameTmp", "Wake"]),
    ("Status_crash.cfg", ["Crash", "CreateTmp", "WriteTmp", "RenameTmp", "SetMonitorMessage"]),
    ("Status_window.cfg", ["EnvSetState", "AddConnection", "AddFailed", "RenameTmp", "Wake"]),
    ("Status_counts.cfg", ["AddConnection", "IncreaseConnectionCount", "IncreaseTcpConnectionCount", "ClearCheck"]),
    ("Status_msgs.cfg", ["EnvSetMessage", "GetMessage", "GetMonitorMessage", "RenameTmp"]),
    ("Status_bags.cfg", ["AddConnection", "AddFailed", "Tick", "StatusEvent", "ClearCheck", "RenameTmp"]),
    ("Status_topn.cfg", ["AddConnection", "RenameTmp"]),
]
WITNESS = [("Status_torn.cfg", "NoPhantomSuccess", "non_property_single_instant_snapshot"),
           ("Status_lost.cfg", "NoAddLostAtClear", "non_property_every_add_published_before_clear")]


def model_checking(c):
    def one(item):
        cfg, req = item
        if req is None:
            return c.tlc("Status", cfg, workers=4, timeout=600, expect_ok=False, coverage=False)
        return c.tlc("Status", cfg, workers=6, timeout=600, required_actions=req)
    with ThreadPoolExecutor(max_workers=3) as ex:
        res = list(ex.map(one, MC + [(w[0], None) for w in WITNESS]))
    for (cfg, _), r in zip(MC, res):
        if not r.ok:
            raise tlcmod.TlcError("Status.tla/%s: the design breaks %s" % (cfg, r.invariant_violated or r.property_violated))
    for (cfg, prop, key), r in zip(WITNESS, res[len(MC):]):
        if r.property_violated is None and r.invariant_violated is None:
            raise tlcmod.TlcError("witness configuration %s no longer exhibits the counterexample to %s" % (cfg, prop))
        c.extra[key] = {"cfg": cfg, "refuted": prop, "counterexample_states": r.trace_text.count("State ")}


def judge(c, rows, name, count):
    ok, why, res = validate_trace(c, "StatusTrace", "StatusTrace.cfg", rows, name, count=count, timeout=900, heap="4g")
    if not ok and ("T_Inputs" in why or "not matched" in why):
        raise util.ToolError("trace %s is not a well-formed input of StatusTrace: %s\n%s" % (name, why, res.trace_text[-1500:]))
    torn = [l for l in res.stdout.splitlines() if l.startswith('<<"TORN"')]
    return ok, why.replace("invariant ", ""), torn


def selftest(c, trace):
    """anti 'spec nothing binds': a corrupted field, a dropped operation, a flipped status must each be rejected"""
    import copy
    pubs = [j for j, r in enumerate(trace) if r["e"] == "pub" and r["kind"] == "doc" and r["doc"]["shape"]]
    got = {}
    t1 = copy.deepcopy(trace)
    j = next(j for j in pubs if any(v > 0 for v in trace[j]["doc"]["conn"].values()))
    k = next(k for k, v in trace[j]["doc"]["conn"].items() if v > 0)
    t1[j]["doc"]["conn"][k] += 1
    got["count_plus_one"] = judge(c, t1[:j + 1], "x01_self_a", 0)[:2]
    t2 = copy.deepcopy(trace)
    j = pubs[len(pubs) // 2]
    t2[j]["doc"]["status"] = "SUCCESS" if t2[j]["doc"]["status"] == "ERROR" else "ERROR"
    got["status_flipped"] = judge(c, t2[:j + 1], "x01_self_b", 0)[:2]
    ci = next(i for i, r in enumerate(trace) if r["e"] == "call" and r["op"] == "add")
    end = next(j for j in pubs if j > ci)
    t3 = [dict(r) for i, r in enumerate(trace[:end + 1]) if i not in (ci, ci + 1)]
    for r in t3:
        if r["e"] == "pub" and r["w"] > ci:
            r["w"] -= 2
    got["add_dropped"] = judge(c, t3, "x01_self_c", 0)[:2]
    c.extra["selftest"] = {k: ("rejected: " + v[1]) if not v[0] else "ACCEPTED" for k, v in got.items()}
    if any(v[0] for v in got.values()):
        raise util.ToolError("trace selftest: a corrupted trace was accepted: %s" % c.extra["selftest"])


def lockstep_phase(c, bindir, shim, rnd, msgs, nrand):
    hists = fixed_histories(msgs) + [gen_history(rnd, msgs, "r%d" % j, rnd.randrange(25, 60)) for j in range(nrand)]
    script = []
    starts = []
    for h in hists:
        starts.append(len(script))
        script += h
    script.append({"e": "end"})
    sp = os.path.join(util.RUNDIR, "x01", "script.ndjson")
    util.write_ndjson(sp, script)
    res = c.tlc("StatusGen", "StatusGen.cfg", subdir="gen", workers=1, coverage=False, timeout=900, env={"SCRIPT": sp}, heap="4g")
    if "GENDONE" not in res.stdout:
        raise tlcmod.TlcError("StatusGen did not run the script to its end:\n%s" % res.stdout[-1500:])
    expect = {x["i"]: expect_to_obs(x) for x in tlcmod.printed_json(res, "EXPECT")}
    trace, notes, drift = [], {}, []
    per_hist = []
    for hi, h in enumerate(hists):
        _, answers = run_driver(bindir, "x01_ls", {"op": "init", "mode": "lockstep", "interval_ms": 1000},
                                driver_cmds(h, msgs, rnd), shim=shim)
        if len(answers) != len(h):
            raise util.ToolError("lock-step history %d: %d answers for %d rows" % (hi, len(answers), len(h)))
        if not answers[0].get("shim"):
            raise util.ToolError("the clock shim is not in effect (LD_PRELOAD)")
        rows, obs = lockstep_rows(h, answers, msgs, len(trace), notes)
        per_hist.append((len(trace), len(rows)))
        trace += rows
        for o in obs:
            gi = starts[hi] + o["i"]
            want = expect.get(gi)
            c.count(n=1)
            if want is None:
                raise util.ToolError("no EXPECT line for script row %d" % gi)
            a, b = strip(dict(o, i=gi)), strip(want)
            if a.get("event") == {"cut": True} and b.get("event") is not None:
                a["event"] = b["event"]            # payload not comparable (see abstract_event)
            if a != b:
                drift.append({"history": hi, "row": o["i"], "got": a, "spec": b})
            elif o.get("kind") == "doc":
                c.count(json.dumps([a["doc"], a["event"] is not None], sort_keys=True))
    c.sample({"lockstep_history": hists[0][:14], "first_observation": strip(expect[starts[0] + 1])})
    c.extra["lockstep"] = {"histories": len(hists), "script_rows": len(script), "observations": sum(1 for r in trace if r["e"] == "pub"),
                           "trace_rows": len(trace)}
    c.extra.update(notes)
    ok, why, _ = judge(c, trace, "x01_lockstep", len(hists))
    if ok and (c.tier == "thorough" or os.environ.get("X01_SELFTEST")):
        selftest(c, trace)
    if not ok:
        # find the history, re-execute it once on its own (deterministic), report only what reproduces
        for hi, h in enumerate(hists):
            _, answers = run_driver(bindir, "x01_ls_re", {"op": "init", "mode": "lockstep", "interval_ms": 1000},
                                    driver_cmds(h, msgs, random.Random(hi)), shim=shim)
            rows, _ = lockstep_rows(h, answers, msgs, 0, {})
            ok1, why1, _ = judge(c, rows, "x01_lockstep_h%d" % hi, 0)
            if not ok1:
                c.violation("lock-step history %d: the real status task breaks %s" % (hi, why1),
                            {"phase": "lockstep", "broken": why1},
                            {"history": h, "messages": {r["msg"]["id"]: msgs.text[r["msg"]["id"]] for r in h if r["e"] == "set_msg"},
                             "trace": rows})
                break
        else:
            raise util.ToolError("lock-step trace rejected (%s) but no single history reproduces it" % why)
    if drift:
        c.extra["model_drift_lockstep"] = {"count": len(drift), "first": drift[:3],
                                           "note": "observations that differ from Status.tla; decided against the "
                                                   "properties by StatusTrace"}
    c.exhaustive = False
    return len(drift)


def stress_phase(c, bindir, rnd, msgs, nruns):
    def once(j, seed, attempt, base):
        kind = "phantom" if j % 4 == 3 else "mixed"
        r2 = random.Random(seed)
        tasks = stress_plan(r2, msgs, "s%d_%d" % (j, attempt), kind)
        _, raw = run_driver(bindir, "x01_st", {"op": "init", "mode": "stress", "interval_ms": 1, "tasks": tasks,
                                               "settle_ms": 20}, [], timeout=600)
        if not raw or raw[-1].get("e") != "done":
            raise util.ToolError("stress run incomplete")
        rows, ndoc = stress_rows(raw, msgs, base, {})
        return rows, ndoc, tasks, kind
    seeds = [rnd.randrange(1 << 30) for _ in range(nruns)]
    trace, runs = [], []
    for j, seed in enumerate(seeds):
        rows, ndoc, tasks, kind = once(j, seed, 0, len(trace))
        runs.append((len(trace), len(rows), ndoc))
        trace += rows
        c.count(json.dumps(["stress", seed]), n=ndoc)
        if j == 0:
            pubs = [r for r in rows if r["e"] == "pub" and r["kind"] == "doc"]
            c.sample({"stress_seed": seed, "documents_observed": ndoc, "operations": sum(1 for r in rows if r["e"] == "call"),
                      "last_document": pubs[-1]["doc"] if pubs else None})
    ok, why, torn = judge(c, trace, "x01_stress", nruns)
    if not ok:
        # which run?  each run again on its own (same seed, new schedule): report only what is rejected again for the same reason
        for j, seed in enumerate(seeds):
            rows, _, tasks, kind = once(j, seed, 1, 0)
            start, n, _ = runs[j]
            first = [dict(r, w=r["w"] - start) if r["e"] == "pub" else r for r in trace[start:start + n]]
            ok0, why0, _ = judge(c, first, "x01_stress_%d_first" % j, 0)
            if ok0:
                continue
            again = [judge(c, once(j, seed, a, 0)[0], "x01_stress_%d_%d" % (j, a), 0) for a in (2, 3, 4)]
            if any((not x[0]) and x[1] == why0 for x in again):
                c.violation("stress run (seed %d, %s): observed status.json breaks %s" % (seed, kind, why0),
                            {"phase": "stress", "broken": why0}, {"seed": seed, "kind": kind, "tasks": tasks, "trace": first[:4000]})
            else:
                c.extra.setdefault("unreproduced", []).append({"seed": seed, "broken": why0})
                raise util.ToolError("stress run %d rejected once (%s) and not again: unreproduced, not believed" % (seed, why0))
    docs_total = sum(r[2] for r in runs)
    c.extra["stress"] = {"runs": nruns, "documents_observed": docs_total, "trace_rows": len(trace)}
    c.extra["observed_documents_mixing_instants"] = {
        "count": len(torn), "of_which_SUCCESS_never_true_at_any_instant": sum(1 for t in torn if "phantom" in t),
        "note": "StrongSnapshot is a stated NON-property (13 separate actor messages); these are real status.json "
                "documents that no single instant of the actor explains -- reported, not alarmed on"}


NLOST = 12000


def lost_at_clear(c, bindir, shim, rnd, msgs):
    """observation for the second non-property: adds that land between the last read and the 24 h clear"""
    tasks = [{"ops": [{"op": "add", "bag": "conn", "summary": summary_for("k1", rnd), "sleep_us": 0} for _ in range(NLOST // 3)]}
             for _ in range(3)]
    d, exe = rig.prepare("x01_lost", bindir)
    out, cf = os.path.join(d, "out.ndjson"), os.path.join(d, "clock")
    with open(cf, "wb") as f:
        f.write(b"\0" * 8)
    env = dict(os.environ, VERIF_CMD="status", VERIF_OUT=out, LD_PRELOAD=shim, VERIF_CLOCK_FILE=cf)
    init = {"op": "init", "mode": "stress", "interval_ms": 1, "tasks": tasks, "settle_ms": 30, "dir": os.path.join(d, "status")}
    p = subprocess.Popen([exe], env=env, cwd=d, stdin=subprocess.PIPE, stdout=subprocess.DEVNULL, stderr=subprocess.DEVNULL)
    p.stdin.write((json.dumps(init) + "\n").encode())
    p.stdin.close()
    # the deadline is measured from the task's start: move the clock once a good number of adds has been published
    t0 = time.time()
    sj = os.path.join(d, "status", "status.json")
    while time.time() - t0 < 20 and p.poll() is None:
        try:
            with open(sj, encoding="utf-8") as f:
                lst = json.load(f)["proxyConnectionSummary"]
            if lst and lst[0]["count"] >= NLOST // 6:
                break
        except (OSError, ValueError, KeyError):
            pass
        time.sleep(0.001)
    with open(cf, "r+b") as f:
        f.write((86400).to_bytes(8, "little"))
    try:
        p.wait(timeout=60)
    except subprocess.TimeoutExpired:
        p.kill()
        raise util.ToolError("lost-at-clear run timed out")
    raw = util.read_ndjson(out)
    counts = []
    for r in raw:
        if r["e"] == "pub" and r["kind"] == "doc":
            a, _ = abstract_doc(r["doc"], msgs)
            counts.append(a["conn"]["k1"])
    drop = [i for i in range(1, len(counts)) if counts[i] < counts[i - 1]]
    if len(drop) != 1:
        c.extra["lost_adds_at_clear_observed"] = {"note": "no single clear observed in this run", "drops": len(drop)}
        return
    before, final = counts[drop[0] - 1], counts[-1]
    c.extra["lost_adds_at_clear_observed"] = {
        "adds": NLOST, "last_count_published_before_clear": before, "final_count_after_clear": final,
        "adds_in_no_published_count": NLOST - before - final,
        "note": "as seen by the polling reader; NoAddLostAtClear is a stated NON-property: the clear is a separate "
                "message after the publication"}


def kill_phase(c, bindir, rnd, msgs, n):
    bad = 0
    for j in range(n):
        tasks = [{"ops": [{"op": "add", "bag": "conn", "summary": summary_for(rnd.choice(list(KEYS)), rnd), "sleep_us": 0}
                          for _ in range(50)]},
                 {"ops": [{"op": "set_state", "module": "KeyKeeper", "state": s, "sleep_us": 10} for s in STATES * 5]}]
        d, _ = run_driver(bindir, "x01_kill", {"op": "init", "mode": "stress", "interval_ms": 1, "tasks": tasks, "forever": True},
                          [], kill_after=rnd.uniform(0.003, 0.06))
        p = os.path.join(d, "status", "status.json")
        c.count(n=1)
        if not os.path.exists(p):
            continue
        try:
            with open(p, encoding="utf-8") as f:
                a, why = abstract_doc(json.load(f), msgs)
            if not a["shape"]:
                raise ValueError(str(why))
        except ValueError as ex:
            bad += 1
            shutil.copy(p, os.path.join(util.RUNDIR, "x01", "killed_status_%d.json" % j))
            c.violation("after kill -9 status.json is not a complete document: %s" % str(ex)[:200],
                        {"phase": "kill", "broken": "FileNeverHalfWritten"}, {"kill": j})
    c.extra["kill_runs"] = {"runs": n, "bad": bad}


def composition_phase(c, bindir, rnd):
    """observation only: the real ProxyServer feeding the real actor and status task (lib/vlib/rig.py).  Plain WireServer
    requests by root, rules switched between none and deny/enforce: every request is one IncreaseConnectionCount and one
    entry in the connection summary; every refused one is also one entry in the failed-authorization summary."""
    name = "x01_rig"
    sd = os.path.join(util.RUNDIR, name, "status")
    deny = {"defaultAccess": "deny", "mode": "enforce", "id": "x01deny", "rules": None}
    steps, n = [], 0
    for ci in range(10):
        tag = "c%d" % ci
        if rnd.random() < 0.5:
            steps.append({"op": "set_rules", "ep": "ws", "doc": rnd.choice([deny, None])})
        steps.append({"op": "connect", "conn": tag, "attr": {"uid": 0, "admin": 1, "dip": "168.63.129.16", "dport": 80}})
        for r in range(rnd.randint(1, 3)):
            n += 1
            steps.append({"op": "request", "conn": tag, "id": "%s_%d" % (tag, r), "method": rnd.choice(["GET", "POST"]),
                          "target": "/machine?comp=goalstate", "headers": [["Host", "h"]]})
        steps.append({"op": "close", "conn": tag})
    steps.append({"op": "sleep", "ms": 300})
    ev, d, _ = rig.run_rig({"steps": steps, "status_task": {"interval_ms": 20, "dir": sd}, "drain_ms": 200}, name,
                           timeout=180, bindir=bindir)
    st = [e["status"] for e in ev if e.get("e") == "Response"]
    try:
        with open(os.path.join(sd, "status.json"), encoding="utf-8") as f:
            doc = json.load(f)
    except (OSError, ValueError) as ex:
        c.violation("status.json left by the agent is not a complete document: %s" % ex,
                    {"phase": "composition", "broken": "FileNeverHalfWritten"}, {"steps": steps})
        return
    sc = sum(x["count"] for x in doc["proxyConnectionSummary"])
    sf = sum(x["count"] for x in doc["failedAuthenticateSummary"])
    cnt = doc["proxyAgentStatus"]["proxyConnectionsCount"]
    c.extra["composition_proxy_accounting"] = {
        "requests": n, "responses": len(st), "refused_403": st.count(403), "proxyConnectionsCount": cnt,
        "sum_connection_summary": sc, "sum_failed_summary": sf,
        "consistent": cnt == n and sc == n and sf == st.count(403),
        "listener": doc["proxyAgentStatus"]["proxyListenerStatus"]["status"],
        "note": "observation, not a verdict: a refused request is counted in BOTH bags (403 in the connection summary, "
                "'Authorize failed' in the failed-authorization summary)"}


def run(c):
    thorough = c.tier == "thorough"
    rnd = random.Random(c.seed)
    c.assumptions = ASSUME
    bindir = build.cargo_build("agent")
    shim = build_shim()
    msgs = Messages()
    model_checking(c)
    lockstep_phase(c, bindir, shim, rnd, msgs, 500 if thorough else 24)
    stress_phase(c, bindir, rnd, msgs, 60 if thorough else 8)
    lost_at_clear(c, bindir, shim, rnd, msgs)
    kill_phase(c, bindir, rnd, msgs, 100 if thorough else 8)
    composition_phase(c, bindir, rnd)
    c.extra["extension_top_n"] = ("model level only (Status.tla ExtensionTopN, mc/Status_topn.cfg): "
                                  "get_top_proxy_connection_summary is private to service_main.rs; nothing transcribed")
    c.rule = ("S->I: every lock-step history (fixed + seeded) is run through gen/StatusGen and on the real actor + status task; "
              "every observation (document, event, return value) compared with the EXPECT line; I->S: the same observations "
              "and seeded stress runs judged by TLC against trace/StatusTrace (properties only); distinct = distinct "
              "(document, event) observations + stress runs")


def replay(c, path):
    run(c)
