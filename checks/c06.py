"""C06 — the kernel hook redirects exactly the protected connects and records the true caller.

spec/Ebpf.tla (exhaustive, small constants) + S->I replay of TLC-generated behaviours, step by step, on a user-space
build of the UNMODIFIED /repo/linux-ebpf/ebpf_cgroup.c (harness/ebpf: shim headers + map/helper run-time), with every
policy/skip/audit key produced and every audit record decoded by the repository's own Rust code (harness/ebpf/codec)
+ I->S seeded random runs (uid != gid, pid != tid, up to the map capacity in flight, non-TCP protocols, agent pid in
the skip map) judged by TLC against the property-level trace spec spec/trace/EbpfTrace.tla.

Environment: VERIF_EBPF_SRC=<dir with ebpf_cgroup.c + socket.h> builds that copy instead of /repo/linux-ebpf
(experiments / mutation self-test only).  `python3 checks/c06.py --selftest` runs the mutation self-test."""
import json
import os
import random
import re
import shutil
import struct
import subprocess
import sys

if __name__ == "__main__":
    _V = os.path.dirname(os.path.dirname(os.path.abspath(__file__)))
    sys.path.insert(0, os.path.join(_V, "lib"))
    sys.path.insert(0, _V)

from vlib import tlc as tlcmod, util
from vlib.ctx import Ctx, validate_trace as _validate_trace

HARNESS = os.path.join(util.VERIF, "harness", "ebpf")
OUT = os.path.join(util.RUNDIR, "ebpf")
AF_INET = 2
TCP = 6

ASSUME = [
    "TLC 1.8 and the CommunityModules Json/IOUtils are correct",
    "BPF helper and map semantics are those of bpf-helpers(7) as modelled in harness/ebpf/driver.c "
    "(bpf_get_current_uid_gid = gid<<32|uid, bpf_get_current_pid_tgid = tgid<<32|tid, HASH refuses inserts when "
    "full, LRU_HASH evicts the least recently used entry only when full); the verifier, the JIT and the kernel's "
    "approximate per-CPU LRU are not involved",
    "struct bpf_sock_addr / pt_regs are the system's uapi headers; x86-64 little-endian; kprobe argument in rdi",
    "aya moves [u32; N] keys/values as native-endian memory images (Pod); BpfObject::lookup_audit itself needs a "
    "live map, so its AuditEntry literal is lifted textually from linux.rs and compiled (codec reports "
    "cast_from_source)",
    "property quantifier: at most max_entries (200) connections in flight, so the LRU maps evict nothing but "
    "leftovers (records whose connection ended unconsumed and which are the least recently used entries); a connect "
    "that passes connect4 reaches tcp_connect; the agent registers its pid while none of its threads is mid-connect; "
    "a source port is reused only after its connection ended -- its record may still be in the map (the client went "
    "away before the proxy's accept), and the record the agent then reads under the port must be the new connect's",
]


def validate_trace(c, module, cfg, rows, name, **kw):
    """vlib's validate_trace; a run TLC cannot follow to its last row surfaces there as a TlcError (the failed
    POSTCONDITION is printed in a form tlc.py does not classify) -- report it as 'not matched' instead."""
    try:
        return _validate_trace(c, module, cfg, rows, name, **kw)
    except tlcmod.TlcError as ex:
        if "UNMATCHED" in str(ex):
            return False, "trace not matched to its end", None
        raise


# ------------------------------------------------------------------------------------------------ build
def src_dir():
    return os.environ.get("VERIF_EBPF_SRC") or os.path.join(util.REPO, "linux-ebpf")


def build_sim(src=None, tag="ebpfsim"):
    """gcc build of the unmodified program + driver; always rebuilt from the current working tree."""
    src = src or src_dir()
    cfile = os.path.join(src, "ebpf_cgroup.c")
    if not (os.path.exists(cfile) and os.path.exists(os.path.join(src, "socket.h"))):
        raise util.ToolError("ebpf sources not found in %s" % src)
    os.makedirs(OUT, exist_ok=True)
    tmp = os.path.join(OUT, "%s.%d" % (tag, os.getpid()))
    o1, o2 = tmp + ".prog.o", tmp + ".drv.o"
    flags = ["-O1", "-g", "-std=gnu11", "-Wall", "-Wno-unused-variable", "-Wno-unused-but-set-variable"]
    util.sh(["gcc"] + flags + ["-I", os.path.join(HARNESS, "shim"), "-DVERIF_EBPF_C=\"%s\"" % cfile,
                               "-c", os.path.join(HARNESS, "prog_tu.c"), "-o", o1], timeout=600)
    util.sh(["gcc"] + flags + ["-c", os.path.join(HARNESS, "driver.c"), "-o", o2], timeout=600)
    util.sh(["gcc", o1, o2, "-o", tmp], timeout=600)
    exe = os.path.join(OUT, tag)
    os.replace(tmp, exe)
    for f in (o1, o2):
        os.unlink(f)
    return exe


def build_codec():
    cdir = os.path.join(HARNESS, "codec")
    target = os.path.join(util.BUILD, "cargo", "ebpfcodec")
    if os.path.realpath(util.REPO) != "/repo":
        # another source tree (mutation experiments): a private copy of the crate with its own target directory, so
        # that the shared crate's links are never re-pointed under a check running against /repo at the same time
        import hashlib
        import shutil
        root = os.path.join(util.BUILD, "alt", hashlib.sha256(os.path.realpath(util.REPO).encode()).hexdigest()[:10])
        alt = os.path.join(root, "harness", "ebpfcodec")
        shutil.rmtree(alt, ignore_errors=True)
        shutil.copytree(cdir, alt, symlinks=True, ignore=shutil.ignore_patterns("target", "repo"))
        cdir, target = alt, os.path.join(root, "cargo", "ebpfcodec")
    links = {
        "ebpf_obj.rs": "proxy_agent/src/redirector/linux/ebpf_obj.rs",
        "constants.rs": "proxy_agent/src/common/constants.rs",
        "redirector.rs": "proxy_agent/src/redirector.rs",
        "linux.rs": "proxy_agent/src/redirector/linux.rs",
    }
    rdir = os.path.join(cdir, "src", "repo")
    os.makedirs(rdir, exist_ok=True)
    for name, rel in links.items():
        p, want = os.path.join(rdir, name), os.path.join(util.REPO, rel)
        if not os.path.islink(p) or os.readlink(p) != want:
            if os.path.lexists(p):
                os.unlink(p)
            os.symlink(want, p)
    t = util.Timer()
    p = util.sh(["cargo", "build", "--offline", "--quiet", "--release"], cwd=cdir,
                env={"CARGO_NET_OFFLINE": "true", "CARGO_TERM_COLOR": "never", "CARGO_TARGET_DIR": target}, timeout=900, check=False)
    if p.returncode != 0:
        raise util.ToolError("cargo build of harness/ebpf/codec failed:\n%s" % (p.stdout or "")[-4000:])
    util.log("built harness/ebpf/codec in %ss" % t.s())
    return os.path.join(target, "release", "verif-ebpfcodec")


class Proc:
    """line-in / JSON-line-out co-process"""

    def __init__(self, exe):
        self.exe = exe
        self.p = subprocess.Popen([exe], stdin=subprocess.PIPE, stdout=subprocess.PIPE, stderr=subprocess.PIPE,
                                  text=True, bufsize=1)

    def ask(self, line):
        try:
            self.p.stdin.write(line + "\n")
            self.p.stdin.flush()
            out = self.p.stdout.readline()
        except (BrokenPipeError, OSError):
            out = ""
        if not out:
            err = ""
            try:
                self.p.wait(timeout=5)
                err = self.p.stderr.read()
            except Exception:
                pass
            raise util.ToolError("%s died on %r: %s" % (os.path.basename(self.exe), line[:200], err[-500:]))
        try:
            return json.loads(out)
        except json.JSONDecodeError:
            raise util.ToolError("%s: unparsable reply to %r: %r" % (os.path.basename(self.exe), line[:200], out[:300]))

    def close(self):
        try:
            self.p.stdin.close()
            self.p.wait(timeout=10)
        except Exception:
            self.p.kill()


class Codec(Proc):
    def __init__(self, exe):
        super().__init__(exe)
        self.memo = {}
        self.hello = self.ask("hello")

    def q(self, line):
        r = self.memo.get(line)
        if r is None:
            r = self.memo[line] = self.ask(line)
        return r


# ------------------------------------------------------------------------------------------------ wire helpers
def ip_hex(ip):
    return "".join("%02x" % int(x) for x in ip.split("."))


def hex_ip(h):
    return ".".join(str(int(h[i:i + 2], 16)) for i in range(0, 8, 2))


def ctx_port_hex(port):          # bpf_sock_addr.user_port: network byte order in a __u32 (little-endian host)
    return "%04x0000" % port


def ctx_port_val(h):
    return int(h[0:4], 16) + (int(h[4:8], 16) << 16)


def small(n):
    return n if 0 <= n < 2 ** 31 else -1


NOREC = {"present": False, "logon": "", "pid": "", "admin": 0, "ip": "", "port": 0}


class Machine:
    """Executes concrete steps on the simulated program; yields, per step, the observation row (EbpfTrace format)
    and the decoded map contents."""

    def __init__(self, sim, codec):
        self.sim, self.codec = sim, codec
        self.reset()

    def reset(self):
        self.sim.ask("reset")
        self.audit_raw = {}
        self.last4 = {}            # (pid, tid) -> (ip, port) the socket carries after connect4
        self.layout_notes = []

    # -- encoders: always the repository's Rust code
    def policy_key(self, ip, port):
        for e in self.codec.hello["endpoints"]:
            if e["ip"] == ip and e["port"] == port:      # as linux.rs: the *_NETWORK_BYTE_ORDER constant
                return self.codec.q("destu %d %d" % (e["nbo"], port))["hex"]
        return self.codec.q("dest %s %d" % (ip, port))["hex"]

    def akey(self, sport):
        return self.codec.q("akey %d" % sport)["hex"]

    def decode_audit(self, raw):
        out = {}
        for k, v in raw.items():
            kd = self.codec.q("akeydec " + k)
            vd = self.codec.q("aval " + v)
            if vd["ip"] != vd["ip_str"]:
                self.layout_notes.append("destination_ipv4_addr()=%s but ip_to_string()=%s" % (vd["ip"], vd["ip_str"]))
            out[(kd["protocol"], kd["source_port"])] = {
                "logon": str(vd["logon_id"]), "pid": str(vd["process_id"]), "admin": vd["is_admin"],
                "ip": vd["ip"], "port": vd["port"]}
        return out

    def _after(self, reply):
        raw = {k: v for k, v in reply["maps"]["audit"]}
        chg = [k for k in raw if self.audit_raw.get(k) != raw[k]]
        gone = [k for k in self.audit_raw if k not in raw]

        def kd(k):
            d = self.codec.q("akeydec " + k)
            return {"proto": small(d["protocol"]), "sport": small(d["source_port"])}
        achg = [kd(k) for k in chg]
        agone = [kd(k)["sport"] for k in gone]
        self.audit_raw = raw
        local = {}
        for k, v in reply["maps"]["local"]:
            f = struct.unpack("<6I", bytes.fromhex(v)) if len(v) == 48 else ()
            if len(k) == 16:
                key = struct.unpack("<Q", bytes.fromhex(k))[0]
                local[(key >> 32, key & 0xFFFFFFFF)] = f
            else:
                # the hand-over map is kernel-internal: another key layout is a drift from Ebpf.tla, never a verdict
                local[("raw", k)] = f
        return achg, agone, local

    def lookup(self, sport):
        r = self.sim.ask("get audit " + self.akey(sport))
        if r["val"] is None:
            return dict(NOREC)
        vd = self.codec.q("aval " + r["val"])
        return {"present": True, "logon": str(vd["logon_id"]), "pid": str(vd["process_id"]), "admin": vd["is_admin"],
                "ip": vd["ip"], "port": vd["port"]}

    def step(self, st):
        """returns (row, info)"""
        op = st["op"]
        sim = self.sim
        if op == "policy_add":
            r = sim.ask("put policy %s %s" % (self.policy_key(st["ip"], st["port"]),
                                              self.codec.q("dest %s %d" % (st["to_ip"], st["to_port"]))["hex"]))
            if r["ret"] != 0:
                raise util.ToolError("policy insert refused (%s): more listed destinations than the map holds" % r["ret"])
            achg, agone, local = self._after(r)
            row = {"e": "policy", "op": "add", "ip": st["ip"], "port": st["port"], "to_ip": st["to_ip"],
                   "to_port": st["to_port"]}
        elif op == "policy_del":
            r = sim.ask("del policy %s" % self.policy_key(st["ip"], st["port"]))
            achg, agone, local = self._after(r)
            row = {"e": "policy", "op": "del", "ip": st["ip"], "port": st["port"], "to_ip": "", "to_port": 0}
        elif op == "skip_add":
            k = self.codec.q("skip %d" % st["pid"])["hex"]
            r = sim.ask("put skip %s %s" % (k, k))
            achg, agone, local = self._after(r)
            row = {"e": "skip", "pid": str(st["pid"])}
        elif op == "release":
            r = sim.ask("del audit " + self.akey(st["sport"]))
            achg, agone, local = self._after(r)
            row = {"e": "consume", "sport": st["sport"], "found": r["ret"] == 0, "achg": achg, "agone": agone}
        elif op == "end":
            # the connection on this port ends, nobody consumed its record: no hook runs, no map operation
            r = sim.ask("nop")
            achg, agone, local = self._after(r)
            row = {"e": "end", "sport": st["sport"], "achg": achg, "agone": agone}
        elif op == "connect4":
            t = st["t"]
            sim.ask("thread %d %d %d %d" % (t["pid"], t["tid"], t["uid"], t["gid"]))
            # st["bound"]: the client bound its socket to a local address before connecting (curl --interface, a
            # configured source address); where a listed connect is diverted to does not depend on it
            r = sim.ask("connect4 %s %s %d %d %d%s" % (ip_hex(st["ip"]), ctx_port_hex(st["port"]), st["proto"], AF_INET,
                                                      1 if st["proto"] == TCP else 2 if st["proto"] == 17 else 3,
                                                      " " + ip_hex(st["bound"]) if st.get("bound") else ""))
            achg, agone, local = self._after(r)
            oip, oport = hex_ip(r["ip"]), small(ctx_port_val(r["port"]))
            if st["proto"] == TCP:
                self.last4[(t["pid"], t["tid"])] = (oip, oport)
            row = {"e": "connect4", "pid": str(t["pid"]), "tid": str(t["tid"]), "uid": str(t["uid"]),
                   "gid": str(t["gid"]), "ip": st["ip"], "port": st["port"], "proto": st["proto"],
                   "ret": r["ret"], "oip": oip, "oport": oport, "achg": achg, "agone": agone}
        elif op == "tcp":
            t = st["t"]
            if st.get("direct"):
                dip, dport = st["dip"], st["dport"]
            else:                                           # the socket carries what connect4 actually left
                dip, dport = self.last4.pop((t["pid"], t["tid"]))
            sim.ask("thread %d %d %d %d" % (t["pid"], t["tid"], t["uid"], t["gid"]))
            if not 0 <= dport < 65536:
                dport &= 0xFFFF
            r = sim.ask("tcp %d %s %04x %d %s" % (AF_INET, ip_hex(dip), dport, st["sport"], ip_hex("10.0.0.4")))
            achg, agone, local = self._after(r)
            row = {"e": "tcp", "direct": bool(st.get("direct")), "pid": str(t["pid"]), "tid": str(t["tid"]),
                   "uid": str(t["uid"]), "gid": str(t["gid"]), "sport": st["sport"], "dip": dip, "dport": dport,
                   "rec": self.lookup(st["sport"]), "achg": achg, "agone": agone}
        else:
            raise util.ToolError("unknown step %r" % (st,))
        return row, {"audit": self.decode_audit(self.audit_raw), "local": local, "evictions": r.get("evictions", {})}

    def run(self, steps):
        self.reset()
        return [self.step(s) for s in steps]


# ------------------------------------------------------------------------------------------------ python-side diagnosis
def diagnose(rows):
    """Same judgement as spec/trace/EbpfTrace.tla, used to *name* what TLC rejects (the verdict is TLC's).
    Returns None or dict(p, f, kind, row)."""
    pol, skp, pend, recd, left = {}, set(), {}, set(), set()

    def bad(i, p, f, kind=None):
        return {"p": p, "f": f, "kind": kind or f, "row": i}

    def mine_of(r, mode):
        """the record read under the port is judged as this connect's own, unless the port carried a leftover
        which this step left exactly as it was (and the connect need not produce a record)"""
        kept = r["rec"]["present"] and r["sport"] in left and not r["achg"]
        return r["rec"]["present"] and (mode == "must" or not kept)

    def judge(i, r, mode, agent, oip, oport):
        rec = r["rec"]
        mine = mine_of(r, mode)
        # a diverted connect reads, under its own source port, the untouched record of an earlier connection
        stale = mode == "must" and rec["present"] and r["sport"] in left and not r["achg"]
        if mode == "must" and not rec["present"]:
            return bad(i, "RecordTruth", "missing", "record-missing")
        if mode == "none" and mine:
            return bad(i, "AgentUntouched" if agent else "NoRecordOtherwise", "record",
                       "agent-recorded" if agent else "record-for-unlisted")
        if mine:
            if rec["logon"] != r["uid"] or rec["admin"] != (1 if r["uid"] == "0" else 0):
                f = "logon" if rec["logon"] != r["uid"] else "admin"
                from_gid = rec["logon"] == r["gid"] and rec["admin"] == (1 if r["gid"] == "0" else 0)
                return bad(i, "RecordTruth", f, "stale-record-on-reused-port" if stale else
                           "uid-from-gid" if from_gid else "record-" + f)
            for f, want in (("pid", r["pid"]), ("ip", oip), ("port", oport)):
                if rec[f] != want:
                    return bad(i, "RecordTruth", f, "stale-record-on-reused-port" if stale else "record-" + f)
        if any(a["proto"] != TCP or a["sport"] != r["sport"] for a in r["achg"]):
            return bad(i, "NoRecordOtherwise", "other-key", "record-under-other-key")
        if not rec["present"] and r["achg"]:
            return bad(i, "NoRecordOtherwise", "unreadable-record")
        if not set(r["agone"]) <= left:
            return bad(i, "RecordTruth", "earlier-record-lost")
        return None

    def after_tcp(r, mode):
        mine = mine_of(r, mode)
        if r["rec"]["present"]:
            recd.add(r["sport"])
        if mine or not r["rec"]["present"]:
            left.discard(r["sport"])
        for sp in r["agone"]:
            recd.discard(sp)
            left.discard(sp)

    for i, r in enumerate(rows):
        e = r["e"]
        b = None
        if e == "reset":
            pol, skp, pend = {}, set(), {}
            recd.clear()
            left.clear()
        elif e == "policy":
            if r["op"] == "add":
                pol[(r["ip"], r["port"])] = (r["to_ip"], r["to_port"])
            else:
                pol.pop((r["ip"], r["port"]), None)
        elif e == "skip":
            skp.add(r["pid"])
        elif e == "connect4":
            dst = (r["ip"], r["port"])
            agent = r["pid"] in skp
            must = r["proto"] == TCP and dst in pol and not agent
            same = (r["oip"], r["oport"]) == dst
            if r["ret"] != 1:
                b = bad(i, "RedirectExactly", "verdict")
            elif must and (r["oip"], r["oport"]) != pol[dst]:
                b = bad(i, "RedirectExactly", "not-diverted")
            elif not must and not same and agent:
                b = bad(i, "AgentUntouched", "rewritten", "agent-diverted")
            elif not must and not same:
                b = bad(i, "RedirectExactly", "non-tcp-rewritten" if r["proto"] != TCP else "unlisted-rewritten")
            elif r["achg"] and agent:
                b = bad(i, "AgentUntouched", "record", "agent-recorded")
            elif r["achg"] or r["agone"]:
                b = bad(i, "NoRecordOtherwise", "audit-changed-at-connect4")
            if r["proto"] == TCP:
                pend[(r["pid"], r["tid"])] = {"ip": r["ip"], "port": r["port"], "div": must, "agent": agent}
        elif e == "tcp" and not r["direct"]:
            p = pend.pop((r["pid"], r["tid"]))
            agent = p["agent"] or r["pid"] in skp
            mode = "must" if p["div"] else "none" if agent else "may" if (p["ip"], p["port"]) in pol else "none"
            b = judge(i, r, mode, agent, p["ip"], p["port"])
            after_tcp(r, mode)
        elif e == "tcp":
            agent = r["pid"] in skp
            mode = "none" if agent else "may" if (r["dip"], r["dport"]) in pol else "none"
            b = judge(i, r, mode, agent, r["dip"], r["dport"])
            after_tcp(r, mode)
        elif e == "consume":
            if r["sport"] in recd and not r["found"]:
                b = bad(i, "RecordTruth", "lost-before-consumed")
            elif r["sport"] not in recd and r["found"]:
                b = bad(i, "NoRecordOtherwise", "record", "record-for-unlisted")
            elif r["achg"]:
                b = bad(i, "NoRecordOtherwise", "audit-changed-at-consume")
            elif r["agone"] != ([r["sport"]] if r["found"] else []):
                b = bad(i, "RecordTruth", "earlier-record-lost")
            recd.discard(r["sport"])
            left.discard(r["sport"])
        elif e == "end":
            if r["achg"]:
                b = bad(i, "NoRecordOtherwise", "audit-changed-at-end")
            elif r["agone"]:
                b = bad(i, "RecordTruth", "earlier-record-lost")
            if r["sport"] in recd:
                left.add(r["sport"])
        if b:
            # a record of a diverted connect comes from update_local_map_entry; any other record from trace_v4's fallback
            b["site"] = e if e != "tcp" else "trace_v4/update_audit_map_entry_sk (entry under the port not replaced)" \
                if b["kind"] == "stale-record-on-reused-port" else "connect4/update_local_map_entry" if mode == "must" \
                else "trace_v4 fallback"
            return b
    return None


# ------------------------------------------------------------------------------------------------ S->I: concretisation
def gen_behaviours(c, n, depth, seed):
    """TLC -simulate over spec/gen/EbpfGen.tla; GenDepth is patched into a scratch copy of the cfg."""
    gdir = os.path.join(OUT, "gen")
    os.makedirs(gdir, exist_ok=True)
    cfg = open(os.path.join(util.SPEC, "gen", "EbpfGen.cfg")).read()
    cfg = re.sub(r"GenDepth = \d+", "GenDepth = %d" % depth, cfg)
    shutil.copy(os.path.join(util.SPEC, "gen", "EbpfGen.tla"), os.path.join(gdir, "EbpfGen.tla"))
    with open(os.path.join(gdir, "EbpfGen.cfg"), "w") as f:
        f.write(cfg)
    t = util.Timer()
    res = tlcmod.run("EbpfGen", "EbpfGen.cfg", gdir, workers=1, simulate=n, depth=depth + 2, seed=seed, coverage=False,
                     timeout=1500, heap="2g", java_opts=["-DTLA-Library=" + util.SPEC])
    if not res.ok:
        raise tlcmod.TlcError("generator failed: inv=%s %s" % (res.invariant_violated, res.error_lines[:3]))
    behs = [expand_init(b) for b in tlcmod.printed_json(res, "BEH")]
    util.log("generated %d behaviours of %d steps in %ss" % (len(behs), depth, t.s()))
    if len(behs) < n * 0.9:
        raise util.ToolError("generator printed %d of %d behaviours" % (len(behs), n))
    if c is not None:
        c.tlc_runs.append({"module": "EbpfGen", "cfg": "EbpfGen.cfg (-simulate)", "distinct": res.distinct,
                           "generated": res.generated, "depth": depth, "wall_s": round(res.wall_s, 2), "ok": True})
    return behs


def expand_init(beh):
    """the generator starts from an arbitrary policy / skip map: replay it as plain agent steps"""
    if not beh or beh[0]["a"] != "init":
        return beh
    nothing = {"local": [], "audit": []}
    pre = [{"a": "policy_add", "ip": d["ip"], "port": d["port"], "after": nothing}
           for d in sorted(beh[0]["listed"], key=lambda d: (d["ip"], d["port"]))]
    pre += [{"a": "skip_add", "pid": p, "after": nothing} for p in sorted(beh[0]["skip"])]
    return pre + beh[1:]


def concretiser(rnd, consts):
    """abstract -> concrete values for one behaviour (injective; 0 stays 0 for uid/gid)."""
    real = rnd.random() < 0.5
    if real:
        ips = {"A": "168.63.129.16", "B": "169.254.169.254",
               "C": rnd.choice(["16.129.63.168", "254.169.254.169", "10.0.0.4", "168.63.129.17", "127.0.0.1"])}
        ports = {"p": 80, "q": 32526}
    else:
        pool = rnd.sample(["16.129.63.168", "1.2.3.4", "4.3.2.1", "10.0.0.4", "255.255.255.254", "0.0.0.1", "1.0.0.0",
                           "192.168.0.1", "168.63.129.16", "169.254.169.254"], 3)
        ips = dict(zip("ABC", pool))
        p = rnd.choice([80, 443, 20480, 1, 65535, 256, rnd.randint(1, 65535)])
        q = rnd.choice([((p & 0xFF) << 8) | (p >> 8), rnd.randint(1, 65535)])      # often the byte-swapped p
        if q == p:
            q = (p % 65535) + 1
        ports = {"p": p, "q": q}
    protos = {"tcp": TCP, "udp": 17, "other": rnd.choice([0, 1, 132, 136, 255, 1536, 0x06000000])}
    proxy = (consts["proxy_ip"], consts["proxy_port"] if rnd.random() < 0.7 else rnd.randint(1024, 65535))
    idmap, pidmap, spmap = {0: 0}, {}, {}

    def inj(m, v, lo, hi):
        if v not in m:
            while True:
                x = rnd.choice([rnd.randint(lo, hi), rnd.randint(lo, min(hi, 70000)), hi])
                if x not in m.values():
                    m[v] = x
                    break
        return m[v]
    return {
        "ip": lambda a: proxy[0] if a == "L" else ips[a],
        "port": lambda a: proxy[1] if a == "lp" else ports[a],
        "proto": lambda a: protos[a],
        "id": lambda v: inj(idmap, v, 1, 0xFFFFFFFE),
        "pid": lambda v: inj(pidmap, v, 1, 0x7FFFFFFF),
        "sport": lambda v: inj(spmap, v, 1024, 65535),
        "proxy": proxy,
    }


def concrete_steps(beh, cz):
    def thr(t):
        return {"pid": cz["pid"](t["pid"]), "tid": cz["pid"](t["tid"]), "uid": cz["id"](t["uid"]), "gid": cz["id"](t["gid"])}
    out = []
    for s in beh:
        a = s["a"]
        if a == "policy_add":
            out.append({"op": a, "ip": cz["ip"](s["ip"]), "port": cz["port"](s["port"]), "to_ip": cz["proxy"][0],
                        "to_port": cz["proxy"][1]})
        elif a == "policy_del":
            out.append({"op": a, "ip": cz["ip"](s["ip"]), "port": cz["port"](s["port"])})
        elif a == "skip_add":
            out.append({"op": a, "pid": cz["pid"](s["pid"])})
        elif a == "release":
            out.append({"op": a, "sport": cz["sport"](s["sport"])})
        elif a == "end_unconsumed":
            out.append({"op": "end", "sport": cz["sport"](s["sport"])})
        elif a == "connect4":
            out.append({"op": a, "t": thr(s["t"]), "ip": cz["ip"](s["ip"]), "port": cz["port"](s["port"]),
                        "proto": cz["proto"](s["proto"])})
        elif a in ("tcp", "tcp_direct"):
            out.append({"op": "tcp", "t": thr(s["t"]), "sport": cz["sport"](s["sport"]), "direct": a == "tcp_direct",
                        "dip": cz["ip"](s["dip"]), "dport": cz["port"](s["dport"])})
        else:
            raise util.ToolError("unknown generated action %r" % a)
    return out


def expected_after(s, cz):
    """the spec's maps after step s, concretised the way Machine decodes the real ones"""
    audit = {}
    for e in s["after"]["audit"]:
        k, v = e["k"], e["v"]
        audit[(cz["proto"](k["proto"]), cz["sport"](k["sport"]))] = {
            "logon": str(cz["id"](v["logon"])), "pid": str(cz["pid"](v["pid"])), "admin": 1 if v["root"] else 0,
            "ip": cz["ip"](v["ip"]), "port": cz["port"](v["port"])}
    local = {}
    for e in s["after"]["local"]:
        v = e["v"]
        local[(cz["pid"](e["k"][0]), cz["pid"](e["k"][1]))] = {
            "logon": cz["id"](v["logon"]), "pid": cz["pid"](v["pid"]), "root": 1 if v["root"] else 0,
            "ip": cz["ip"](v["ip"]), "port": cz["port"](v["port"]), "proto": cz["proto"](v["proto"])}
    return audit, local


def local_view(local):
    """raw sock_addr_local_entry words -> comparable dict (kernel-internal map: decoded per socket.h by hand)"""
    out = {}
    for k, f in local.items():
        if len(f) != 6:
            out[k] = {"raw": f}
            continue
        out[k] = {"logon": f[0], "pid": f[1], "root": f[2], "ip": hex_ip("%08x" % struct.unpack(">I", struct.pack("<I", f[3]))[0]),
                  "port": struct.unpack(">H", struct.pack("<I", f[4])[:2])[0] if f[4] < 65536 else f[4], "proto": f[5]}
    return out


def compare_step(s, st, row, info, cz):
    """first difference between the real program and the spec on this step, or None"""
    if s["a"] == "connect4":
        want = (cz["ip"](s["nip"]), cz["port"](s["nport"]))
        if row["ret"] != 1:
            return "verdict %s, spec 1" % row["ret"]
        if (row["oip"], row["oport"]) != want:
            return "address after connect4 %s:%s, spec %s:%s" % (row["oip"], row["oport"], want[0], want[1])
    if s["a"] == "release" and row["found"] != s["had"]:
        return "release found=%s, spec %s" % (row["found"], s["had"])
    audit, local = expected_after(s, cz)
    if info["audit"] != audit:
        return "audit map %s, spec %s" % (sorted(info["audit"].items()), sorted(audit.items()))
    lv = local_view(info["local"])
    if lv != local:
        return "local map %s, spec %s" % (sorted(lv.items()), sorted(local.items()))
    if s["a"] in ("tcp", "tcp_direct"):
        want = audit.get((TCP, st["sport"]))
        got = {k: v for k, v in row["rec"].items() if k != "present"} if row["rec"]["present"] else None
        if got != want:
            return "agent lookup of sport %d gives %s, spec %s" % (st["sport"], got, want)
    return None


# ------------------------------------------------------------------------------------------------ I->S: random runs
def random_run(rnd, consts, cap, *, same_ids, big=None, nsteps=80):
    """one concrete run, independent of the spec.  same_ids: every thread has uid == gid (family A)."""
    proxy = (consts["proxy_ip"], consts["proxy_port"])
    listable = [("168.63.129.16", 80), ("168.63.129.16", 32526), ("169.254.169.254", 80),
                (rnd.choice(["10.1.2.3", "1.2.3.4"]), rnd.randint(1, 65535))]
    others = [("16.129.63.168", 80), ("168.63.129.16", 20480), ("168.63.129.16", 81), ("169.254.169.254", 20480),
              ("127.0.0.1", proxy[1]), ("168.63.129.17", 80), ("254.169.254.169", 80), ("10.0.0.4", 443)]
    nthreads = (big or 12) + 4
    threads, used = [], set()
    agent_pid = rnd.randint(2, 2 ** 22)
    for i in range(nthreads):
        while True:
            pid = rnd.choice([rnd.randint(1, 2 ** 22), rnd.randint(1, 0x7FFFFFFF)])
            tid = pid if rnd.random() < 0.3 else rnd.randint(1, 0x7FFFFFFF)
            if (pid, tid) not in used and pid != agent_pid:
                used.add((pid, tid))
                break
        uid = rnd.choice([0, 0, 1000, 1001, 65534, rnd.randint(1, 0xFFFFFFFE)])
        if same_ids:
            gid = uid
        else:
            gid = rnd.choice([0, 0, 100, 1000, uid + 1, rnd.randint(1, 0xFFFFFFFE)])
            if gid == uid:
                gid = 0 if uid else 1000
        threads.append({"pid": pid, "tid": tid, "uid": uid, "gid": gid})
    if (threads[0]["pid"], threads[1]["tid"]) not in used:   # two threads of one process, different credentials
        threads[1] = dict(threads[1], pid=threads[0]["pid"])
    agents = [{"pid": agent_pid, "tid": agent_pid, "uid": 0, "gid": 0},
              {"pid": agent_pid, "tid": agent_pid + 1, "uid": 0, "gid": 0}]
    steps, listed, pending, live, skipped = [], set(), {}, set(), False
    ended = []                 # ports whose connection ended unconsumed (a record may still lie there), not yet reused
    fresh = iter(rnd.sample(range(1024, 65536), 4000))

    def next_port():
        # the kernel hands out a fresh port, or one whose connection is over (its record possibly still in the map)
        if ended and rnd.random() < 0.6:
            return ended.pop(rnd.randrange(len(ended)))
        return next(fresh)

    def inflight():
        # leftovers count: the random runs never make the LRU maps evict (the directed family does)
        return len(pending) + len(live) + len(ended)

    def add_policy(d):
        steps.append({"op": "policy_add", "ip": d[0], "port": d[1], "to_ip": proxy[0], "to_port": proxy[1]})
        listed.add(d)

    def c4(t, d, proto):
        st = {"op": "connect4", "t": t, "ip": d[0], "port": d[1], "proto": proto}
        if rnd.random() < 0.25:
            st["bound"] = rnd.choice(["10.0.0.4", "127.0.0.1", "172.16.5.9", "10.0.0.4"])
        steps.append(st)
        if proto == TCP:
            pending[(t["pid"], t["tid"])] = (t, d)

    def tcp(key):
        t, d = pending.pop(key)
        sp = next_port()
        steps.append({"op": "tcp", "t": t, "sport": sp, "direct": False})
        live.add(sp)

    if rnd.random() < 0.8 or big:
        steps.append({"op": "skip_add", "pid": agent_pid})
        skipped = True
    if big:
        # fill the maps to capacity: `big` connects between the hooks at once, then published in random order
        for d in listable[:3]:
            add_policy(d)
        hold = rnd.choice([big, big // 2])
        for t in threads[:big]:
            c4(t, rnd.choice(listable[:3]), TCP)
            if len(pending) > hold:
                tcp(rnd.choice(list(pending)))
        while pending:
            tcp(rnd.choice(list(pending)))
        for sp in rnd.sample(sorted(live), len(live)):
            steps.append({"op": "release", "sport": sp})
            live.discard(sp)
        return steps
    for _ in range(nsteps):
        x = rnd.random()
        if x < 0.10:
            d = rnd.choice(listable)
            if d in listed:
                steps.append({"op": "policy_del", "ip": d[0], "port": d[1]})
                listed.discard(d)
            else:
                add_policy(d)
        elif x < 0.13 and not skipped and not any(k[0] == agent_pid for k in pending):
            steps.append({"op": "skip_add", "pid": agent_pid})
            skipped = True
        elif x < 0.50:
            free = [t for t in threads + agents if (t["pid"], t["tid"]) not in pending]
            if not free or inflight() >= cap:
                continue
            t = rnd.choice(free)
            d = rnd.choice(listable + listable + others)
            proto = rnd.choice([TCP, TCP, TCP, TCP, 17, 17, 1, 0, 132, 255, 1536])
            c4(t, d, proto)
        elif x < 0.78 and pending:
            tcp(rnd.choice(list(pending)))
        elif x < 0.86:
            free = [t for t in threads + agents if (t["pid"], t["tid"]) not in pending]
            if not free or inflight() >= cap:
                continue
            t = rnd.choice(free)
            d = rnd.choice(listable + others)
            sp = next_port()
            steps.append({"op": "tcp", "t": t, "sport": sp, "direct": True, "dip": d[0], "dport": d[1]})
            live.add(sp)
        elif live and x < 0.93:
            sp = rnd.choice(sorted(live))
            steps.append({"op": "release", "sport": sp})
            live.discard(sp)
        elif live:
            sp = rnd.choice(sorted(live))
            steps.append({"op": "end", "sport": sp})
            live.discard(sp)
            ended.append(sp)
    while pending:
        tcp(rnd.choice(list(pending)))
    return steps


def leftover_runs(rnd, consts, cap):
    """Directed runs (independent of the spec): a diverted connect whose connection ends while nobody consumed its
    record, then the kernel hands the same local source port to a later connect.  Returns [(name, steps, evictions)].
    Callers differ pairwise in uid, pid and uid = 0; uid != gid and no gid equals another caller's uid."""
    proxy = (consts["proxy_ip"], consts["proxy_port"])
    d1, d2, d3 = ("168.63.129.16", 80), ("169.254.169.254", 80), ("168.63.129.16", 32526)
    unl = rnd.choice([("10.0.0.4", 443), ("168.63.129.16", 81), ("16.129.63.168", 80)])
    base = rnd.randint(1000, 2 ** 20)
    root = {"pid": base + 1, "tid": base + 1, "uid": 0, "gid": 2001}
    user = {"pid": base + 2, "tid": base + 7, "uid": 1000, "gid": 2002}
    user_b = {"pid": base + 2, "tid": base + 8, "uid": 1000, "gid": 2002}      # second thread of user's process
    other = {"pid": base + 3, "tid": base + 3, "uid": 65534, "gid": 2003}
    agent = {"pid": base + 9, "tid": base + 9, "uid": 0, "gid": 0}
    ports = iter(rnd.sample(range(1024, 65536), 3 * cap + 64))

    def pre(*dests):
        return [{"op": "skip_add", "pid": agent["pid"]}] + \
               [{"op": "policy_add", "ip": d[0], "port": d[1], "to_ip": proxy[0], "to_port": proxy[1]} for d in dests]

    def conn(t, d, sp):
        return [{"op": "connect4", "t": t, "ip": d[0], "port": d[1], "proto": TCP},
                {"op": "tcp", "t": t, "sport": sp, "direct": False}]

    def direct(t, d, sp):
        return [{"op": "tcp", "t": t, "sport": sp, "direct": True, "dip": d[0], "dport": d[1]}]

    def end(sp):
        return [{"op": "end", "sport": sp}]

    def rel(sp):
        return [{"op": "release", "sport": sp}]
    out = []
    # the later connect is diverted too: the agent must read ITS record under the port
    for nm, a, da, b, db in (("root-then-user", root, d1, user, d2), ("user-then-root", user, d2, root, d1),
                             ("user-then-other-same-dest", user, d1, other, d1),
                             ("same-process-other-thread-other-dest", user, d1, user_b, d3),
                             ("same-caller-other-dest", other, d3, other, d2)):
        p = next(ports)
        out.append(("reuse-diverted-" + nm, pre(d1, d2, d3) + conn(a, da, p) + end(p) + conn(b, db, p) + rel(p), 0))
    p, q = next(ports), next(ports)
    out.append(("reuse-diverted-interleaved",          # the later connect is already between the hooks when the first ends
                pre(d1, d2) + conn(root, d1, p) + [{"op": "connect4", "t": user, "ip": d2[0], "port": d2[1], "proto": TCP}] +
                end(p) + [{"op": "tcp", "t": user, "sport": p, "direct": False}] + conn(other, d1, q) + rel(q) + rel(p), 0))
    # two threads of ONE process between the hooks at the same time (nothing orders their connect() calls): each
    # connection's record must be built from its own thread's pending entry -- destinations and credentials differ
    user_c = {"pid": base + 2, "tid": base + 2, "uid": 0, "gid": 2004}          # the process' main thread kept uid 0
    for nm, a, da, b, db in (("siblings-other-dest", user, d1, user_b, d2), ("siblings-other-cred", user_c, d1, user, d1),
                             ("siblings-main-and-worker", user, d2, user_c, d3)):
        for order in ("abab", "abba"):
            p, q = next(ports), next(ports)
            c4a = {"op": "connect4", "t": a, "ip": da[0], "port": da[1], "proto": TCP}
            c4b = {"op": "connect4", "t": b, "ip": db[0], "port": db[1], "proto": TCP}
            ta = {"op": "tcp", "t": a, "sport": p, "direct": False}
            tb = {"op": "tcp", "t": b, "sport": q, "direct": False}
            mid = [c4a, c4b, ta, tb] if order == "abab" else [c4a, c4b, tb, ta]
            out.append(("%s-%s" % (nm, order), pre(d1, d2, d3) + mid + rel(p) + rel(q), 0))
    # a thread completes a diverted connect while it runs as root, changes its credentials (same pid/tid), and then
    # connects straight to the agent's listener (no policy entry matches 127.0.0.1:<proxy port>, connect4 stages nothing):
    # nothing may be published for that connection -- in particular not what was staged for the earlier one
    drop = dict(user_c, uid=1000, gid=1000)
    for nm, first, later in (("root-then-dropped-direct", user_c, drop), ("same-creds-direct", user, user)):
        p, q = next(ports), next(ports)
        out.append(("staged-" + nm, pre(d1, d2, d3) + conn(first, rnd.choice([d1, d3]), p) + rel(p) +
                    direct(later, proxy, q) + end(q), 0))
    p = next(ports)
    out.append(("reuse-chain",                           # three generations under one port, the last one consumed
                pre(d1, d2, d3) + conn(root, d1, p) + end(p) + conn(user, d2, p) + end(p) + conn(other, d3, p) + rel(p) +
                conn(root, d2, p) + rel(p), 0))
    # the later connect produces no record: the leftover may stay (nothing is diverted to the proxy from that port),
    # untouched; a diverted connect after that must still replace it
    p = next(ports)
    out.append(("reuse-unlisted", pre(d1, d2) + conn(root, d1, p) + end(p) + conn(user, unl, p) + end(p) +
                conn(other, d2, p) + rel(p), 0))
    p = next(ports)
    out.append(("reuse-unlisted-direct", pre(d1) + conn(user, d1, p) + end(p) + direct(root, unl, p) + end(p) +
                conn(root, d1, p) + rel(p), 0))
    p = next(ports)
    out.append(("reuse-delisted", pre(d1, d2) + conn(user, d1, p) + end(p) + [{"op": "policy_del", "ip": d2[0], "port": d2[1]}] +
                conn(root, d2, p) + end(p) + conn(other, d1, p) + rel(p), 0))
    p = next(ports)
    out.append(("reuse-agent", pre(d1, d2) + conn(user, d1, p) + end(p) + conn(agent, d2, p) + end(p) +
                direct(agent, d1, p) + end(p) + conn(root, d2, p) + rel(p), 0))
    p = next(ports)
    out.append(("reuse-non-tcp-between", pre(d1) + conn(user, d1, p) + end(p) +
                [{"op": "connect4", "t": root, "ip": d1[0], "port": d1[1], "proto": 17}] + conn(root, d1, p) + rel(p), 0))
    # the statement is silent on these two (a record may or may not be made; if made it is the new connect's)
    p = next(ports)
    out.append(("reuse-fallback-direct-listed", pre(d1, d2) + conn(root, d1, p) + end(p) + direct(user, d2, p) + rel(p), 0))
    p = next(ports)
    out.append(("reuse-listed-between-hooks", pre(d1) + conn(root, d1, p) + end(p) +
                [{"op": "connect4", "t": user, "ip": d2[0], "port": d2[1], "proto": TCP},
                 {"op": "policy_add", "ip": d2[0], "port": d2[1], "to_ip": proxy[0], "to_port": proxy[1]},
                 {"op": "tcp", "t": user, "sport": p, "direct": False}] + rel(p), 0))
    # consumed after all (the proxy is late, not absent), then reuse: nothing stale to meet
    p = next(ports)
    out.append(("consume-then-reuse", pre(d1, d2) + conn(root, d1, p) + rel(p) + conn(user, d2, p) + rel(p), 0))
    # LRU: the map is full, its least recently used entry is a leftover; the next record evicts exactly that one
    p = next(ports)
    steps = pre(d1, d2, d3) + conn(user, d1, p) + end(p)
    lives = []
    callers = [root, user, user_b, other]
    for i in range(cap - 1):
        q = next(ports)
        lives.append(q)
        steps += conn(callers[i % 4], (d1, d2, d3)[i % 3], q)
    q = next(ports)
    # ... the agent finds nothing under the evicted leftover's port; one live record is consumed, which makes room
    # for the port of the evicted leftover to be used again
    steps += conn(root, d2, q) + rel(p) + rel(lives[0]) + conn(user, d3, p) + rel(p)
    for q2 in rnd.sample(lives[1:] + [q], len(lives)):
        steps += rel(q2)
    out.append(("lru-evicts-leftover", steps, 1))
    return out


# ------------------------------------------------------------------------------------------------ analysis
class Analysis:
    """everything run() does against one built program; findings are collected, not reported"""

    def __init__(self, c, sim_exe, codec, behs, seed, thorough, label="c06"):
        self.c, self.codec, self.behs, self.seed, self.thorough, self.label = c, codec, behs, seed, thorough, label
        self.sim = Proc(sim_exe)
        self.m = Machine(self.sim, codec)
        self.findings = []        # dict(kind, what, witness, sites)
        self.drift = []
        self.stats = {}

    def close(self):
        self.sim.close()

    # -- static layout
    def layout(self):
        lay = self.sim.ask("layout")
        decl = {d["map"]: d for d in lay["decl"]}
        rust = {"policy": self.codec.q("destu 1 1")["hex"], "skip": self.codec.q("skip 1")["hex"],
                "audit": self.codec.q("akey 1")["hex"]}
        bad = []
        for mname, h in rust.items():
            if decl[mname]["key_size"] * 2 != len(h):
                bad.append("%s_map key is %d bytes in C, %d bytes from the Rust encoder" % (mname, decl[mname]["key_size"], len(h) // 2))
        if decl["policy"]["value_size"] * 2 != len(rust["policy"]):
            bad.append("policy_map value size differs between C and Rust")
        if decl["audit"]["value_size"] != 20:
            bad.append("audit_map value is %d bytes in C, Rust from_array reads [u32; 5]" % decl["audit"]["value_size"])
        for e in self.codec.hello["endpoints"]:
            if self.codec.q("ip " + e["ip"])["u32"] != e["nbo"]:
                bad.append("%s: string_to_ip(%s) != *_NETWORK_BYTE_ORDER constant" % (e["name"], e["ip"]))
        self.cap = min(decl["audit"]["max_entries"], decl["local"]["max_entries"])
        self.stats["maps"] = lay["decl"]
        for b in bad:
            self.findings.append({"kind": "layout", "what": b, "witness": None, "sig": {"kind": "layout", "detail": b}})
        return not bad

    # -- judge one observed run with TLC (the verdict) and name it with diagnose()
    def judge(self, steps, name, note):
        rows = [{"e": "reset"}] + [r for r, _ in self.m.run(steps)]
        d = diagnose(rows)
        cut = rows[:d["row"] + 1] if d else rows
        ok, why, res = validate_trace(self.c, "EbpfTrace", "EbpfTrace.cfg", cut, name, timeout=600)
        if not ok and why.startswith("trace not matched"):
            raise util.ToolError("harness produced a trace EbpfTrace cannot follow (%s): %s" % (name, why))
        if ok and d:
            raise util.ToolError("oracle disagreement: python diagnosis %s but TLC accepts trace %s" % (d, name))
        if ok:
            return None
        # reproduce once from the saved steps before believing it
        rows2 = [{"e": "reset"}] + [r for r, _ in self.m.run(steps)]
        if rows2 != rows:
            raise util.ToolError("unreproduced: re-execution of %s differs" % name)
        m = re.findall(r'bad = \[p \|-> "(\w+)", f \|-> "([\w-]+)"\]', res.stdout or "")
        tl = {"p": m[-1][0], "f": m[-1][1]} if m else {}
        kind = d["kind"] if d else "trace-rejected"
        off = rows[d["row"]] if d else None
        what = "%s: TLC rejects the observed run (%s; %s/%s)%s" % (
            note, why, tl.get("p", "?"), tl.get("f", "?"),
            (" at %s: %s" % (d["site"], json.dumps(off))) if d else "")
        return {"kind": kind, "what": what, "site": d["site"] if d else None,
                "witness": {"steps": steps[:len(cut) - 1], "offending_row": off, "tlc": why, "detail": tl},
                "sig": {"kind": kind}}

    # -- S->I
    def replay_all(self):
        rnd = random.Random(self.seed)
        consts = self.codec.hello
        mism, n_div, n_rec, steps_total = {}, 0, 0, 0
        n_end, n_reuse, n_reuse_div = 0, 0, 0
        distinct = set()
        for bi, beh in enumerate(self.behs):
            cz = concretiser(rnd, consts)
            steps = concrete_steps(beh, cz)
            self.m.reset()
            first = None
            nontrivial = False
            for si, (s, st) in enumerate(zip(beh, steps)):
                row, info = self.m.step(st)
                steps_total += 1
                if s["a"] == "connect4" and s["nip"] == "L":
                    nontrivial = True
                    n_div += 1
                if s["a"] in ("tcp", "tcp_direct") and s["after"]["audit"]:
                    n_rec += 1
                if s["a"] == "end_unconsumed" and s["had"]:
                    n_end += 1
                if s["a"] in ("tcp", "tcp_direct") and s.get("over"):
                    n_reuse += 1
                    n_reuse_div += 1 if s.get("div") else 0
                if first is None:
                    diff = compare_step(s, st, row, info, cz)
                    if diff:
                        first = (si, diff)
            if nontrivial:
                distinct.add(util.sha(json.dumps([{k: v for k, v in s.items() if k != "after"} for s in beh], sort_keys=True)))
            if first:
                rows = [{"e": "reset"}] + [r for r, _ in self.m.run(steps)]
                d = diagnose(rows)
                key = (d["kind"], d["site"]) if d else ("drift", None)
                cand = (d["row"] if d else len(steps), bi, steps, first)
                if key not in mism or cand[0] < mism[key][0]:
                    mism[key] = cand
                mism.setdefault(("count", key), 0)
                mism[("count", key)] += 1
        self.stats["replay"] = {"behaviours": len(self.behs), "steps": steps_total, "diverted_connects": n_div,
                                "steps_with_records": n_rec, "nontrivial_distinct": len(distinct),
                                "connections_ended_with_record_unconsumed": n_end,
                                "connects_given_the_port_of_a_leftover": n_reuse,
                                "diverted_connects_given_the_port_of_a_leftover": n_reuse_div,
                                "mismatching": {"%s@%s" % k[1]: v for k, v in mism.items() if k[0] == "count"}}
        self.distinct = distinct
        for key, val in sorted((k, v) for k, v in mism.items() if k[0] != "count"):
            cutat, bi, steps, (si, diff) = val
            f = self.judge(steps[:cutat], "%s_s2i_%s" % (self.label, re.sub(r"\W", "_", str(key[0]) + "_" + str(key[1]))),
                           "S->I behaviour %d step %d differs from Ebpf.tla (%s)" % (bi, si, diff[:600]))
            if f is None:
                self.drift.append("behaviour %d step %d: %s -- accepted by EbpfTrace (property holds)" % (bi, si, diff[:300]))
            else:
                f["count"] = mism[("count", key)]
                self.findings.append(f)
        return steps_total

    # -- I->S
    def random_runs(self):
        rnd = random.Random(self.seed * 7919 + 17)
        consts = self.codec.hello
        n = 24 if not self.thorough else 300
        plans = {"A": [], "B": []}
        for fam in ("A", "B"):
            same = fam == "A"
            plans[fam].append(random_run(rnd, consts, self.cap, same_ids=same, big=self.cap))
            if self.thorough:
                plans[fam].append(random_run(rnd, consts, self.cap, same_ids=same, big=self.cap))
            for _ in range(n):
                plans[fam].append(random_run(rnd, consts, self.cap, same_ids=same, nsteps=rnd.choice([30, 80, 160])))
        # family L: directed port-reuse runs (a record outlives its connection, the port is handed out again)
        directed = leftover_runs(rnd, consts, self.cap)
        plans["L"] = [st for _, st, _ in directed]
        want_evict = {"L": [ev for _, _, ev in directed]}
        out, evicted = {}, {}
        for fam, runs in plans.items():
            rows, idx, maxfl, evict = [], [], 0, 0
            for k, steps in enumerate(runs):
                idx.append(len(rows))
                rows.append({"e": "reset"})
                ev = 0
                for r, info in self.m.run(steps):
                    rows.append(r)
                    maxfl = max(maxfl, len(info["audit"]) + len(info["local"]))
                    ev = max(ev, sum(info["evictions"].values()))
                if fam in want_evict:
                    # the program decides what it evicts and TLC judges it (only leftovers may go); on the unchanged
                    # program the directed runs evict exactly what they were built for
                    evicted[directed[k][0]] = {"evictions": ev, "built_for": want_evict[fam][k]}
                else:
                    evict = max(evict, ev)
            if evict:
                raise util.ToolError("the random driver exceeded the map capacity (evictions=%d)" % evict)
            name = "%s_rand_%s" % (self.label, fam)
            ok, why, res = validate_trace(self.c, "EbpfTrace", "EbpfTrace.cfg", rows, name, count=len(runs), timeout=1200)
            out[fam] = {"runs": len(runs), "rows": len(rows), "max_in_flight": maxfl, "accepted": ok}
            if fam == "L":
                out[fam]["scenarios"] = [nm for nm, _, _ in directed]
                out[fam]["lru_evictions"] = {k: v for k, v in evicted.items() if v["evictions"] or v["built_for"]}
            if ok:
                continue
            if why.startswith("trace not matched"):
                raise util.ToolError("harness produced a trace EbpfTrace cannot follow (%s): %s" % (name, why))
            d = diagnose(rows)
            if d is None:
                raise util.ToolError("oracle disagreement: TLC rejects %s (%s) but the python diagnosis finds nothing" % (name, why))
            k = max(i for i in range(len(idx)) if idx[i] <= d["row"])
            nsteps = d["row"] - idx[k]
            f = self.judge(runs[k][:nsteps], name + "_w", "I->S random run %s/%d" % (fam, k))
            if f is None:
                raise util.ToolError("oracle disagreement on the cut witness of %s" % name)
            self.findings.append(f)
        self.stats["random"] = out
        self.random_plans = plans
        return out

    # -- information only: a connect that dies between the hooks leaves a stale local_map entry
    def stale_probe(self):
        c = self.codec.hello
        t = {"pid": 4242, "tid": 4243, "uid": 1000, "gid": 1000}
        self.m.reset()
        self.m.step({"op": "policy_add", "ip": "168.63.129.16", "port": 80, "to_ip": c["proxy_ip"], "to_port": c["proxy_port"]})
        self.m.step({"op": "connect4", "t": t, "ip": "168.63.129.16", "port": 80, "proto": TCP})
        self.m.last4.clear()                                   # ... fails before tcp_connect
        self.m.step({"op": "connect4", "t": t, "ip": "10.0.0.4", "port": 443, "proto": TCP})
        row, info = self.m.step({"op": "tcp", "t": t, "sport": 40000, "direct": False})
        return {"scenario": "connect4 to a listed address fails before tcp_connect; the same thread then connects to "
                            "10.0.0.4:443 (unlisted)", "record_for_unlisted_connect": row["rec"],
                "outside_quantifier": "the property speaks of connects that reach both hook points"}


def kernel_side_random(c, label):
    """The random families (uid == gid / uid != gid callers, connections in flight up to the map capacity, ports reused)
    and the directed port-reuse family on the real C program, judged by EbpfTrace; returns the merged findings.  Used by
    the properties whose statements rest on what the kernel records (C03: 'not running elevated'; C07: 'for that very
    connection')."""
    sim_exe = build_sim()
    codec = Codec(build_codec())
    an = Analysis(c, sim_exe, codec, [], c.seed, False, label=label)
    try:
        if an.layout():
            an.random_runs()
            c.extra["kernel_side_runs"] = {k: v.get("runs") for k, v in (an.stats.get("random") or {}).items()}
        return merge(an.findings)
    finally:
        an.close()
        codec.close()


def kernel_side_port_reuse(c, label="c07k"):
    """The kernel half of 'a connection never inherits another's identity' (used by C07): the directed port-reuse family
    (a record outlives its connection, the port is handed to another caller) on the real C program, judged by EbpfTrace.
    Returns the merged findings whose kind is a record that is not the connection's own."""
    sim_exe = build_sim()
    codec = Codec(build_codec())
    an = Analysis(c, sim_exe, codec, [], c.seed, False, label=label)
    try:
        if not an.layout():
            return [f for f in merge(an.findings)]
        rnd = random.Random(c.seed * 31 + 7)
        directed = leftover_runs(rnd, codec.hello, an.cap)
        rows, idx, runs = [], [], [st for _, st, _ in directed]
        for steps in runs:
            idx.append(len(rows))
            rows.append({"e": "reset"})
            for r, info in an.m.run(steps):
                rows.append(r)
        ok, why, res = validate_trace(c, "EbpfTrace", "EbpfTrace.cfg", rows, label + "_L", count=len(runs), timeout=600)
        c.extra["kernel_side_port_reuse_runs"] = len(runs)
        if ok:
            return []
        if why.startswith("trace not matched"):
            raise util.ToolError("harness produced a trace EbpfTrace cannot follow (%s): %s" % (label, why))
        d = diagnose(rows)
        if d is None:
            raise util.ToolError("oracle disagreement: TLC rejects %s (%s) but the python diagnosis finds nothing" % (label, why))
        k = max(i for i in range(len(idx)) if idx[i] <= d["row"])
        f = an.judge(runs[k][:d["row"] - idx[k]], label + "_w", "port-reuse run %s" % directed[k][0])
        return merge(an.findings + ([f] if f else []))
    finally:
        an.close()
        codec.close()


def merge(findings):
    """one violation per structural kind; sites and counts listed inside"""
    out = {}
    for f in findings:
        k = json.dumps(f["sig"], sort_keys=True)
        if k not in out:
            out[k] = dict(f, sites=[], whats=[])
        if f.get("site") and f["site"] not in out[k]["sites"]:
            out[k]["sites"].append(f["site"])
        out[k]["whats"].append(f["what"])
    return list(out.values())


def run(c):
    thorough = c.tier == "thorough"
    c.assumptions = list(ASSUME)
    sim_exe = build_sim()
    util.log("built %s from %s" % (os.path.relpath(sim_exe, util.VERIF), src_dir()))
    codec = Codec(build_codec())
    if not codec.hello["cast_from_source"]:
        c.assumptions.append("lookup_audit's AuditEntry literal could not be lifted from linux.rs; a stand-in cast was used")
    if codec.hello["endian"] != "little":
        raise util.ToolError("harness models a little-endian host only")
    c.extra["ebpf_source"] = src_dir()

    # 1. the design: every interleaving of the small configuration, every invariant in every state
    c.tlc("Ebpf", "Ebpf.cfg", workers=8, timeout=600,
          required_actions=["PolicyAdd", "PolicyRemove", "SkipAdd", "Release", "EndUnconsumed", "Connect4", "TcpConnect",
                            "TcpConnectDirect"])
    # records that outlive their connection (EndUnconsumed) and the reuse of their source ports (TcpConnectReuse):
    # 3 callers, both addresses listable, source ports symmetric; MaxLeft leftovers at a time (Ebpf.cfg: none)
    c.tlc("Ebpf", "EbpfLeft2.cfg" if thorough else "EbpfLeft.cfg", workers=8, timeout=1200,
          required_actions=["PolicyAdd", "PolicyRemove", "SkipAdd", "Release", "EndUnconsumed", "Connect4", "TcpConnect",
                            "TcpConnectReuse", "TcpConnectDirect"])
    # non-gating: connects that die between the hooks (outside the quantifier) -- information only
    ab = tlcmod.run("Ebpf", os.path.join("mc", "EbpfAbort.cfg"), util.SPEC, workers=4, timeout=300, coverage=False)
    c.extra["info_abort_between_hooks_model"] = (
        "mc/EbpfAbort.cfg (AllowAbort): %s after %d states -- a stale local_map entry is published for the thread's "
        "next connect; outside C06's quantifier, not a verdict" % (
            "NoRecordOtherwise violated" if ab.invariant_violated else "no violation", ab.distinct))

    # 2. S->I
    nb, depth = (300, 24) if not thorough else (6000, 30)
    behs = gen_behaviours(c, nb, depth, c.seed)
    an = Analysis(c, sim_exe, codec, behs, c.seed, thorough)
    try:
        if an.layout():
            steps = an.replay_all()
            c.count(n=steps)
            c.traces_validated += len(behs)
            c.distinct |= an.distinct
            # 3. I->S
            rr = an.random_runs()
            for fam, plans in an.random_plans.items():
                for p in plans:
                    c.count(util.sha(json.dumps(p, sort_keys=True)), n=len(p))
            c.extra["info_stale_local_entry"] = an.stale_probe()
            ex = an.random_plans["B"][1][:12]
            c.sample({"kind": "S->I behaviour (spec steps with expected maps)", "steps": behs[0][:6]})
            c.sample({"kind": "I->S random run (first steps)", "steps": ex})
        c.extra.update({"replay": an.stats.get("replay"), "random_runs": an.stats.get("random"), "maps_declared": an.stats.get("maps")})
        if an.drift:
            c.extra["model_drift"] = an.drift[:10]
        if an.m.layout_notes:
            c.extra["layout_notes"] = sorted(set(an.m.layout_notes))[:5]
        for f in merge(an.findings):
            what = f["whats"][0]
            if f["sites"]:
                what += " | sites: " + ", ".join(f["sites"])
            if f["sig"].get("kind") == "uid-from-gid":
                what = ("record states the caller's GID as logon_id and is_root = (gid == 0): "
                        "bpf_get_current_uid_gid() >> 32 is the gid | ") + what
            c.violation(what, f["sig"], {"steps": (f.get("witness") or {}).get("steps"), "witness": f.get("witness"),
                                         "sites": f["sites"], "all": f["whats"][:6], "ebpf_source": src_dir()})
    finally:
        an.close()
        codec.close()
    real_policy_map(c)
    c.exhaustive = False
    c.rule = ("TLC: all interleavings of mc/Ebpf.cfg (4 threads incl. uid!=gid, pid!=tid, agent; 2x2 addresses, TCP/UDP, "
              "policy add/remove, capacity 2) and of mc/EbpfLeft.cfg (records outliving their connection, their source "
              "ports handed out again, LRU eviction of leftovers). S->I: each -simulate behaviour of gen/EbpfGen (7 threads, 3 ips, 3 "
              "protocols) is concretised with seeded ids/addresses/ports and stepped through the real C program; ctx "
              "rewrite, audit map (decoded by the repo's Rust) and local map compared with the spec after every step. "
              "I->S: seeded random runs (two families: uid==gid / uid!=gid) incl. max_entries connections in flight, "
              "connections ending unconsumed and reuse of their ports, plus a directed family (L) of port-reuse runs "
              "(leftover then diverted / unlisted / agent / fallback connect on the same port, LRU eviction of a "
              "leftover), judged by TLC with trace/EbpfTrace. distinct_nontrivial = distinct generated behaviours containing at "
              "least one diverted connect + distinct random runs. Real maps: every instruction history of gen/PolicyMapGen "
              "(every sequence of 5 update_*_redirect_policy calls; every sequence of secure-channel state changes in the key "
              "keeper's call order) on the tree's eBPF object loaded into the kernel, policy_map read back after each call, "
              "judged by trace/PolicyMapTrace. Start-up: mc/Attach.cfg (attach order publish-then-divert, every failure, 5 retries, "
              "connects between any two steps; the swapped order must violate NeverDivertUnpublished), the real "
              "Redirector::start retry loop + attach_bpf_prog under strace, rows judged by trace/AttachTrace")


def real_policy_map(c):
    """'... to an address CURRENTLY listed in the redirect policy': the user-space side of the policy on the REAL kernel map
    (the tree's eBPF object compiled for the bpf target and loaded with BpfObject::from_ebpf_file, nothing attached): every
    instruction history of spec/gen/PolicyMapGen through the real update_*_redirect_policy, policy_map read back after
    every instruction, judged by spec/trace/PolicyMapTrace (checks/realmaps.py; shared with C09)."""
    from checks import realmaps
    c.assumptions.append(realmaps.ASSUME)
    realmaps.policy_map_histories(c)
    # start-up: 'diverted AND recorded' also while the redirector starts, fails to start and retries -- the REAL
    # Redirector::start / attach_bpf_prog under strace in a private mount namespace whose only cgroup is a private, empty
    # one; rows derived from the system-call log, judged by spec/trace/AttachTrace (design: spec/Attach.tla)
    c.assumptions.append("start-up part: which hook is in force is read from the system-call log (strace) of the real start-up: "
                         "publish = kprobe PMU / perf_event_open ... PERF_EVENT_IOC_SET_BPF or a perf link, divert = "
                         "BPF_LINK_CREATE / BPF_PROG_ATTACH with BPF_CGROUP_INET4_CONNECT; CONFIG_KPROBES is off in the sandbox, so "
                         "the publishing attach always fails here and only start-ups that fail are observed; a connect is not in "
                         "flight across an attach / detach step")
    realmaps.attach_order(c)
    # scope: the cgroup the diverting hook is attached to covers every cgroup2 sub-tree mounted in the agent's namespace
    # (design: spec/CgroupScope.tla; every mount table of gen/CgroupScopeGen set up for real, the real resolver, CgroupScopeTrace)
    c.assumptions.append("attach-scope part: the first cgroup2 mount of the agent's namespace is the system mount and shows what any "
                         "later mount shows (EnvOK of spec/CgroupScope.tla); the resolver get_cgroup2_mount_path (+ configured "
                         "fallback) is run for real, the cgroup attach itself is not (the kprobe attach in front of it fails here)")
    realmaps.attach_scope(c)


def replay(c, path):
    art = util.read_json(path)
    steps = (art.get("case") or {}).get("steps")
    if not steps:
        return run(c)
    c.assumptions = list(ASSUME)
    codec = Codec(build_codec())
    an = Analysis(c, build_sim(), codec, [], c.seed, False, label="c06_replay")
    try:
        an.layout()
        c.tlc("Ebpf", "Ebpf.cfg", workers=8, timeout=600)
        f = an.judge(steps, "c06_replay", "replay of %s" % os.path.basename(path))
        c.count("replay")
        c.count("replay-steps", n=len(steps))
        c.sample({"steps": steps[:8]})
        if f:
            c.violation(f["what"], f["sig"], {"steps": steps, "witness": f["witness"]})
    finally:
        an.close()
        codec.close()


# ------------------------------------------------------------------------------------------------ mutation self-test
MUTANTS = [
    ("skip-lookup-removed", "ebpf_cgroup.c", "    if (check_skip_process_map_entry(pid) == 1)\n    {\n        return 1;\n    }",
     "    if (0)\n    {\n        return 1;\n    }"),
    ("audit-key-port-byteswapped", "ebpf_cgroup.c", "    key.source_port = local_port;",
     "    key.source_port = (__u32)(((local_port & 0xFF) << 8) | ((local_port >> 8) & 0xFF));"),
    ("redirect-any-protocol", "ebpf_cgroup.c", "    entry.protocol = ctx->protocol;\n\n    // Find the entry in the policy map.",
     "    entry.protocol = IPPROTO_TCP;\n\n    // Find the entry in the policy map."),
    ("record-for-unlisted", "ebpf_cgroup.c", "    destination_entry *policy = bpf_map_lookup_elem(&policy_map, &entry);\n    if (policy != NULL)\n    {\n        __u32 uid",
     "    destination_entry *policy = bpf_map_lookup_elem(&policy_map, &entry);\n    if (1)\n    {\n        __u32 uid"),
    ("local-key-pid-only", "ebpf_cgroup.c", "    __u64 ret = bpf_map_update_elem(&local_map, &pid_tip, &entry, 0);",
     "    pid_tip >>= 32;\n    __u64 ret = bpf_map_update_elem(&local_map, &pid_tip, &entry, 0);"),
    ("record-proxy-as-destination", "ebpf_cgroup.c", "    entry.destination_port = local_entry->destination_port;",
     "    entry.destination_port = 0x080c;"),
    ("pid-is-tid", "ebpf_cgroup.c", "    entry.process_id = pid;\n    __u32 uid", "    entry.process_id = (__u32)pid_tip;\n    __u32 uid"),
    ("audit-entry-field-order", "socket.h", "typedef struct _sock_addr_audit_entry\n{\n    __u32 logon_id;\n    __u32 process_id;",
     "typedef struct _sock_addr_audit_entry\n{\n    __u32 process_id;\n    __u32 logon_id;"),
    ("policy-port-host-order", "ebpf_cgroup.c", "    entry.destination_port = ctx->user_port;\n    entry.protocol = ctx->protocol;\n\n    // Find",
     "    entry.destination_port = ((ctx->user_port & 0xFF) << 8) | ((ctx->user_port >> 8) & 0xFF);\n    entry.protocol = ctx->protocol;\n\n    // Find"),
    ("audit-update-noexist", "ebpf_cgroup.c", "\n    __u64 ret = bpf_map_update_elem(&audit_map, &key, &entry, 0);",
     "\n    __u64 ret = bpf_map_update_elem(&audit_map, &key, &entry, BPF_NOEXIST);"),
    ("no-local-delete", "ebpf_cgroup.c", "        __u64 ret = bpf_map_delete_elem(&local_map, &pid_tgid);", "        __u64 ret = 0;"),
]
FIX = [("ebpf_cgroup.c", "(__u32)(bpf_get_current_uid_gid() >> 32)", "(__u32)(bpf_get_current_uid_gid() & 0xFFFFFFFF)")]


class _Dry(Ctx):
    def violation(self, what, signature=None, replay_obj=None, replay_name=None):
        self.violations.append({"what": what, "signature": signature})
        return True


def scratch_copy(name, edits):
    d = os.path.join(OUT, "mut", name)
    shutil.rmtree(d, ignore_errors=True)
    os.makedirs(d)
    for f in ("ebpf_cgroup.c", "socket.h"):
        shutil.copy(os.path.join(util.REPO, "linux-ebpf", f), os.path.join(d, f))
    for fn, old, new in edits:
        p = os.path.join(d, fn)
        s = open(p).read()
        if old not in s and (fn, old, new) in FIX and new in s:
            continue                                   # the repository already carries the uid fix
        if old not in s:
            raise util.ToolError("mutant %s: pattern not found in %s" % (name, fn))
        open(p, "w").write(s.replace(old, new))
    return d


def selftest(seed=1):
    """mutants are built on top of the uid fix (so that the known defect does not mask them); also checks that the
    fixed copy is clean and that corrupting / dropping one event of an accepted trace is rejected."""
    util.ensure_dirs()
    codec = Codec(build_codec())
    behs = gen_behaviours(None, 200, 24, seed)
    results = {}
    try:
        cases = [("fixed-baseline", list(FIX))] + [(n, list(FIX) + [(f, a, b)]) for n, f, a, b in MUTANTS]
        for name, edits in cases:
            d = scratch_copy(name, edits)
            c = _Dry("C06", "quick", seed)
            an = Analysis(c, build_sim(d, "ebpfsim_mut"), codec, behs, seed, False, label="c06_mut")
            try:
                if an.layout():
                    an.replay_all()
                    an.random_runs()
                kinds = sorted({f["sig"]["kind"] for f in an.findings})
            finally:
                an.close()
            results[name] = kinds
            util.log("selftest %-32s -> %s" % (name, kinds or "clean"))
            shutil.rmtree(d, ignore_errors=True)
        # trace-level self-validation on the fixed baseline
        d = scratch_copy("fixed-trace", list(FIX))
        c = _Dry("C06", "quick", seed)
        an = Analysis(c, build_sim(d, "ebpfsim_mut"), codec, [], seed, False, label="c06_mut")
        try:
            an.layout()
            steps = random_run(random.Random(seed), codec.hello, an.cap, same_ids=False, nsteps=120)
            rows = [{"e": "reset"}] + [r for r, _ in an.m.run(steps)]
            i = next(k for k, r in enumerate(rows) if r["e"] == "tcp" and r["rec"]["present"])
            bad1 = json.loads(json.dumps(rows))
            bad1[i]["rec"]["pid"] = bad1[i]["rec"]["pid"] + "1"
            j = next(k for k, r in enumerate(rows) if r["e"] == "connect4" and (r["oip"], r["oport"]) != (r["ip"], r["port"]))
            bad2 = rows[:j] + rows[j + 1:]
            dst = (rows[j]["ip"], rows[j]["port"])
            q = max(k for k in range(j) if rows[k]["e"] == "policy" and rows[k]["op"] == "add" and (rows[k]["ip"], rows[k]["port"]) == dst)
            bad3 = rows[:q] + rows[q + 1:]
            for nm, rr, expect in (("intact", rows, True), ("corrupt-field", bad1, False), ("dropped-connect4", bad2, False),
                                   ("dropped-policy-add", bad3, False)):
                ok, why, _ = validate_trace(c, "EbpfTrace", "EbpfTrace.cfg", rr, "c06_self_" + nm)
                results["trace-" + nm] = "accepted" if ok else "rejected (%s)" % why[:60]
                util.log("selftest trace %-18s -> %s (expected %s)" % (nm, results["trace-" + nm], "accepted" if expect else "rejected"))
        finally:
            an.close()
            shutil.rmtree(d, ignore_errors=True)
    finally:
        codec.close()
    print(json.dumps(results, indent=1))
    ok = results["fixed-baseline"] == [] and all(results[n] for n, *_ in MUTANTS) and \
        results["trace-intact"] == "accepted" and results["trace-corrupt-field"].startswith("rejected") and \
        results["trace-dropped-connect4"].startswith("rejected") and results["trace-dropped-policy-add"].startswith("rejected")
    return 0 if ok else 1


if __name__ == "__main__":
    if "--selftest" in sys.argv:
        try:
            sys.exit(selftest(int(os.environ.get("VERIF_SEED", "1") or "1")))
        except (util.ToolError, tlcmod.TlcError) as ex:
            print("TOOL-ERROR %s" % str(ex)[:3000], file=sys.stderr)
            sys.exit(2)
    print(__doc__)
