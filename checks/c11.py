"""C11 -- decided by the shared proxy pipeline (checks/proxylib.py): Proxy.tla/Authz.tla model checking, TLC-generated
scenarios replayed on the real ProxyServer, and TLC trace validation of every observed request against
spec/trace/ProxyTrace.tla with the C11 invariants."""
from checks import proxylib


def run(c):
    proxylib.decide(c, "C11", relevant=lambda row: row['rules'] in ('audit','enforce','disabled'))


def replay(c, path):
    proxylib.replay(c, "C11", path)
