"""C11 -- decided by the shared proxy pipeline (checks/proxylib.py): Proxy.tla/Authz.tla model checking, TLC-generated
scenarios replayed on the real ProxyServer, and TLC trace validation of every observed request against
spec/trace/ProxyTrace.tla with the C11 invariants; plus a status-file scenario: with the real status task publishing
every millisecond and a large enforce-mode rule set, every denial must be in the status.json written after it was answered."""
import os

from checks import proxylib
from vlib import rig, util
from vlib.ctx import validate_trace


def status_file_rows(c):
    thorough = c.tier == "thorough"
    name = "c11_status"
    d0 = os.path.join(util.RUNDIR, name)
    sdir = os.path.join(d0, "status")
    n = 60 if not thorough else 400
    doc = {"defaultAccess": "deny", "mode": "enforce", "id": "big",
           "rules": {"privileges": [{"name": "p%d" % i, "path": "/never/%d" % i} for i in range(3000)],
                     "roles": [], "identities": [], "roleAssignments": []}}
    steps = [{"op": "set_rules", "ep": "imds", "doc": doc}]
    for i in range(n):
        cn = "d%d" % i
        steps += [{"op": "connect", "conn": cn, "attr": {"uid": 1, "admin": 0, "dip": "169.254.169.254", "dport": 80}},
                  {"op": "request", "conn": cn, "id": cn, "method": "GET", "target": "/metadata/identity/oauth2/token?i=%d" % (i % 7),
                   "headers": [["Host", "h"]]},
                  {"op": "close", "conn": cn},
                  {"op": "snapshot", "tag": "pub%d" % i, "status_file": os.path.join(sdir, "status.json")}]
    ev, d, _ = rig.run_rig({"steps": steps, "status_task": {"interval_ms": 1, "dir": sdir}, "drain_ms": 200}, name, timeout=600)
    rows, denials = [], 0
    resp = {e["id"]: e for e in ev if e["e"] == "Response"}
    for e in ev:
        if e["e"] == "Failed" and e.get("source") == "status.json":
            i = int(str(e["tag"])[3:])
            denials = sum(1 for k in range(i + 1) if resp.get("d%d" % k, {}).get("status") == 403)
            if not e.get("found"):
                raise util.ToolError("status.json was not published within 5 s")
            infile = sum(x.get("count", 0) for x in (e.get("failedAuth") or []))
            rows.append({"e": "pub", "id": "pub%d" % i, "denials": denials, "inFile": infile})
    if len(rows) < n:
        raise util.ToolError("status-file scenario: %d of %d publications observed" % (len(rows), n))
    if denials < n:
        raise util.ToolError("status-file scenario: only %d of %d requests were denied" % (denials, n))
    return rows


def run(c):
    proxylib.decide(c, "C11", relevant=lambda row: row['rules'] in ('audit','enforce','disabled'))
    rows = status_file_rows(c)
    c.extra["status_file_publications_checked"] = len(rows)
    ok, why, res = validate_trace(c, "ProxyTrace", proxylib.write_cfg("C11", ["P_C11_PublishedInStatusFile"], "pub"), rows, "c11_pub",
                                  count=1, timeout=300)
    if not ok:
        bad = next((r for r in rows if r["inFile"] != r["denials"]), {})
        # re-execute once: only a verdict that reproduces is reported
        rows2 = status_file_rows(c)
        if all(r["inFile"] == r["denials"] for r in rows2):
            raise util.ToolError("a stale status file (%s) did not reproduce; not believed" % bad)
        c.violation("a denial that was already answered is missing from the status file published afterwards: %s" % bad,
                    {"broken": "P_C11_PublishedInStatusFile"}, {"first": bad})


def replay(c, path):
    proxylib.replay(c, "C11", path)
