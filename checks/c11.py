"""C11 -- decided by the shared proxy pipeline (checks/proxylib.py): Proxy.tla/Authz.tla model checking, TLC-generated
scenarios replayed on the real ProxyServer, and TLC trace validation of every observed request against
spec/trace/ProxyTrace.tla with the C11 invariants; plus a status-file scenario: with the real status task publishing
every millisecond and a large enforce-mode rule set, every denial must be in the status.json written after it was answered."""
import os

from checks import proxylib
from vlib import rig, util
from vlib.ctx import validate_trace


def status_file_rows(c, level=None):
    """level: the operator's fileLogLevel (what is LOGGED about a denial may depend on it, what is PUBLISHED does not)"""
    thorough = c.tier == "thorough"
    name = "c11_status" + (level or "")
    d0 = os.path.join(util.RUNDIR, name)
    sdir = os.path.join(d0, "status")
    n = (60 if not thorough else 400) if level is None else 12
    doc = {"defaultAccess": "deny", "mode": "enforce", "id": "big",
           "rules": {"privileges": [{"name": "p%d" % i, "path": "/never/%d" % i} for i in range(3000)],
                     "roles": [], "identities": [], "roleAssignments": []}}
    steps = [{"op": "set_rules", "ep": "imds", "doc": doc}]
    for i in range(n):
        cn = "d%d" % i
        steps += [{"op": "connect", "conn": cn, "attr": {"uid": 1, "admin": 0, "dip": "169.254.169.254", "dport": 80}},
                  {"op": "request", "conn": cn, "id": cn, "method": "GET", "target": "/metadata/identity/oauth2/token?i=%d" % (i % 7),
                   "headers": [["Host", "h"]]},
                  {"op": "close", "conn": cn},
                  {"op": "snapshot", "tag": "pub%d" % i, "status_file": os.path.join(sdir, "status.json")}]
    script = {"steps": steps, "status_task": {"interval_ms": 1, "dir": sdir}, "drain_ms": 200}
    if level:
        script["agent_config"] = {"fileLogLevel": level}
    ev, d, _ = rig.run_rig(script, name, timeout=600)
    rows, denials = [], 0
    resp = {e["id"]: e for e in ev if e["e"] == "Response"}
    for e in ev:
        if e["e"] == "Failed" and e.get("source") == "status.json":
            i = int(str(e["tag"])[3:])
            denials = sum(1 for k in range(i + 1) if resp.get("d%d" % k, {}).get("status") == 403)
            if not e.get("found"):
                raise util.ToolError("status.json was not published within 5 s")
            infile = sum(x.get("count", 0) for x in (e.get("failedAuth") or []))
            rows.append({"e": "pub", "id": "pub%d" % i, "denials": denials, "inFile": infile})
    if len(rows) < n:
        raise util.ToolError("status-file scenario: %d of %d publications observed" % (len(rows), n))
    if denials < n:
        raise util.ToolError("status-file scenario: only %d of %d requests were denied" % (denials, n))
    return rows


def burst_and_callers_rows(c):
    """(a) two callers of one user and one executable whose command lines are long and differ only near the end: each
    caller's denials are published under ITS command line; (b) hundreds of denials at the same moment (more than the
    status actor's mailbox holds): every one of them is in the status file afterwards."""
    import shutil
    thorough = c.tier == "thorough"
    name = "c11_burst"
    d0 = os.path.join(util.RUNDIR, name)
    sdir = os.path.join(d0, "status")
    sf = os.path.join(sdir, "status.json")
    script = os.path.join(d0, "w" * 60, "x" * 60, "extension-handler-with-a-long-name.sh")
    doc = {"defaultAccess": "deny", "mode": "enforce", "id": "small", "rules": {"privileges": [{"name": "p", "path": "/never"}],
                                                                                "roles": [], "identities": [], "roleAssignments": []}}
    sh = shutil.which("sh")
    steps = [{"op": "set_rules", "ep": "imds", "doc": doc}, {"op": "write_file", "path": script, "text": "sleep 40\n"}]
    want = {"worker-a": 3, "worker-b": 2}
    for w in want:
        steps.append({"op": "spawn", "name": w, "exe": sh, "args": [script, "--instance-name", w]})
    steps.append({"op": "sleep", "ms": 200})
    for w, k in want.items():
        for i in range(k):
            cn = "%s_%d" % (w, i)
            steps += [{"op": "connect", "conn": cn, "attr": {"uid": 0, "admin": 1, "dip": "169.254.169.254", "dport": 80, "helper": w}},
                      {"op": "request", "conn": cn, "id": cn, "method": "GET", "target": "/metadata/instance", "headers": [["Host", "h"]]},
                      {"op": "close", "conn": cn}]
    # a caller that exec()s another program under the same pid between its denials: each denial is published under what the
    # caller was running at that connection
    steps.append({"op": "spawn", "name": "execer", "exe": sh, "args": ["-c", "sleep 1.2; exec sleep 30 0.0625"]})
    steps.append({"op": "sleep", "ms": 150})
    for i, pause in enumerate([0, 1700, 0]):
        cn = "execer_%d" % i
        if pause:
            steps.append({"op": "sleep", "ms": pause})
        steps += [{"op": "helper_exe", "name": "execer", "tag": cn + ":pre"},
                  {"op": "connect", "conn": cn, "attr": {"uid": 0, "admin": 1, "dip": "169.254.169.254", "dport": 80, "helper": "execer"}},
                  {"op": "request", "conn": cn, "id": cn, "method": "GET", "target": "/metadata/instance", "headers": [["Host", "h"]]},
                  {"op": "helper_exe", "name": "execer", "tag": cn + ":post"}, {"op": "close", "conn": cn}]
    steps += [{"op": "sleep", "ms": 100}, {"op": "snapshot", "tag": "callers", "status_file": sf}]
    nb = 1000 if not thorough else 2500
    branches = []
    for b in range(nb):
        # all connections are established first (accepted, attributed, upstream connected); then every client fires at once
        cn = "b%d" % b
        steps.append({"op": "connect", "conn": cn, "attr": {"uid": 1, "admin": 0, "dip": "169.254.169.254", "dport": 80}})
        branches.append([{"op": "request", "conn": cn, "id": cn, "method": "GET", "target": "/metadata/burst?b=%d" % (b % 5), "headers": [["Host", "h"]],
                          "timeout_ms": 30000},
                         {"op": "close", "conn": cn}])
    steps += [{"op": "wait_audit_settled", "tag": "burst"}, {"op": "sleep", "ms": 300},
              {"op": "parallel", "branches": branches}, {"op": "sleep", "ms": 300}, {"op": "snapshot", "tag": "burst", "status_file": sf}]
    ev, d, _ = rig.run_rig({"steps": steps, "status_task": {"interval_ms": 5, "dir": sdir}, "drain_ms": 200}, name, timeout=900)
    snaps = {e["tag"]: e for e in ev if e["e"] == "Failed" and e.get("source") == "status.json"}
    resp = {e["id"]: e for e in ev if e["e"] == "Response"}
    if "callers" not in snaps or "burst" not in snaps or not snaps["burst"].get("found"):
        raise util.ToolError("burst scenario: status.json was not published")
    rows = []
    entries = snaps["callers"].get("failedAuth") or []
    seen_cmd = [x.get("processCmdLine", "") for x in entries]
    if not any("--instance-name" in x for x in seen_cmd):
        raise util.ToolError("burst scenario: the helpers' command lines were not resolved (%s)" % seen_cmd[:3])
    for w, k in want.items():
        den = sum(1 for i in range(k) if resp.get("%s_%d" % (w, i), {}).get("status") == 403)
        cnt = sum(x.get("count", 0) for x in entries if (x.get("processCmdLine") or "").endswith(w))
        rows.append({"e": "pub", "id": "caller-" + w, "denials": den, "inFile": cnt})
    exe_at = {e["tag"]: e for e in ev if e["e"] == "HelperExe"}
    after_exec = 0
    for i in range(3):
        cn = "execer_%d" % i
        pre, post = exe_at.get(cn + ":pre", {}), exe_at.get(cn + ":post", {})
        if pre.get("exe") and pre.get("exe") == post.get("exe") and os.path.basename(pre["exe"]) == "sleep" and resp.get(cn, {}).get("status") == 403:
            after_exec += 1
    if after_exec:
        cnt = sum(x.get("count", 0) for x in entries if "0.0625" in (x.get("processCmdLine") or "")
                  and os.path.basename(x.get("processFullPath") or "") == "sleep")
        rows.append({"e": "pub", "id": "caller-after-exec", "denials": after_exec, "inFile": cnt})
    c.extra["denials_after_exec"] = after_exec
    before = sum(x.get("count", 0) for x in entries)
    den = sum(1 for b in range(nb) if resp.get("b%d" % b, {}).get("status") == 403)
    c.extra["burst_answered"] = den
    if den < nb * 0.5:          # under heavy machine load some clients time out; the row below counts only the answered ones
        raise util.ToolError("burst scenario: only %d of %d simultaneous requests were answered 403" % (den, nb))
    after = sum(x.get("count", 0) for x in (snaps["burst"].get("failedAuth") or []))
    # clients that gave up waiting (machine load) may or may not have been denied by the agent: each may add one occurrence
    unanswered = sum(1 for b in range(nb) if "b%d" % b not in resp)
    rows.append({"e": "pub", "id": "burst", "denials": den, "inFile": after - before, "unanswered": unanswered})
    c.extra["burst_unanswered"] = unanswered
    c.extra["simultaneous_denials"] = den
    c.extra["long_command_line_prefix"] = len(os.path.commonprefix([sh + " " + script + " --instance-name worker-a",
                                                                     sh + " " + script + " --instance-name worker-b"]))
    return rows


def run(c):
    proxylib.decide(c, "C11", relevant=lambda row: row['rules'] in ('audit','enforce','disabled'))
    rows = status_file_rows(c)
    c.extra["status_file_publications_checked"] = len(rows)
    brows = burst_and_callers_rows(c)
    # the same burst at the recording point itself, deterministically: n tasks record a denial while the status actor cannot
    # run (single-threaded runtime) -- more than its mailbox holds; every recording the caller was told succeeded is counted
    from checks import c13
    sb = c13.robust_table([{"kind": "status_burst", "n": 250 if c.tier != "thorough" else 2000}], "c11_sburst")[0]
    if "failedRecorded" not in sb:
        raise util.ToolError("status_burst driver: %s" % sb)
    brows.append({"e": "pub", "id": "recording-burst", "denials": sb["n"], "inFile": sb["failedRecorded"]})
    c.extra["recording_burst"] = sb
    # many distinct callers within one clearing window: each keeps its own entry and count
    mc = c13.robust_table([{"kind": "status_many_callers", "n": 1500 if c.tier != "thorough" else 6000}], "c11_many")[0]
    if "entries" not in mc:
        raise util.ToolError("status_many_callers driver: %s" % mc)
    brows.append({"e": "pub", "id": "many-callers-total", "denials": mc["acked"], "inFile": mc["total"]})
    brows.append({"e": "pub", "id": "many-callers-entries", "denials": mc["n"], "inFile": mc["entries"]})
    brows.append({"e": "pub", "id": "many-callers-last", "denials": 3, "inFile": mc["lastCaller"]})
    brows.append({"e": "pub", "id": "many-callers-first", "denials": 2, "inFile": mc["firstCaller"]})
    # ... and the same four numbers read from the status.json the real ProxyAgentStatusTask publishes over that actor
    if mc.get("fileEntries", -1) < 0:
        raise util.ToolError("status_many_callers driver: no publication after the adds was read within 20 s: %s" % mc)
    brows.append({"e": "pub", "id": "many-callers-file-total", "denials": mc["acked"], "inFile": mc["fileTotal"]})
    brows.append({"e": "pub", "id": "many-callers-file-entries", "denials": mc["n"], "inFile": mc["fileEntries"]})
    brows.append({"e": "pub", "id": "many-callers-file-last", "denials": 3, "inFile": mc["fileLastCaller"]})
    brows.append({"e": "pub", "id": "many-callers-file-first", "denials": 2, "inFile": mc["fileFirstCaller"]})
    c.extra["many_callers"] = mc
    ok, why, res = validate_trace(c, "ProxyTrace", proxylib.write_cfg("C11", ["P_C11_PublishedInStatusFile"], "pubb"), brows, "c11_pubb",
                                  count=1, timeout=300)
    if not ok:
        off = lambda r: not (r["denials"] <= r["inFile"] <= r["denials"] + r.get("unanswered", 0))
        bad = [r for r in brows if off(r)]
        for attempt in range(3):                    # only a verdict that reproduces is reported (the overflow is a race)
            brows2 = burst_and_callers_rows(c)
            sb2 = c13.robust_table([{"kind": "status_burst", "n": sb["n"]}], "c11_sburst")[0]
            brows2.append({"e": "pub", "id": "recording-burst", "denials": sb2.get("n", 0), "inFile": sb2.get("failedRecorded", -1)})
            brows2 += [r for r in brows if r["id"].startswith("many-callers")]
            bad2 = [r for r in brows2 if off(r)]
            if bad2 and not {r["id"] for r in bad2}.isdisjoint({r["id"] for r in bad}):
                break
        else:
            raise util.ToolError("a miscounted publication (%s) did not reproduce in three re-executions; not believed" % bad)
        kind = "burst" if any(r["id"] == "burst" for r in bad2) else "per-caller"
        c.violation("denials are not published once each under their caller: %s" % bad2,
                    {"broken": "P_C11_PublishedInStatusFile", "scenario": kind}, {"rows": brows2})
    ok, why, res = validate_trace(c, "ProxyTrace", proxylib.write_cfg("C11", ["P_C11_PublishedInStatusFile"], "pub"), rows, "c11_pub",
                                  count=1, timeout=300)
    if not ok:
        bad = next((r for r in rows if r["inFile"] != r["denials"]), {})
        # only a verdict that reproduces is reported (the window is a race: up to three re-executions)
        for attempt in range(3):
            rows2 = status_file_rows(c)
            if not all(r["inFile"] == r["denials"] for r in rows2):
                break
        else:
            raise util.ToolError("a stale status file (%s) did not reproduce in three re-executions; not believed" % bad)
        c.violation("a denial that was already answered is missing from the status file published afterwards: %s" % bad,
                    {"broken": "P_C11_PublishedInStatusFile"}, {"first": bad})


    # what is published does not depend on what the operator chose to have LOGGED (fileLogLevel Warn / Error)
    for level in ("Warn", "Error"):
        lrows = [dict(r, id="%s-%s" % (level, r["id"])) for r in status_file_rows(c, level)]
        ok, why, res = validate_trace(c, "ProxyTrace", proxylib.write_cfg("C11", ["P_C11_PublishedInStatusFile"], "pubL"), lrows,
                                      "c11_pub_" + level, count=1, timeout=300)
        c.extra.setdefault("status_file_publications_by_log_level", {})[level] = len(lrows)
        if not ok:
            bad = next((r for r in lrows if r["inFile"] != r["denials"]), {})
            for attempt in range(3):
                if not all(r["inFile"] == r["denials"] for r in status_file_rows(c, level)):
                    break
            else:
                raise util.ToolError("a stale status file at log level %s (%s) did not reproduce in three re-executions" % (level, bad))
            c.violation("with fileLogLevel %s a denial that was already answered is missing from the status file published "
                        "afterwards: %s" % (level, bad), {"broken": "P_C11_PublishedInStatusFile", "scenario": "log-level"}, {"first": bad})
            break


def replay(c, path):
    proxylib.replay(c, "C11", path)
