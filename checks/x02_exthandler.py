"""X02_EXTHANDLER -- the VM extension's handler commands and service loop (growth of the specification beyond the
20 listed properties; the properties are NEW and documented in the header of spec/ExtHandler.tla).

spec/ExtHandler.tla: install / enable / disable / update / uninstall / reset as the sequences of their file steps,
interleaved with the monitor loop of the service (version comparison, backup -> install -> observe -> restore on
Error / purge on Success), composed with Health.tla (INSTANCE) and the contract of Setup.tla; checked exhaustively.
S->I: spec/gen/ExtHandlerGen.tla prints (a) every behaviour of N handler commands and (b) the behaviours that follow
scripted scenarios of the REAL service loop; each is executed on the real code -- handler_main::program_start, one
process per command, and service_main::run() on the real clock -- inside a private mount + pid namespace
(harness/sys/ns_enter.sh, overlayfs over /etc /usr /var ..., stand-in systemctl, the REAL proxy_agent_setup behind an
argv-logging wrapper), and the directories / processes / setup-tool calls are compared with the model after every
command / iteration.  I->S: everything observed is validated by TLC against the property-level trace spec
spec/trace/ExtHandlerTrace.tla, which alone decides the verdict."""
import hashlib
import json
import os
import random
import re
import shutil
import signal
import stat
import subprocess
import sys
import time

VERS = {"x0": "1.0.0", "h1": "1.0.1", "h2": "1.0.2"}
GOOD = ("x0", "h1")                     # spec/gen/ExtHandlerGen.cfg, spec/trace/ExtHandlerTrace.cfg
HANDLERS = ("h1", "h2")
SEQ_POOL = [("1", "2"), ("7", "3"), ("0", "10"), ("no seq no", "5"), ("12", "012"), ("2", "1")]
LOCS = ("exe", "cfg", "ebpf", "unit")
SYS_PATH = {"exe": "/usr/sbin/azure-proxy-agent", "cfg": "/etc/azure/proxy-agent.json",
            "ebpf": "/usr/lib/azure-proxy-agent/ebpf_cgroup.o",
            "unit": "/usr/lib/systemd/system/azure-proxy-agent.service"}
AGG = "/var/log/azure-proxy-agent/status.json"
OS_RELEASE = {
    "ubuntu": 'NAME="Ubuntu"\nVERSION_ID="22.04"\nID=ubuntu\nPRETTY_NAME="Ubuntu 22.04.3 LTS"\n',
    "debian": 'PRETTY_NAME="Debian GNU/Linux 12 (bookworm)"\nNAME="Debian GNU/Linux"\nVERSION_ID="12"\nID=debian\n',
}
ACTIONS = ["BeginCmd", "OsCheck", "InstallNoop", "EnSeq", "EnStatus", "EnStart", "EnStartFail", "EnUntag", "DisKill",
           "UpdTag", "UnCheck", "UnSetup", "UnDone", "RsTag", "RsSeq", "LRead", "LVersion", "LBackup", "LInstall",
           "LInstStatus", "LObserve", "LDecide", "LReport", "AgentReport", "ExternalInstall", "Crash"]
FINDING_OF = {"P_StatusOnlyInFolder": "stray-status", "P_RollbackCoversEveryInstall": "decision-latch"}

ASSUME = [
    "TLC 1.8 and the CommunityModules Json/IOUtils are correct",
    "the guest agent runs one handler command at a time and waits for it (HandlerManifest contract)",
    "the kernel's mount and pid namespaces and overlayfs isolate the run: the handler's processes see only this run's "
    "processes (ProxyAgentExt is looked up and killed BY NAME) and write only into the overlays / the scratch directory",
    "the setup tool is the REAL release binary behind an argv-logging wrapper, systemctl is the stand-in of C17 (always "
    "succeeds); the agent is played by the orchestrator: it writes /var/log/azure-proxy-agent/status.json naming the "
    "installed version when that version is one of the healthy ones ('agent' steps)",
    "a ProxyAgentExt started by `enable` is this harness binary under that name: inert (blocked on stdin) in the "
    "command-sequence runs, and the real service_main::run() (monitor + heartbeat threads, real 15 s clock) in the "
    "scenario runs; statusFolder = <handler dir>/status as in the deployed layouts",
    "exhaustive configurations use Threshold 2 for Health (the automaton is checked at the real constants by C20); the "
    "generator and the trace specification use the real 20 / 10000",
    "write failures of current_seq_no.txt / update.tag (exit 10, 90 s retry loop) are not injected",
]


# =============================================================================================
# INSIDE the namespace: executes behaviours on the real code.  Refuses to run anywhere else.
# =============================================================================================
def _sha(b):
    return hashlib.sha256(b).hexdigest()


class Inside:
    def __init__(self, job):
        self.job = job
        self.S = job["scratch"]
        self.bin = job["bin"]
        self.setup_bin = job["setup_bin"]
        self.sysdir = job["sysdir"]
        self.check_sandbox()
        self.template = open(os.path.join(self.sysdir, "azure-proxy-agent.in")).read()
        self.pipes = []

    def die(self, msg, rc=3):
        sys.stderr.write("x02 inside: %s\n" % msg)
        sys.exit(rc)

    def check_sandbox(self):
        S = self.S
        if os.environ.get("VERIF_C17_SANDBOX") != S:
            self.die("not started by ns_enter.sh")
        m = open("/proc/self/mounts").read()
        for d in ("etc", "usr", "var"):
            if not re.search(r"^verif-c17-%s /%s overlay .*upperdir=%s/ov/%s/up" % (d, d, re.escape(S), d), m, re.M):
                self.die("/%s is not this run's overlay; refusing to run handler code" % d)
        with open("/usr/bin/systemctl", "rb") as f, open(os.path.join(self.sysdir, "systemctl"), "rb") as g:
            if f.read() != g.read():
                self.die("/usr/bin/systemctl is not the stand-in")
        # private pid namespace: nothing but this run's processes may be visible (disable kills by NAME)
        pids = [int(p) for p in os.listdir("/proc") if p.isdigit()]
        if os.getpid() > 50 or len(pids) > 40:
            self.die("not in a private pid namespace (pid %d, %d processes visible)" % (os.getpid(), len(pids)))
        for p in pids:
            try:
                if open("/proc/%d/comm" % p).read().strip() == "ProxyAgentExt":
                    self.die("a foreign ProxyAgentExt is visible")
            except OSError:
                pass

    # ---- files ------------------------------------------------------------------------------
    def exe_bytes(self, v):
        return self.template.replace("@VERSION@", VERS[v]).replace("@NONCE@", "x02-" + v).encode()

    def file_bytes(self, v, loc):
        if loc == "exe":
            return self.exe_bytes(v)
        return ("x02 %s of %s\n" % (loc, v)).encode() * 3

    def put(self, path, data, mode=0o644):
        os.makedirs(os.path.dirname(path), exist_ok=True)
        if os.path.lexists(path):
            os.unlink(path)
        with open(path, "wb") as f:
            f.write(data)
        os.chmod(path, mode)

    def version_of(self, path):
        try:
            b = open(path, "rb").read()
        except OSError:
            return "none"
        for v in VERS:
            if b == self.exe_bytes(v):
                return v
        return "other:" + _sha(b)[:10]

    def hdir(self, h):
        return os.path.join(self.root, h)

    def reset(self, beh):
        n = beh["id"]
        self.kill_services()
        for f in self.pipes:
            try:
                f.close()
            except OSError:
                pass
        self.pipes = []
        self.W = os.path.join(self.S, "w")
        shutil.rmtree(self.W, ignore_errors=True)
        self.root = os.path.join(self.W, "ext")
        self.setup_log = os.path.join(self.W, "setup.log")
        self.seqmap = beh["seqmap"]                       # model name -> real ConfigSequenceNumber
        self.unseq = {v: k for k, v in self.seqmap.items()}
        self.lazy = None                                   # stdin of a spawned, still inert service (script mode)
        self.log_mark = {}
        self.beh_id, self.step_no = beh["id"], 0
        self.svc_log_pos = {}
        with open("/etc/os-release", "w") as f:
            f.write(OS_RELEASE[beh.get("os", "ubuntu")])
        # the machine
        for loc in LOCS:
            if os.path.lexists(SYS_PATH[loc]):
                os.unlink(SYS_PATH[loc])
        shutil.rmtree("/etc/azure", ignore_errors=True)
        shutil.rmtree("/usr/lib/azure-proxy-agent", ignore_errors=True)
        shutil.rmtree("/var/log/azure-proxy-agent", ignore_errors=True)
        inst = beh.get("installed", "x0")
        if inst != "none":
            for loc in LOCS:
                self.put(SYS_PATH[loc], self.file_bytes(inst, loc), 0o755 if loc == "exe" else 0o644)
        if inst in GOOD:
            self.write_agg(inst)
        # the handler directories
        for h in HANDLERS:
            d = self.hdir(h)
            for sub in ("status", "log", "events", "config", "ProxyAgent/ProxyAgent"):
                os.makedirs(os.path.join(d, sub))
            for name in ("verif-ext", "ProxyAgentExt"):
                if not (name == "ProxyAgentExt" and beh.get("no_service_exe")):
                    os.link(self.bin, os.path.join(d, name))
            env = [{"version": 1.0, "handlerEnvironment": {
                "logFolder": os.path.join(d, "log"), "configFolder": os.path.join(d, "config"),
                "statusFolder": os.path.join(d, "status"), "heartbeatFile": os.path.join(d, "heartbeat.json"),
                "eventsFolder": os.path.join(d, "events")}}]
            with open(os.path.join(d, "HandlerEnvironment.json"), "w") as f:
                json.dump(env, f)
            for s in self.seqmap.values():
                with open(os.path.join(d, "config", s + ".settings"), "w") as f:
                    f.write('{"runtimeSettings":[]}')
            pa = os.path.join(d, "ProxyAgent")
            self.put(os.path.join(pa, "ProxyAgent", "azure-proxy-agent"), self.file_bytes(h, "exe"), 0o755)
            self.put(os.path.join(pa, "ProxyAgent", "proxy-agent.json"), self.file_bytes(h, "cfg"))
            self.put(os.path.join(pa, "ProxyAgent", "ebpf_cgroup.o"), self.file_bytes(h, "ebpf"))
            self.put(os.path.join(pa, "azure-proxy-agent.service"), self.file_bytes(h, "unit"))
            shutil.copy2(self.setup_bin, os.path.join(pa, "proxy_agent_setup.real"))
            wrapper = ("#!/bin/sh\n# argv-logging wrapper around the real proxy_agent_setup (X02)\n"
                       "echo \"%s $*\" >> %s\nexec \"$0.real\" \"$@\"\n" % (h, self.setup_log))
            self.put(os.path.join(pa, "proxy_agent_setup"), wrapper.encode(), 0o755)
        open(self.setup_log, "w").close()
        self.known = self.tree()

    def write_agg(self, v):
        d = {"status": "RUNNING", "message": "x02"}
        doc = {"timestamp": "2026-01-01T00:00:00Z",
               "proxyAgentStatus": {"version": VERS[v], "status": "SUCCESS", "monitorStatus": d, "keyLatchStatus": d,
                                    "ebpfProgramStatus": d, "proxyListenerStatus": d, "telemetryLoggerStatus": d,
                                    "proxyConnectionsCount": 1},
               "proxyConnectionSummary": [], "failedAuthenticateSummary": []}
        os.makedirs(os.path.dirname(AGG), exist_ok=True)
        tmp = AGG + ".tmp"
        with open(tmp, "w") as f:
            json.dump(doc, f)
        os.replace(tmp, AGG)

    def agg_version(self):
        try:
            v = json.load(open(AGG))["proxyAgentStatus"]["version"]
        except (OSError, ValueError, KeyError):
            return "none"
        for k, x in VERS.items():
            if x == v:
                return k
        return "other:" + str(v)

    # ---- observation ------------------------------------------------------------------------
    def tree(self):
        """every file under the extension root except logs, events and what reset() put there: path -> (mtime_ns, sha)"""
        out = {}
        for r, dirs, files in os.walk(self.root):
            rel = os.path.relpath(r, self.root)
            parts = rel.split(os.sep)
            if len(parts) >= 2 and parts[1] in ("log", "events"):
                dirs[:] = []
                continue
            if len(parts) >= 4 and parts[1:4] == ["ProxyAgent", "ProxyAgent", "Backup"]:
                dirs[:] = []
                continue
            for n in files:
                p = os.path.join(r, n)
                if re.match(r"^setup.*\.log", n) or n.endswith(".log"):
                    continue
                try:
                    st = os.lstat(p)
                    with open(p, "rb") as f:
                        b = f.read()
                except OSError:
                    continue
                out[os.path.relpath(p, self.root)] = (st.st_mtime_ns, _sha(b))
        return out

    def services(self):
        out = []
        for p in os.listdir("/proc"):
            if not p.isdigit():
                continue
            try:
                if open("/proc/%s/comm" % p).read().strip() != "ProxyAgentExt":
                    continue
                if open("/proc/%s/stat" % p).read().split(") ")[1][0] == "Z":
                    continue
                exe = os.readlink("/proc/%s/exe" % p)
                argc = len([a for a in open("/proc/%s/cmdline" % p, "rb").read().split(b"\0") if a])
            except (OSError, IndexError):
                continue
            owner = os.path.basename(os.path.dirname(exe.replace(" (deleted)", "")))
            out.append({"pid": int(p), "h": owner, "argc": argc})
        return sorted(out, key=lambda x: x["pid"])

    def settle(self):
        """a SIGKILL sent by `disable` is delivered asynchronously: wait until no service process has one pending"""
        for _ in range(400):
            dying = False
            for sv in self.services():
                try:
                    txt = open("/proc/%d/status" % sv["pid"]).read()
                except OSError:
                    continue
                for key in ("SigPnd", "ShdPnd"):
                    m = re.search(r"^%s:\s*([0-9a-f]+)" % key, txt, re.M)
                    if m and int(m.group(1), 16) & 0x100:
                        dying = True
            if not dying:
                return
            time.sleep(0.01)
        self.die("a killed service process did not go away", 4)

    def kill_services(self):
        for _ in range(50):
            sv = self.services()
            if not sv:
                return
            for s in sv:
                try:
                    os.kill(s["pid"], signal.SIGKILL)
                except OSError:
                    pass
            self.reap()
            time.sleep(0.02)

    def reap(self):
        try:
            while True:
                pid, _ = os.waitpid(-1, os.WNOHANG)
                if pid == 0:
                    break
        except ChildProcessError:
            pass

    def status_value(self, path):
        try:
            d = json.load(open(path))
            return str(d[0]["status"]["status"]), str(d[0]["status"]["operation"])
        except (OSError, ValueError, KeyError, IndexError, TypeError):
            return "unparsable", ""

    def snapshot(self):
        self.reap()
        s = {"tag": os.path.exists(os.path.join(self.root, "update.tag")), "cur": {}, "status": {}, "hb": {},
             "tree": self.tree(), "svcs": self.services(),
             "installed": self.version_of(SYS_PATH["exe"]), "agg": self.agg_version(), "backup": {}}
        for h in HANDLERS:
            try:
                raw = open(os.path.join(self.hdir(h), "current_seq_no.txt")).read()
                s["cur"][h] = self.unseq.get(raw, "other:" + raw)
            except OSError:
                s["cur"][h] = "absent"
            s["hb"][h] = os.path.exists(os.path.join(self.hdir(h), "heartbeat.json"))
            s["backup"][h] = self.version_of(os.path.join(self.hdir(h), "ProxyAgent", "ProxyAgent", "Backup", "Package",
                                                         "azure-proxy-agent"))
        return s

    def changed(self, a, b):
        """status-like files created or rewritten between two snapshots (anything new or rewritten under the root that
        reset() did not put there, except current_seq_no.txt / update.tag / heartbeat.json)"""
        out = []
        for p, v in sorted(b["tree"].items()):
            if a["tree"].get(p) == v:
                continue
            parts = p.split(os.sep)
            base = parts[-1]
            if base in ("current_seq_no.txt", "update.tag", "heartbeat.json"):
                continue
            h = parts[0] if parts[0] in HANDLERS else "none"
            infolder = len(parts) == 3 and parts[1] == "status" and base.endswith(".status")
            name = base[:-len(".status")] if base.endswith(".status") else base
            val, op = self.status_value(os.path.join(self.root, p))
            out.append({"h": h, "name": self.unseq.get(name, "other:" + name) if infolder else p, "infolder": infolder,
                        "v": val, "op": op, "path": p})
        return out

    def setup_calls(self):
        with open(self.setup_log) as f:
            lines = [ln.split() for ln in f.read().splitlines() if ln.strip()]
        open(self.setup_log, "w").close()
        return [{"h": ln[0], "argv": ln[1:]} for ln in lines]

    # ---- execution --------------------------------------------------------------------------
    def run_cmd(self, h, c, seq, loop):
        pre = self.snapshot()
        d = self.hdir(h)
        real_seq = self.seqmap.get(seq, seq)
        out = open(os.path.join(self.W, "cmd.out"), "ab")
        p = subprocess.Popen([os.path.join(d, "verif-ext")], stdin=subprocess.PIPE, stdout=out, stderr=out, cwd=d)
        p.stdin.write((json.dumps({"kind": "handler", "cmd": c, "seq": real_seq}) + "\n").encode())
        p.stdin.flush()
        try:
            rc = p.wait(timeout=150)
        except subprocess.TimeoutExpired:
            p.kill()
            self.die("handler command %s timed out" % c, 4)
        out.close()
        self.settle()
        post = self.snapshot()
        new = [s for s in post["svcs"] if s["pid"] not in [x["pid"] for x in pre["svcs"]]]
        if new:
            self.pipes.append(p.stdin)              # keeps the spawned ProxyAgentExt alive (it blocks on this pipe)
            self.lazy = p.stdin
        else:
            p.stdin.close()
        calls = self.setup_calls()
        o = {"k": "cmd", "h": h, "c": c, "seq": seq, "exit": rc, "loop": loop,
             "pre_tag": pre["tag"], "pre_seq": pre["cur"][h], "pre_svc": pre["svcs"][0]["h"] if pre["svcs"] else "none",
             "tag": post["tag"], "cur": post["cur"], "hb": post["hb"],
             "has_status": os.path.exists(os.path.join(d, "status", real_seq + ".status")),
             "changed": self.changed(pre, post), "nsvc": len(post["svcs"]),
             "svc_same": [s["pid"] for s in pre["svcs"]] == [s["pid"] for s in post["svcs"]],
             "svc": post["svcs"][0]["h"] if post["svcs"] else "none",
             "svc_argc": [s["argc"] for s in post["svcs"]],
             "setup": [cl["argv"][0] if cl["argv"] else "?" for cl in calls], "setup_full": calls,
             "installed": post["installed"], "backup": post["backup"], "agg": post["agg"]}
        return o

    def svc_log(self, h):
        p = os.path.join(self.hdir(h), "log", "ProxyAgentExtensionService.log")
        try:
            return open(p, errors="replace").read()
        except OSError:
            return ""

    def run_iter(self):
        """one iteration of the real monitor loop: wake the inert service if it has not been started yet, wait until the
        iteration has written its status file and the log has been quiet, observe"""
        pre = self.snapshot()
        if not pre["svcs"]:
            return {"k": "iter", "noop": True}
        h = pre["svcs"][0]["h"]
        first = False
        # everything the service logged since the last observed iteration ended belongs to this one (under load the
        # steps between two iterations may take long enough for the next iteration to have begun already)
        mark = self.log_mark.get(h, 0) if self.lazy is None else len(self.svc_log(h))
        if self.lazy is not None:
            self.lazy.write(b'{"kind":"handler","cmd":"service"}\n')
            self.lazy.flush()
            self.lazy = None
            first = True
        t0 = time.time()
        seen_at, last_len = None, mark
        while True:
            if time.time() - t0 > 75:
                procs = []
                for pp in os.listdir("/proc"):
                    if pp.isdigit():
                        try:
                            procs.append((int(pp), open("/proc/%s/comm" % pp).read().strip(),
                                          open("/proc/%s/stat" % pp).read().split(") ")[1][0],
                                          open("/proc/%s/wchan" % pp).read().strip()))
                        except OSError:
                            pass
                self.die("no iteration of the service loop within 75 s (step %d of %s; new log: %r; log tail: %r; "
                         "processes: %s; handler output: %r)"
                         % (self.step_no, self.beh_id, self.svc_log(h)[mark:][-400:], self.svc_log(h)[-400:], sorted(procs),
                            open(os.path.join(self.W, "cmd.out"), errors="replace").read()[-400:]), 4)
            time.sleep(0.2)
            log = self.svc_log(h)
            if len(log) != last_len:
                last_len = len(log)
                quiet_since = time.time()
                if "Status file created" in log[mark:]:
                    seen_at = seen_at or time.time()
            elif seen_at and time.time() - quiet_since >= 2.0:
                break
        self.log_mark[h] = len(self.svc_log(h))
        post = self.snapshot()
        calls = self.setup_calls()
        ch = self.changed(pre, post)
        o = {"k": "iter", "h": h, "first": first, "seq_at_start": pre["cur"][h],
             "agg_at_start": pre["agg"], "installed_before": pre["installed"], "backup_before": pre["backup"][h],
             "calls": [cl["argv"][0] if cl["argv"] else "?" for cl in calls], "calls_full": calls, "changed": ch,
             "installed": post["installed"], "backup": post["backup"][h], "hb": post["hb"], "cur": post["cur"],
             "tag": post["tag"], "nsvc": len(post["svcs"]), "svc": post["svcs"][0]["h"] if post["svcs"] else "none",
             "wall": round(time.time() - t0, 2)}
        return o

    def run_beh(self, beh):
        self.reset(beh)
        rec = {"id": beh["id"], "seqmap": self.seqmap, "init": {"installed": self.version_of(SYS_PATH["exe"]),
                                                                "agg": self.agg_version()}, "steps": []}
        loop = False
        for st in beh["steps"]:
            k = st["k"]
            self.step_no += 1
            if k == "cmd":
                o = self.run_cmd(st["h"], st["c"], st["seq"], loop)
                if o["nsvc"] == 0:
                    loop = False
            elif k == "iter":
                o = self.run_iter()
                loop = loop or not o.get("noop")
            elif k == "agent":
                inst = self.version_of(SYS_PATH["exe"])
                up = os.path.exists(SYS_PATH["unit"])
                if inst in GOOD and up and self.agg_version() != inst:
                    self.write_agg(inst)
                    o = {"k": "agent", "wrote": inst}
                else:
                    o = {"k": "agent", "noop": True}
            elif k == "external":
                if self.version_of(SYS_PATH["exe"]) != "x0":
                    for loc in LOCS:
                        self.put(SYS_PATH[loc], self.file_bytes("x0", loc), 0o755 if loc == "exe" else 0o644)
                    o = {"k": "external", "installed": "x0"}
                else:
                    o = {"k": "external", "noop": True}
            elif k == "crash":
                sv = self.services()
                if sv:
                    self.kill_services()
                    self.lazy = None
                    loop = False
                    o = {"k": "crash"}
                else:
                    o = {"k": "crash", "noop": True}
            else:
                self.die("unknown step %r" % k)
            o["snap"] = {x: y for x, y in self.snapshot().items() if x != "tree"}
            rec["steps"].append(o)
        self.kill_services()
        return rec


def inside_main(job_path, out_path):
    job = json.load(open(job_path))
    w = Inside(job)
    with open(out_path, "w") as out:
        for beh in job["behaviours"]:
            rec = w.run_beh(beh)
            out.write(json.dumps(rec, separators=(",", ":")) + "\n")
            out.flush()
    w.kill_services()


if __name__ == "__main__":
    if len(sys.argv) == 4 and sys.argv[1] == "--inside":
        inside_main(sys.argv[2], sys.argv[3])
        sys.exit(0)
    sys.stderr.write("usage: x02_exthandler.py --inside <job.json> <out.ndjson>   (run through bin/check otherwise)\n")
    sys.exit(2)

# =============================================================================================
# OUTSIDE: orchestration (imported by bin/check)
# =============================================================================================
from vlib import build, tlc as tlcmod, util          # noqa: E402

SYSDIR = os.path.join(util.VERIF, "harness", "sys")
NS_ENTER = os.path.join(SYSDIR, "ns_enter.sh")
SCRATCH = os.path.join(util.BUILD, "x02", "run-%d" % os.getpid())


def start_worker(name, bindir, setup_bin, behaviours):
    S = os.path.join(SCRATCH, name)
    shutil.rmtree(S, ignore_errors=True)
    os.makedirs(S)
    # a private hard-linkable copy of the harness binary on the scratch file system
    binp = os.path.join(S, "verif-ext")
    shutil.copy2(os.path.join(bindir, "verif-ext"), binp)
    job = {"scratch": S, "bin": binp, "setup_bin": setup_bin, "sysdir": SYSDIR, "behaviours": behaviours}
    jp, op = os.path.join(S, "job.json"), os.path.join(S, "out.ndjson")
    with open(jp, "w") as f:
        json.dump(job, f)
    env = dict(os.environ)
    env["PYTHONDONTWRITEBYTECODE"] = "1"
    env["VERIF_SYSTEMCTL_LOG"] = os.path.join(S, "systemctl.log")
    cmd = [NS_ENTER, S, "unshare", "-p", "-f", "--mount-proc", "--kill-child", sys.executable,
           os.path.abspath(__file__), "--inside", jp, op]
    p = subprocess.Popen(cmd, stdout=subprocess.PIPE, stderr=subprocess.STDOUT, env=env, text=True, errors="replace")
    return {"S": S, "p": p, "out": op, "n": len(behaviours), "name": name}


def finish_worker(w, timeout):
    try:
        out, _ = w["p"].communicate(timeout=timeout)
    except subprocess.TimeoutExpired:
        w["p"].kill()
        raise util.ToolError("x02 worker %s timed out after %ss" % (w["name"], timeout))
    if w["p"].returncode != 0:
        raise util.ToolError("x02 worker %s failed rc=%s: %s" % (w["name"], w["p"].returncode, (out or "")[-3000:]))
    recs = util.read_ndjson(w["out"])
    if len(recs) != w["n"]:
        raise util.ToolError("x02 worker %s returned %d of %d behaviours" % (w["name"], len(recs), w["n"]))
    shutil.rmtree(w["S"], ignore_errors=True)
    return recs


# ---------------------------------------------------------------------------------------------
def scenarios(thorough):
    """scripted runs of the real loop (macro steps of spec/gen/ExtHandlerGen.tla)"""
    def cmd(h, c, seq="1", **kw):
        return dict({"k": "cmd", "h": h, "c": c, "seq": seq}, **kw)
    it, ag, ex, cr = {"k": "iter"}, {"k": "agent"}, {"k": "external"}, {"k": "crash"}
    sc = {
        # healthy upgrade x0 -> h1: backup, install, Transitioning; the new agent reports; Success, purge; service
        # restarted with the same number: versions match, no install, Success, purge
        "upgrade-good": ("x0", [cmd("h1", "enable"), it, ag, it, cr, cmd("h1", "enable"), it]),
        # nothing installed before; re-delivery of the same number to a running service; a newer number
        "fresh-install": ("none", [cmd("h1", "enable", "2"), it, ag, cmd("h1", "enable", "2"), it, cmd("h1", "enable", "1"), it]),
        # finding stray-status: reset while the service runs
        "reset-running": ("x0", [cmd("h1", "enable"), it, cmd("h1", "reset"), it]),
        # finding decision-latch, purge side: Success/purge, agent replaced out of band, new number: installed again,
        # Success again, the backup is never purged
        "latch-purge": ("x0", [cmd("h1", "enable"), it, ag, it, ex, ag, cmd("h1", "enable", "2"), it, ag, it]),
        # the agent is replaced out of band while the service runs and the number does not change: NOT installed again
        "external": ("x0", [cmd("h1", "enable"), it, ag, it, ex, ag, it]),
        # unhealthy version h2: stays Transitioning, neither restore nor purge
        "bad-version": ("x0", [cmd("h2", "enable"), it, ag, it]),
        # update choreography h1 -> h2 with the real loop of both versions
        "update": ("x0", [cmd("h1", "enable"), it, ag, it, cmd("h1", "disable"), cmd("h2", "update"),
                          cmd("h1", "uninstall"), cmd("h2", "install"), cmd("h2", "enable"), it, ag, it]),
    }
    if thorough:
        # sustained failure of the unhealthy version: Error after 20 failed observations, restore; a new number
        # arrives: the bad version is installed again and (finding decision-latch, restore side) never rolled back
        sc["rollback"] = ("x0", [cmd("h2", "enable"), it] + [it] * 19 + [ag, it, cmd("h2", "enable", "2"), it, it])
        # enable cannot start the service: six attempts, Error status, exit 7, update.tag stays
        sc["spawn-fail"] = ("x0", [cmd("h1", "update"), cmd("h1", "enable", "1", spawn="fail"), cmd("h1", "enable", "1", spawn="fail")])
    return sc


def gen_enum(c, n, nh):
    res = c.tlc("ExtHandlerGen", "ExtHandlerGen.cfg", subdir="gen", workers=1, coverage=False, timeout=900, heap="6g",
                env={"VERIF_MODE": "enum", "VERIF_N": str(n), "VERIF_H": str(nh), "VERIF_SCRIPT": ""})
    behs = tlcmod.printed_json(res, "BEH")
    want = (7 * nh) ** n
    if len(behs) != want:
        raise util.ToolError("generator printed %d behaviours for N=%d H=%d, expected %d" % (len(behs), n, nh, want))
    return behs


def gen_scripts(c, sc):
    path = os.path.join(util.BUILD, "x02_scripts_%d.ndjson" % os.getpid())
    rows = []
    for name, (inst, steps) in sorted(sc.items()):
        rows.append({"k": "init", "installed": inst, "id": name})
        rows += steps
    util.write_ndjson(path, rows)
    res = c.tlc("ExtHandlerGen", "ExtHandlerGen.cfg", subdir="gen", workers=1, coverage=False, timeout=600,
                env={"VERIF_MODE": "script", "VERIF_N": "0", "VERIF_H": "2", "VERIF_SCRIPT": path})
    os.unlink(path)
    out = {b["id"]: b for b in tlcmod.printed_json(res, "BEH")}
    if sorted(out) != sorted(sc):
        raise util.ToolError("generator followed %s of the scripts %s" % (sorted(out), sorted(sc)))
    for name, b in out.items():
        if len(b["steps"]) != len(sc[name][1]):
            raise util.ToolError("script %s: generator produced %d of %d steps" % (name, len(b["steps"]), len(sc[name][1])))
    return out


# ---------------------------------------------------------------------------------------------
def content_of(exp_step):
    """model: {h: {name: value}} with "" = the stray file; only files that exist"""
    out = {}
    for h, m in exp_step["content"].items():
        for s, v in m.items():
            if v != "none":
                out[(h, s)] = v
    return out


def last_writes(ws):
    """the model's writes of one step, as the files show them afterwards: the last value per file"""
    m = {}
    for w in ws:
        m[(w["h"], w["s"])] = w["v"]
    return sorted((h, s_, v) for (h, s_), v in m.items())


def compare(steps, exp, obs):
    """S->I: expected observation after each command / macro step vs what the real run showed.
    Returns [(index, component, expected, got)]; stops at the first divergent step."""
    diffs = []
    files = {}                                  # accumulated real status files: (h, name) -> value
    for i, (st, e, o) in enumerate(zip(steps, exp, obs)):
        d = []
        lab = e["step"]
        if bool(lab.get("noop")) != bool(o.get("noop")):
            d.append(("noop", bool(lab.get("noop")), bool(o.get("noop"))))
        for ch in o.get("changed", []):
            files[(ch["h"], ch["name"] if ch["infolder"] else "")] = ch["v"] if ch["path"].endswith(".status") else "file:" + ch["path"]
        snap = o["snap"]
        if lab["k"] == "cmd":
            want = {"ok": 0, "exit6": 6, "exit7": 7}[lab["res"]]
            if o["exit"] != want:
                d.append(("exit", want, o["exit"]))
            if [x for x in o["setup"]] != list(e["calls"]):
                d.append(("setup-calls", list(e["calls"]), o["setup"]))
        if lab["k"] == "iter" and not lab.get("noop") and not o.get("noop"):
            if o["calls"] != list(e["calls"]):
                d.append(("setup-calls", list(e["calls"]), o["calls"]))
            wn = last_writes(e["writes"])
            gn = sorted(set((ch["h"], ch["name"] if ch["infolder"] else "", ch["v"]) for ch in o["changed"]))
            if wn != gn:
                d.append(("status-writes", wn, gn))
        if lab["k"] in ("cmd",) and not st.get("loop_running"):
            wn = last_writes(e["writes"])
            gn = sorted(set((ch["h"], ch["name"] if ch["infolder"] else "", ch["v"]) for ch in o["changed"]))
            if wn != gn:
                d.append(("status-writes", wn, gn))
        if snap["cur"] != e["curSeq"]:
            d.append(("current_seq_no", e["curSeq"], snap["cur"]))
        if snap["tag"] != e["tag"]:
            d.append(("update.tag", e["tag"], snap["tag"]))
        gsvc = snap["svcs"][0]["h"] if snap["svcs"] else "none"
        if gsvc != e["svc"] or len(snap["svcs"]) > 1:
            d.append(("service", e["svc"], [s["h"] for s in snap["svcs"]]))
        if snap["installed"] != e["installed"]:
            d.append(("installed", e["installed"], snap["installed"]))
        owner = e["svc"] if e["svc"] != "none" else None
        if owner and snap["backup"][owner] != e["backup"] and lab["k"] == "iter":
            d.append(("backup", e["backup"], snap["backup"][owner]))
        if files != content_of(e) and not st.get("loop_running"):
            d.append(("status-files", sorted(content_of(e).items()), sorted(files.items())))
        if lab["k"] == "iter" and not lab.get("noop"):
            for h in HANDLERS:
                if e["hb"][h] != snap["hb"][h]:
                    d.append(("heartbeat", e["hb"], snap["hb"]))
                    break
        if d:
            diffs += [(i,) + x for x in d]
            break
    return diffs


def rows_of(init, obs):
    """ndjson rows for ExtHandlerTrace.tla from what was observed (inputs and observables only)"""
    rows = [{"e": "reset", "installed": init["installed"], "backup": "none"}]
    prev_seq = None
    for o in obs:
        k = o["k"]
        if o.get("noop"):
            continue
        if k == "cmd":
            rows.append({"e": "cmd", "h": o["h"], "c": o["c"], "seq": o["seq"], "exit": o["exit"],
                         "pre_tag": o["pre_tag"], "pre_seq": o["pre_seq"], "pre_svc": o["pre_svc"], "tag": o["tag"],
                         "cur": o["cur"][o["h"]], "has_status": o["has_status"],
                         "changed": [{"h": ch["h"], "name": ch["name"], "infolder": ch["infolder"], "v": ch["v"]}
                                     for ch in o["changed"]],
                         "nsvc": o["nsvc"], "svc_same": o["svc_same"], "svc": o["svc"], "setup": o["setup"],
                         "loop": bool(o["loop"])})
            if not o["svc_same"]:
                prev_seq = None
        elif k == "iter":
            seq = "" if o["seq_at_start"] == "absent" else o["seq_at_start"]
            rep = [ch["v"] for ch in o["changed"] if ch["h"] == o["h"] and ch["path"].endswith(".status")]
            if not rep:
                raise util.ToolError("an iteration of the real loop wrote no status file: %r" % o)
            rows.append({"e": "iter", "h": o["h"], "first": o["first"], "seq": seq,
                         "seq_changed": prev_seq is not None and seq != prev_seq,
                         "ok": o["agg_at_start"] == o["h"], "calls": o["calls"], "report": rep[-1],
                         "changed": [{"h": ch["h"], "name": ch["name"], "infolder": ch["infolder"], "v": ch["v"]}
                                     for ch in o["changed"]],
                         "installed": o["installed"], "backup": o["backup"]})
            prev_seq = seq
        elif k == "external":
            rows.append({"e": "external", "installed": o["installed"]})
        elif k == "crash":
            rows.append({"e": "crash"})
            prev_seq = None
    return rows


def make_cfg_without(inv_names):
    """a copy of spec/trace/ExtHandlerTrace.cfg (scratch) without the named invariants: used after a finding's
    invariant rejected a trace, to judge the rest of that trace against the other properties"""
    src = open(os.path.join(util.SPEC, "trace", "ExtHandlerTrace.cfg")).read().splitlines()
    out = [ln for ln in src if ln.strip() not in inv_names]
    d = os.path.join(util.BUILD, "x02cfg")
    os.makedirs(d, exist_ok=True)
    path = os.path.join(d, "ExtHandlerTrace_%d_%s.cfg" % (os.getpid(), _sha("".join(sorted(inv_names)).encode())[:6]))
    with open(path, "w") as f:
        f.write("\n".join(out) + "\n")
    return path


def validate(c, cfg, rows, name, timeout=600):
    """vlib.ctx.validate_trace with a metadir of its own (several validations run concurrently)"""
    path = os.path.join(util.TRACES, name + ".ndjson")
    util.write_ndjson(path, rows)
    res = c.tlc("ExtHandlerTrace", cfg, subdir="trace", workers=1, coverage=False, dfs_queue=True, env={"TRACE": path},
                timeout=timeout, heap="2g", expect_ok=False,
                metadir=os.path.join(util.BUILD, "tlc", "x02_%s_%d" % (name, os.getpid())))
    if res.invariant_violated:
        return False, "invariant " + res.invariant_violated, res
    if res.property_violated:
        return False, "property " + res.property_violated, res
    if res.postcondition_failed or "UNMATCHED" in res.stdout:
        m = [ln for ln in res.stdout.splitlines() if "UNMATCHED" in ln]
        return False, "trace not matched to its end " + (m[0] if m else ""), res
    if not res.ok:
        raise tlcmod.TlcError("trace validation tool error: %s" % res.error_lines[:3])
    return True, "", res


def judge(c, rows, name):
    """I->S on one trace.  Returns (list of finding invariants that rejected it, other rejection or '')."""
    found, tmp = [], []
    try:
        cfg = "ExtHandlerTrace.cfg"
        for _ in range(3):
            ok, why, res = validate(c, cfg, rows, name + ("_%d" % len(found)))
            if ok:
                return found, ""
            inv = why.replace("invariant ", "")
            if inv in FINDING_OF and inv not in found:
                found.append(inv)
                cfg = make_cfg_without(set(found))
                tmp.append(cfg)
                continue
            return found, why
        return found, ""
    finally:
        for p in tmp:
            try:
                os.unlink(p)
            except OSError:
                pass


def judge_many(c, items, threads=6):
    """judge() for several traces at once (one single-worker TLC each): items = [(key, rows, name)] -> {key: verdict}.
    Every thread works on a private context; the counters are folded into `c` afterwards."""
    from concurrent.futures import ThreadPoolExecutor
    from vlib.ctx import Ctx

    def one(it):
        sh = Ctx(c.prop, c.tier, c.seed)
        try:
            return it[0], judge(sh, it[1], it[2]), sh, None
        except Exception as ex:                          # re-raised in the caller's thread
            return it[0], None, sh, ex
    out = {}
    with ThreadPoolExecutor(max_workers=threads) as ex:
        for key, v, sh, err in ex.map(one, items):
            c.states += sh.states
            c.transitions += sh.transitions
            c.tlc_runs += sh.tlc_runs
            if err is not None:
                raise err
            out[key] = v
    return out


def describe_finding(kind, name, obs):
    if kind == "stray-status":
        stray = [ch["path"] for o in obs for ch in o.get("changed", []) if not ch["infolder"]]
        return ("status file written outside <statusFolder>/<seq>.status: after `reset` removed current_seq_no.txt while "
                "the service was running, monitor_thread read the empty sequence number and report_status wrote %s "
                "(get_file_path: PathBuf::push(\"\") + set_extension) [scenario %s]" % (sorted(set(stray)), name))
    return ("an install issued by the service loop is neither rolled back on Error nor purged on Success once the run has "
            "taken its first restore/purge decision (restored_in_error is set once and never cleared): a second "
            "backup+install happened after a sequence-number change and the loop reported a settled status without "
            "running restore/purge [scenario %s]" % name)


# ---------------------------------------------------------------------------------------------
def run(c):
    try:
        _run(c)
    finally:
        shutil.rmtree(SCRATCH, ignore_errors=True)


def _run(c):
    from checks import c17
    thorough = c.tier == "thorough"
    rnd = random.Random(c.seed)
    c.assumptions = ASSUME
    os.makedirs(SCRATCH, exist_ok=True)
    for tool in ("unshare", "mount"):
        if not shutil.which(tool):
            raise util.ToolError("%s not available" % tool)
    bindir = build.cargo_build("ext")
    setup_bin = c17.build_setup(release=True)

    # 0. function-level probe of common.rs (pub functions, explicit directories, no namespace needed): the
    #    sequence-number file protocol and the path a status file gets -- including the empty sequence number
    pd = os.path.join(SCRATCH, "fnprobe")
    os.makedirs(os.path.join(pd, "h"))
    q = [{"kind": "handler", "cmd": "fn", "op": "get_seq", "dir": os.path.join(pd, "h")},
         {"kind": "handler", "cmd": "fn", "op": "update_seq", "dir": os.path.join(pd, "h"), "seq": "7"},
         {"kind": "handler", "cmd": "fn", "op": "update_seq", "dir": os.path.join(pd, "h"), "seq": "7"},
         {"kind": "handler", "cmd": "fn", "op": "update_seq", "dir": os.path.join(pd, "h"), "seq": "3"},
         {"kind": "handler", "cmd": "fn", "op": "get_seq", "dir": os.path.join(pd, "h")},
         {"kind": "handler", "cmd": "fn", "op": "update_seq", "dir": os.path.join(pd, "missing"), "seq": "3"},
         {"kind": "handler", "cmd": "fn", "op": "file_path", "dir": os.path.join(pd, "h", "status"), "seq": "7"},
         {"kind": "handler", "cmd": "fn", "op": "file_path", "dir": os.path.join(pd, "h", "status"), "seq": ""}]
    pr = subprocess.run([os.path.join(bindir, "verif-ext")], input="\n".join(json.dumps(x) for x in q) + "\n",
                        stdout=subprocess.PIPE, stderr=subprocess.PIPE, text=True, timeout=60)
    if pr.returncode != 0:
        raise util.ToolError("verif-ext fn probe failed rc=%s: %s" % (pr.returncode, pr.stderr[-1500:]))
    a = [json.loads(x) for x in pr.stdout.splitlines() if x.strip()]
    want = [{"seq": ""}, {"ok": True, "report": True}, {"ok": True, "report": False}, {"ok": True, "report": True}, {"seq": "3"}]
    if a[:5] != want or a[5].get("ok") is not False:
        c.extra.setdefault("model_drift", []).append({"function_probe": a[:6], "expected": want})
    c.extra["function_probe"] = {
        "update_current_seq_no": "absent->7 report, 7->7 no report, 7->3 report (string comparison), missing directory -> Err",
        "get_file_path(status, '7')": os.path.relpath(a[6]["path"], pd), "get_file_path(status, '')": os.path.relpath(a[7]["path"], pd)}
    c.count("fn-probe", n=len(q))

    # 1. behaviours and scenarios from the specification
    sc = scenarios(thorough)
    exp_sc = gen_scripts(c, sc)
    enum_sets = [(1, 3), (2, 2)] if not thorough else [(1, 4), (2, 3)]
    enum = []
    for nh, n in enum_sets:
        for k, b in enumerate(gen_enum(c, n, nh)):
            enum.append({"id": "e%d-%d-%d" % (nh, n, k), "exp": b["steps"]})
    c.extra["generated_behaviours"] = {"H=%d,N=%d" % (nh, n): (7 * nh) ** n for nh, n in enum_sets}
    if not thorough and len(enum) > 560:
        enum = rnd.sample(enum, 560)

    # 2. start the real runs (they take wall time: the loop sleeps 15 s per iteration) ...
    workers = []
    for name in sorted(sc):
        inst, steps = sc[name]
        for rep in ("a", "b"):                      # every scenario twice, independently: a rejection must reproduce
            pool = SEQ_POOL[rnd.randrange(len(SEQ_POOL))]
            beh = {"id": "%s-%s" % (name, rep), "installed": inst, "steps": steps, "seqmap": {"1": pool[0], "2": pool[1]},
                   "no_service_exe": name == "spawn-fail"}
            workers.append((name, rep, start_worker("s-%s-%s" % (name, rep), bindir, setup_bin, [beh])))
    # unsupported OS: every command only reports Error for its number (no model expectation needed: the trace
    # specification's P_UnsupportedOs is the oracle)
    os_steps = [{"k": "cmd", "h": h, "c": cc, "seq": s} for h, cc, s in
                [("h1", "enable", "1"), ("h1", "update", "2"), ("h2", "uninstall", "1"), ("h1", "reset", "1"),
                 ("h2", "enable", "2"), ("h1", "disable", "1"), ("h1", "install", "2")]]
    w_os = start_worker("os", bindir, setup_bin, [{"id": "unsupported-os", "installed": "x0", "steps": os_steps,
                                                  "seqmap": {"1": "4", "2": "9"}, "os": "debian"}])
    nw = 10 if thorough else 6
    jobs = []
    for b in enum:
        pool = SEQ_POOL[rnd.randrange(len(SEQ_POOL))]
        jobs.append({"id": b["id"], "installed": "x0", "seqmap": {"1": pool[0], "2": pool[1]},
                     "steps": [{"k": "cmd", "h": s["step"]["h"], "c": s["step"]["c"], "seq": s["step"]["seq"]} for s in b["exp"]]})
    rnd.shuffle(jobs)
    w_enum = [start_worker("e%d" % k, bindir, setup_bin, jobs[k::nw]) for k in range(nw) if jobs[k::nw]]

    # 3. ... and meanwhile check the design exhaustively
    c.tlc("ExtHandler", "ExtHandler.cfg", workers=6, required_actions=ACTIONS, timeout=600, heap="8g")
    c.tlc("ExtHandler", "ExtHandler_update.cfg", workers=6, timeout=300,
          required_actions=["UpdTag", "UnCheck", "UnSetup", "EnUntag", "LInstall", "LDecide", "DisKill"])
    c.tlc("ExtHandler", "ExtHandler_os.cfg", workers=2, timeout=600, required_actions=["OsCheck"])
    model_findings = {}
    for cfg, inv, kind in (("ExtHandler_stray.cfg", "StatusOnlyInFolder", "stray-status"),
                           ("ExtHandler_latch.cfg", "RollbackCoversEveryInstall", "decision-latch")):
        res = c.tlc("ExtHandler", cfg, workers=4, timeout=300, coverage=False, expect_ok=False)
        if res.invariant_violated != inv:
            raise util.ToolError("%s: expected a counterexample to %s in the as-built model, got %s"
                                 % (cfg, inv, res.invariant_violated or "none"))
        model_findings[kind] = "counterexample of %d states to %s" % (len(re.findall(r"^State \d+:", res.stdout, re.M)), inv)
    c.extra["as_built_model_counterexamples"] = model_findings
    if thorough:
        c.tlc("ExtHandler", "ExtHandler_fixed.cfg", workers=6, timeout=600, heap="8g", required_actions=["LInstall", "LDecide"])
        c.extra["proposed_fix_model_checked"] = "ExtHandler_fixed.cfg: ResetDecisionOnInstall = TRUE satisfies RollbackCoversEveryInstall and every other property"

    # 4. collect: command sequences
    by_id = {b["id"]: b for b in enum}
    job_by_id = {j["id"]: j for j in jobs}
    observed = {}
    for w in w_enum:
        for r in finish_worker(w, 3000 if thorough else 600):
            observed[r["id"]] = r
    rows_all, drift, ncmd = [], [], 0
    suspects = []
    for bid in sorted(observed):
        r = observed[bid]
        ncmd += len(r["steps"])
        c.count(json.dumps([[(s["h"], s["c"], s["seq"]) for s in r["steps"]]]))
        diffs = compare(job_by_id[bid]["steps"], by_id[bid]["exp"], r["steps"])
        if diffs:
            suspects.append((bid, diffs))
        else:
            rows_all += rows_of(r["init"], r["steps"])
    c.count(n=ncmd)
    c.extra["replayed_command_sequences"] = len(observed)
    c.extra["replayed_commands"] = ncmd
    if rows_all:
        found, why = judge(c, rows_all, "x02_enum_all")
        if found or why:
            raise util.ToolError("model-conformant command sequences rejected by ExtHandlerTrace (%s %s): "
                                 "ExtHandler.tla and ExtHandlerTrace.tla disagree" % (found, why))
        c.traces_validated += len(observed) - len(suspects)
    # every divergence from the model is decided against the properties: in chunks first (one trace per chunk), then
    # the members of a rejected chunk one by one; a rejection must reproduce when the sequence is executed again
    rows_by = {bid: rows_of(observed[bid]["init"], observed[bid]["steps"]) for bid, _ in suspects}
    chunks = [suspects[i:i + 40] for i in range(0, len(suspects), 40)]
    res = judge_many(c, [(i, [r for bid, _ in ch for r in rows_by[bid]], "x02_divchunk%d" % i) for i, ch in enumerate(chunks)])
    rejected = []
    for i, ch in enumerate(chunks):
        if res[i] == ([], ""):
            c.traces_validated += len(ch)
            for bid, diffs in ch[:3]:
                drift.append({"cmds": [(s["h"], s["c"], s["seq"]) for s in observed[bid]["steps"]][:diffs[0][0] + 1],
                              "component": diffs[0][1], "expected": diffs[0][2], "got": diffs[0][3]})
        else:
            one = judge_many(c, [(bid, rows_by[bid], "x02_div_" + bid) for bid, _ in ch])
            for bid, diffs in ch:
                if one[bid] == ([], ""):
                    c.traces_validated += 1
                else:
                    rejected.append((bid, diffs, one[bid]))
    seen_sig = set()
    for bid, diffs, (found, why) in rejected:
        cmds = [(s["h"], s["c"], s["seq"]) for s in observed[bid]["steps"]]
        kind = FINDING_OF[found[0]] if found else "property"
        sig = {"kind": kind, "broken": why or found[0], "cmd": cmds[diffs[0][0]][1], "component": diffs[0][1]}
        key = json.dumps(sig, sort_keys=True)
        if key in seen_sig or len(seen_sig) >= 6:
            continue
        seen_sig.add(key)
        r2 = finish_worker(start_worker("again", bindir, setup_bin, [job_by_id[bid]]), 600)[0]
        found2, why2 = judge(c, rows_of(r2["init"], r2["steps"]), "x02_div2_" + bid)
        if (found2, why2) != (found, why):
            raise util.ToolError("unreproduced rejection of %s: %s %s then %s %s" % (bid, found, why, found2, why2))
        c.violation("handler command sequence %s diverges from ExtHandler.tla at command %d (%s: expected %r, got %r) and "
                    "is rejected by the trace specification: %s" % (cmds, diffs[0][0] + 1, diffs[0][1], diffs[0][2], diffs[0][3], why or found),
                    sig, {"mode": "enum", "beh": job_by_id[bid], "observed": r2["steps"]})
    c.extra["divergent_command_sequences"] = {"diverging_from_model": len(suspects), "rejected_by_properties": len(rejected)}

    # 5. collect: unsupported OS
    r = finish_worker(w_os, 300)[0]
    found, why = judge(c, rows_of(r["init"], r["steps"]), "x02_os")
    bad = [s for s in r["steps"] if s["exit"] != 6]
    if found or why or bad:
        c.violation("on an unsupported OS version a handler command did more than report Error for its own sequence "
                    "number (%s; exits %s)" % (why or found, [s["exit"] for s in r["steps"]]),
                    {"kind": "unsupported-os", "broken": why or "exit"}, {"mode": "os", "observed": r["steps"]})
    else:
        c.traces_validated += 1
        c.count("unsupported-os", n=len(r["steps"]))

    # 6. collect: the real service loop
    loop_obs = {}
    for name, rep, w in workers:
        loop_obs[(name, rep)] = finish_worker(w, 1200 if thorough else 240)[0]
    reported = {}
    judged = judge_many(c, [((name, rep), rows_of(loop_obs[(name, rep)]["init"], loop_obs[(name, rep)]["steps"]),
                             "x02_%s_%s" % (name, rep)) for name in sorted(sc) for rep in ("a", "b")])
    for name in sorted(sc):
        inst, steps = sc[name]
        verdicts = {}
        for rep in ("a", "b"):
            r = loop_obs[(name, rep)]
            st2, loop = [], False
            for s, o in zip(steps, r["steps"]):
                st2.append(dict(s, loop_running=loop))
                if o["k"] == "iter" and not o.get("noop"):
                    loop = True
                if o["k"] == "crash" or (o["k"] == "cmd" and o["c"] == "disable"):
                    loop = False
            diffs = compare(st2, exp_sc[name]["steps"], r["steps"])
            found, why = judged[(name, rep)]
            verdicts[rep] = (tuple(found), why, diffs)
            c.count(json.dumps([name, rep]), n=len(r["steps"]))
        (fa, wa, da), (fb, wb, db) = verdicts["a"], verdicts["b"]
        if (fa, wa) != (fb, wb):
            raise util.ToolError("scenario %s: the two executions were judged differently (%s %s / %s %s)" % (name, fa, wa, fb, wb))
        r = loop_obs[(name, "a")]
        iters = [o for o in r["steps"] if o["k"] == "iter" and not o.get("noop")]
        c.extra.setdefault("loop_scenarios", {})[name] = {
            "iterations": len(iters), "setup_calls": [o["calls"] for o in iters],
            "reports": [[ch["v"] for ch in o["changed"]][-1:] for o in iters],
            "verdict": [FINDING_OF[x] for x in fa] or (wa or "accepted"),
            "model_divergence": [list(x) for x in da[:2]]}
        if not fa and not wa:
            c.traces_validated += 2
            if da or db:
                dd = (da or db)[0]
                drift.append({"scenario": name, "step": dd[0], "component": dd[1], "expected": dd[2], "got": dd[3]})
        for inv in fa:
            kind = FINDING_OF[inv]
            if kind in reported:
                continue
            reported[kind] = name
            c.violation(describe_finding(kind, name, r["steps"]), {"kind": kind, "broken": inv},
                        {"mode": "script", "scenario": name, "installed": inst, "steps": steps,
                         "observed": [{k: v for k, v in o.items() if k != "snap"} for o in r["steps"]]})
        if wa:
            dd = da[0] if da else (len(steps) - 1, "?", None, None)
            c.violation("real service loop, scenario %s: rejected by the trace specification (%s); first divergence from "
                        "ExtHandler.tla at step %d (%s): expected %r, got %r" % (name, wa, dd[0] + 1, dd[1], dd[2], dd[3]),
                        {"kind": "property", "broken": wa, "component": dd[1]},
                        {"mode": "script", "scenario": name, "installed": inst, "steps": steps,
                         "observed": [{k: v for k, v in o.items() if k != "snap"} for o in r["steps"]]})
    # the scenarios must have exercised what they are for (anti-vacuity of the binding)
    ls = c.extra["loop_scenarios"]
    flat = lambda n: [x for it in ls[n]["setup_calls"] for x in it]           # noqa: E731
    need = [("upgrade-good", "purge"), ("upgrade-good", "install"), ("update", "install")]
    if thorough:
        need.append(("rollback", "restore"))
    other = [v for v in c.violations if v["signature"].get("kind") not in FINDING_OF.values()]
    for n, call in need:
        if call not in flat(n) and not other:
            raise util.ToolError("vacuity: scenario %s never reached `%s` (calls %s)" % (n, call, ls[n]["setup_calls"]))
    r = loop_obs[("upgrade-good", "a")]
    c.sample({"scenario": "upgrade-good", "steps": [
        {k: o.get(k) for k in ("k", "c", "seq", "exit", "calls", "setup", "first", "wall") if o.get(k) is not None}
        | {"status_written": [(ch["name"], ch["v"]) for ch in o.get("changed", [])]} for o in r["steps"]]})
    some = observed[sorted(observed)[0]]
    c.sample({"command_sequence": [{"h": s["h"], "c": s["c"], "seq": some["seqmap"].get(s["seq"]), "exit": s["exit"],
                                    "cur": s["cur"], "tag": s["tag"], "nsvc": s["nsvc"], "setup": s["setup"],
                                    "status_written": [(ch["path"], ch["v"]) for ch in s["changed"]]} for s in some["steps"]]})

    # 7. the trace specification binds: corrupted recordings must be rejected
    good = rows_of(loop_obs[("upgrade-good", "a")]["init"], loop_obs[("upgrade-good", "a")]["steps"])
    tests = []
    if judged[("upgrade-good", "a")] != ([], ""):
        good = []                   # the reference recording itself was rejected (reported above): nothing to corrupt
    ks = [i for i, x in enumerate(good) if x["e"] == "iter" and "purge" in x["calls"]]
    if good and ks:
        k = ks[0]
        bad = json.loads(json.dumps(good[:k + 1]))
        bad[k]["report"] = "transitioning"
        tests.append(("purge while Transitioning", bad, "P_RollbackOnError"))
        bad = json.loads(json.dumps(good[:2]))
        bad[1]["changed"] = bad[1]["changed"] + [{"h": "h1", "name": "2" if bad[1]["seq"] == "1" else "1", "infolder": True, "v": "transitioning"}]
        tests.append(("enable writes another number's status", bad, "P_StatusForCurrentSeq"))
        bad = json.loads(json.dumps(good[:2]))
        bad[1]["tag"] = True
        tests.append(("update.tag after enable", bad, "P_UpdateTagLifecycle"))
    res = judge_many(c, [(t[0], t[1], "x02_selftest%d" % i) for i, t in enumerate(tests)])
    for what, rows, inv in tests:
        found, why = res[what]
        if inv not in why:
            raise util.ToolError("self-test: corrupted recording (%s) was not rejected by %s (%s)" % (what, inv, why or found or "accepted"))
    c.extra["trace_spec_selftest"] = [t[0] + " -> " + t[2] for t in tests]

    if drift:
        c.extra["model_drift"] = drift[:10]
        util.log("model drift (properties hold): %s" % drift[:3])
    c.exhaustive = not drift and not c.violations and not suspects
    c.extra["not_bound"] = ("the decision functions of service_main.rs (restore_purge_proxyagent, "
                            "report_proxy_agent_aggregate_status, ...) are private: the service loop is bound as a whole "
                            "through the pub entry service_main::run() on the real clock (15 s per iteration); the "
                            "Error/restore path (20 failed observations, ~5 min) runs in the thorough tier only")
    c.rule = ("S->I: TLC prints every sequence of N handler commands (quick: N=3 on one handler directory and N=2 on two, "
              "seeded sample of 560; thorough: N=4 and N=3, all) and the behaviours following the scripted scenarios of "
              "the real service loop; each is executed on the real code (handler_main::program_start, one process per "
              "command; service_main::run() on the real clock; the real proxy_agent_setup) inside a private mount+pid "
              "namespace and exit code, current_seq_no.txt, status files (name, folder, value), update.tag, service "
              "processes, setup-tool calls, installed and backed-up agent version are compared with the model after "
              "every command / iteration; a divergence is a violation only if the property-level trace specification "
              "ExtHandlerTrace.tla rejects the observation (re-executed, must reproduce). I->S: all observations are "
              "validated by TLC against ExtHandlerTrace.tla. distinct = distinct command sequences + scenario runs")


def replay(c, path):
    """re-execute one saved behaviour / scenario and decide it again"""
    try:
        _replay(c, path)
    finally:
        shutil.rmtree(SCRATCH, ignore_errors=True)


def _replay(c, path):
    from checks import c17
    art = util.read_json(path)
    case = art["case"]
    c.assumptions = ASSUME
    os.makedirs(SCRATCH, exist_ok=True)
    bindir = build.cargo_build("ext")
    setup_bin = c17.build_setup(release=True)
    if case["mode"] == "enum":
        beh = case["beh"]
    elif case["mode"] == "script":
        beh = {"id": "replay", "installed": case["installed"], "steps": case["steps"], "seqmap": {"1": "1", "2": "2"},
               "no_service_exe": case.get("scenario") == "spawn-fail"}
    else:
        raise util.ToolError("replay of mode %r is not supported" % case["mode"])
    r = finish_worker(start_worker("replay", bindir, setup_bin, [beh]), 1500)[0]
    found, why = judge(c, rows_of(r["init"], r["steps"]), "x02_replay")
    c.count("replay", n=len(r["steps"]))
    if not found and not why:
        c.traces_validated += 1
        c.sample({"replay": "accepted"})
    for inv in found:
        c.violation(describe_finding(FINDING_OF[inv], case.get("scenario", "replay"), r["steps"]),
                    {"kind": FINDING_OF[inv], "broken": inv}, case)
    if why:
        c.violation("replay rejected by the trace specification: %s" % why, {"kind": "property", "broken": why}, case)
    c.rule = "re-execution of one saved behaviour on the real code, decided by ExtHandlerTrace.tla"
