"""C14 -- the proxy is transparent.  Design: spec/Relay.tla (Order / HostSeesInOrder / AllAnswered for two connections x
three pipelined requests, all interleavings).  Binding: seeded exchanges on concurrent keep-alive connections with
pipelining -- every method, header sets with repeated names and binary-safe values, request bodies 0 B..limit declared or
chunked at arbitrary chunk boundaries, response status/headers/bodies declared or chunked in arbitrary frames -- are
captured raw at the mock host and at the client socket, compared field by field (bodies by hash), and the per-exchange
facts plus the ordering are validated by TLC against spec/trace/RelayTrace.tla."""
import json
import random
import re

from checks import proxylib
from vlib import build, rig, tlc as tlcmod, util
from vlib.ctx import validate_trace

OWNED = set(proxylib.OWNED)
FRAMING = {"content-length", "transfer-encoding", "connection", "date", "keep-alive", "te", "trailer"}



def origin_form(target):
    """the origin-form of an absolute-form request target (same resource: RFC 9112 3.2.2); other targets unchanged"""
    if target.lower().startswith("http://"):
        rest = target[7:]
        k = rest.find("/")
        return rest[k:] if k >= 0 else "/"
    return target

def norm(headers, drop):
    """per-name ordered value lists of the headers whose lower-cased name is not in `drop`"""
    out = {}
    for n, v in headers:
        ln = n.lower()
        if ln in drop:
            continue
        out.setdefault(ln, []).append(v.strip())
    return out


def run(c):
    c.assumptions = proxylib.ASSUME[:4] + [
        "message-framing headers (content-length, transfer-encoding, connection) and Date may be regenerated on either leg; "
        "header names are compared case-insensitively, values byte-exactly after trimming optional whitespace",
        "each response body starts with a token naming the request it answers, so cross-talk is visible"]
    rnd = random.Random(c.seed)
    thorough = c.tier == "thorough"
    build.cargo_build("agent")
    res = c.tlc("Relay", "Relay.cfg", workers=4, timeout=300,
                required_actions=["ClientSend", "Take", "Forward", "HostRespond", "RelayResponse"])
    if res.violated:
        raise tlcmod.TlcError("Relay.tla: %s" % res.trace_text[:1500])
    nconn, nper = (8, 25) if not thorough else (16, 120)
    branches, meta = [], {}
    faults, aborts, after_close = [], [], []
    dests = [("168.63.129.16", 80, "ws"), ("169.254.169.254", 80, "imds"), ("168.63.129.16", 32526, "ga"), ("10.9.8.7", 8080, "other")]
    for ci in range(nconn):
        conn = "t%d" % ci
        dip, dport, dname = dests[ci % len(dests)]
        br = [{"op": "connect", "conn": conn, "attr": {"uid": 0, "admin": 1, "dip": dip, "dport": dport}}]
        k = 0
        while k < nper:
            burst = rnd.choice([1, 1, 2, 3])
            ids = []
            for _ in range(min(burst, nper - k)):
                k += 1
                rid = "%s_%d" % (conn, k)
                method = rnd.choice(["GET", "POST", "PUT", "DELETE", "PATCH", "OPTIONS", "HEAD"][:6])
                target = rnd.choice(["/a", "/machine/plugins?comp=x&y=%2F", "/metadata/instance?api-version=2021-02-01", "/UPPER/Case", "/p/" + rid,
                                     # two dots in the QUERY are data (a range, a version span, a file name), literally or percent-encoded
                                     "/blob/" + rid + "?range=0..4095", "/q?name=report..final.txt&tag=a%2E%2Eb", "/q?v=2.0.%2e3&x=%2e.",
                                     # absolute-form request targets (what a client configured with an http proxy sends), with a query
                                     "http://%s/abs/%s?api-version=2021-02-01&format=json" % (dip, rid),
                                     "http://%s/metadata/instance?api-version=2021-02-01" % dip])
                blen = 0 if method in ("GET", "OPTIONS") else rnd.choice([0, 1, 7, 1024, 65536, 102400])
                framing = "none" if blen == 0 and rnd.random() < 0.8 else rnd.choice(["cl", "chunked"])
                hs = [["Host", dip], ["X-Token", rid]]
                for j in range(rnd.randint(0, 4)):
                    hs.append([rnd.choice(["X-A", "x-a", "Accept", "X-Multi", "Cookie", "X-Bin"]), rnd.choice(["1", "two words", "café".encode("utf-8").decode("latin-1"), "a,b", "%41%42", "x" * 200])])
                rbody = rnd.choice([0, 1, 10, 4096, 70000, 300000] + ([2 << 20] if thorough else []))
                rfr = rnd.choice(["cl", "chunked", "chunked"])
                rhs = [["Content-Type", "application/octet-stream"], ["X-Host", rid], ["Set-Cookie", "a=1"], ["Set-Cookie", "b=2"],
                       ["X-Empty", ""]][:rnd.randint(1, 5)]
                status = rnd.choice([200, 200, 201, 202, 302, 400, 404, 500, 503])
                st = {"op": "send", "conn": conn, "id": rid, "method": method, "target": target, "headers": hs,
                      "body": {"seed": hash(rid) & 0xffff, "len": blen}, "framing": framing,
                      "chunks": [rnd.randint(1, max(1, blen)) for _ in range(rnd.randint(0, 4))],
                      "resp": {"status": status, "headers": rhs, "body": {"seed": (hash(rid) >> 3) & 0xffff, "len": rbody},
                               "framing": rfr, "frames": [rnd.randint(1, max(1, rbody)) for _ in range(rnd.randint(0, 4))]}}
                if rbody >= 4096 and rnd.random() < 0.25:
                    # a slowly streaming host: the body trickles out over ~0.3 s while the other connections to the same
                    # endpoint go on sending requests
                    st["resp"]["frames"] = [max(1, rbody // 12)] * 11
                    st["resp"]["gap_ms"] = 25
                meta[rid] = {"conn": conn, "k": k, "method": method, "target": target, "headers": hs, "blen": blen,
                             "bseed": st["body"]["seed"], "status": status, "rhs": rhs, "rlen": rbody, "rseed": st["resp"]["body"]["seed"],
                             "dest": dname}
                br.append(st)
                ids.append(rid)
            for rid in ids:
                br.append({"op": "recv", "conn": conn, "id": rid})
        # last on the connection: a host that reads the request and drops the connection without answering
        if ci % 2 == 0:
            rid = "%s_f" % conn
            br.append({"op": "request", "conn": conn, "id": rid, "method": rnd.choice(["POST", "PUT", "GET"]), "target": "/fault/" + rid,
                       "headers": [["Host", dip]], "body": {"seed": 3, "len": 40}, "framing": "cl", "resp": {"status": 200, "framing": "reset"}})
            faults.append(rid)
        elif ci % 4 == 1:
            # the host announces `Connection: close` on an answer and closes; the client may try the connection once more:
            # whatever answer it gets then must come from the host (a request the proxy does not relay is not transparency)
            rid, rid2 = "%s_hc" % conn, "%s_ac" % conn
            rhs = [["Content-Type", "text/plain"], ["X-Host", rid]]
            br.append({"op": "request", "conn": conn, "id": rid, "method": "GET", "target": "/closing/" + rid, "headers": [["Host", dip], ["X-Token", rid]],
                       "body": {"seed": 1, "len": 0}, "framing": "none",
                       "resp": {"status": 200, "headers": rhs, "body": {"seed": 77, "len": 2000}, "framing": "close"}})
            meta[rid] = {"conn": conn, "k": nper + 1, "method": "GET", "target": "/closing/" + rid, "headers": [["Host", dip], ["X-Token", rid]],
                         "blen": 0, "bseed": 1, "status": 200, "rhs": rhs, "rlen": 2000, "rseed": 77, "dest": dname}
            br.append({"op": "sleep", "ms": 50})
            br.append({"op": "request", "conn": conn, "id": rid2, "method": "GET", "target": "/afterclose/" + rid2, "headers": [["Host", dip]],
                       "body": {"seed": 1, "len": 0}, "framing": "none", "timeout_ms": 3000,
                       "resp": {"status": 201, "headers": [["X-Host", rid2]], "body": {"seed": 78, "len": 10}}})
            after_close.append(rid2)
        br.append({"op": "close", "conn": conn})
        branches.append(br)
        # a separate connection: an exempt upload abandoned in the middle of a chunk
        ab = "%s_ab" % conn
        branches.append([{"op": "connect", "conn": ab, "attr": {"uid": 0, "admin": 1, "dip": dip, "dport": dport}},
                         {"op": "send_partial", "conn": ab, "id": ab, "method": "PUT", "target": rnd.choice(["/vmAgentLog", "/VMAGENTLOG", "/upload/x"]),
                          "headers": [["Host", dip]], "body": {"seed": 5, "len": rnd.choice([64, 4096, 200000])}},
                         {"op": "close", "conn": ab}])
        aborts.append(ab)
    # many guest connections open at the same time (most of them idle): each is served, now and later
    nidle = 150 if not thorough else 400
    idle = []
    for phase in (1, 2):
        for ii in range(nidle):
            conn = "idle%d" % ii
            rid = "%s_%d" % (conn, phase)
            dip, dport, dname = dests[ii % 2]
            if phase == 1:
                idle.append({"op": "connect", "conn": conn, "attr": {"uid": 0, "admin": 1, "dip": dip, "dport": dport}, "timeout_ms": 4000})
            hs = [["Host", dip], ["X-Token", rid]]
            rhs = [["Content-Type", "text/plain"], ["X-Host", rid]]
            idle.append({"op": "request", "conn": conn, "id": rid, "method": "GET", "target": "/idle/" + rid, "headers": hs,
                         "body": {"seed": 1, "len": 0}, "framing": "none",
                         "resp": {"status": 200, "headers": rhs, "body": {"seed": ii, "len": 64}, "framing": "cl"}})
            meta[rid] = {"conn": conn, "k": phase, "method": "GET", "target": "/idle/" + rid, "headers": hs, "blen": 0, "bseed": 1,
                         "status": 200, "rhs": rhs, "rlen": 64, "rseed": ii, "dest": dname}
        if phase == 1:
            idle.append({"op": "sleep", "ms": 300})
    idle += [{"op": "close", "conn": "idle%d" % ii} for ii in range(nidle)]
    branches.append(idle)
    c.extra["simultaneously_open_connections"] = nidle + nconn
    # one-shot exchanges (the proxy is the side that closes): `Connection: close` from the client, a large answer, and a
    # client that reads late through a small receive buffer -- the tail of the body must still arrive
    for oi in range(3 if not thorough else 10):
        conn = "os%d" % oi
        rid = conn + "_1"
        dip, dport, dname = dests[oi % 2]
        rbody = rnd.choice([3 << 20, (3 << 20) + 12345, 1 << 20])
        hs = [["Host", dip], ["Connection", "close"], ["X-Token", rid]]
        rhs = [["Content-Type", "application/octet-stream"], ["X-Host", rid]]
        st = {"op": "request", "conn": conn, "id": rid, "method": "GET", "target": "/oneshot/" + rid, "headers": hs,
              "body": {"seed": 1, "len": 0}, "framing": "none", "read_delay_ms": 300, "timeout_ms": 60000,
              "resp": {"status": 200, "headers": rhs, "body": {"seed": (hash(rid) >> 3) & 0xffff, "len": rbody}, "framing": rnd.choice(["cl", "chunked"]),
                       "frames": []}}
        meta[rid] = {"conn": conn, "k": 1, "method": "GET", "target": "/oneshot/" + rid, "headers": hs, "blen": 0, "bseed": 1, "status": 200,
                     "rhs": rhs, "rlen": rbody, "rseed": st["resp"]["body"]["seed"], "dest": dname}
        branches.append([{"op": "connect", "conn": conn, "attr": {"uid": 0, "admin": 1, "dip": dip, "dport": dport}, "rcvbuf": 4096, "timeout_ms": 60000},
                         st, {"op": "close", "conn": conn}])
    c.extra["one_shot_slow_reader_exchanges"] = 3 if not thorough else 10
    # a host that answers correctly but late (the request waits for something on the host: 11.5 s until the response head);
    # the proxy has no timing of its own: that answer, and the next one on the same connection, are the host's
    for li in range(1 if not thorough else 3):
        conn = "late%d" % li
        dip, dport, dname = dests[li % 3]
        br = [{"op": "connect", "conn": conn, "attr": {"uid": 0, "admin": 1, "dip": dip, "dport": dport}, "timeout_ms": 90000}]
        for k_, (delay, rlen) in enumerate([(11500 + 4000 * li, 700), (0, 50)]):
            rid = "%s_%d" % (conn, k_ + 1)
            hs = [["Host", dip], ["X-Token", rid]]
            rhs = [["Content-Type", "text/plain"], ["X-Host", rid]]
            br.append({"op": "request", "conn": conn, "id": rid, "method": "POST" if k_ == 0 else "GET", "target": "/late/" + rid, "headers": hs,
                       "body": {"seed": 9, "len": 20 if k_ == 0 else 0}, "framing": "cl" if k_ == 0 else "none", "timeout_ms": 60000,
                       "resp": {"status": 200 + k_, "headers": rhs, "body": {"seed": 40 + k_, "len": rlen}, "framing": "cl", "delay_ms": delay}})
            meta[rid] = {"conn": conn, "k": k_ + 1, "method": "POST" if k_ == 0 else "GET", "target": "/late/" + rid, "headers": hs,
                         "blen": 20 if k_ == 0 else 0, "bseed": 9, "status": 200 + k_, "rhs": rhs, "rlen": rlen, "rseed": 40 + k_, "dest": dname}
        br.append({"op": "close", "conn": conn})
        branches.append(br)
    c.extra["late_answering_host_exchanges"] = 1 if not thorough else 3
    # large message heads (a big bearer token, a client assertion, cookies, a very long query): relayed like any other
    for hi, (hsize, where) in enumerate([(20000, "header"), (60000, "header"), (30000, "query"), (200000, "headers")] + ([(350000, "headers")] if thorough else [])):
        conn = "bighead%d" % hi
        rid = conn + "_1"
        dip, dport, dname = dests[hi % 3]
        hs = [["Host", dip], ["X-Token", rid]]
        target = "/big/" + rid
        if where == "header":
            hs.append(["Authorization", "Bearer " + "t" * hsize])
        elif where == "query":
            target += "?assertion=" + "q" * hsize
        else:
            hs += [["X-Part-%d" % j, "p" * 7900] for j in range(hsize // 8000)]
        rhs = [["Content-Type", "text/plain"], ["X-Host", rid]]
        branches.append([{"op": "connect", "conn": conn, "attr": {"uid": 0, "admin": 1, "dip": dip, "dport": dport}},
                         {"op": "request", "conn": conn, "id": rid, "method": "GET", "target": target, "headers": hs,
                          "body": {"seed": 1, "len": 0}, "framing": "none",
                          "resp": {"status": 200, "headers": rhs, "body": {"seed": 60 + hi, "len": 33}, "framing": "cl"}},
                         {"op": "close", "conn": conn}])
        meta[rid] = {"conn": conn, "k": 1, "method": "GET", "target": target, "headers": hs, "blen": 0, "bseed": 1, "status": 200,
                     "rhs": rhs, "rlen": 33, "rseed": 60 + hi, "dest": dname}
    c.extra["large_message_heads"] = "20 KB .. 200 KB"
    ev, d, _ = rig.run_rig({"steps": [{"op": "parallel", "branches": branches}], "drain_ms": 400}, "c14", timeout=900)
    recv_by_id, hseq, hconn_owner = {}, {}, {}
    for e in ev:
        if e["e"] == "HostRecv":
            hseq[e["hconn"]] = hseq.get(e["hconn"], 0) + 1
            e["_seq"] = hseq[e["hconn"]]
            recv_by_id.setdefault(e["id"], []).append(e)
    # which client connection does an upstream connection belong to: that of the first request seen on it
    for rid, lst in recv_by_id.items():
        for e in lst:
            hconn_owner.setdefault(e["hconn"], meta[rid]["conn"] if rid in meta else "?")
    rows = []
    per_conn_k = {}
    for e in ev:
        if e["e"] not in ("Response", "ResponseError"):
            continue
        asked = e["id"]                       # the request the client was waiting for (k-th on its connection)
        m = meta.get(asked)
        if m is None:
            continue
        per_conn_k[m["conn"]] = per_conn_k.get(m["conn"], 0) + 1
        row = {"e": "xchg", "conn": m["conn"], "k": per_conn_k[m["conn"]], "req": asked, "id": asked}
        if e["e"] == "ResponseError":
            row.update({"respFor": "none", "hostConnOf": "none", "hostSeq": 0, "reqLine": False, "reqBody": False,
                        "reqHeaders": False, "reqExtraOnlyOwned": False, "status": False, "respHeaders": False,
                        "marker": False, "respBody": False, "err": e.get("kind")})
            rows.append(row)
            continue
        # which request does this response answer? the host echoes it in X-Host
        xh = [v for n, v in e["headers"] if n.lower() == "x-host"]
        respfor = xh[0] if xh else asked if len(m["rhs"]) < 2 else "none"
        h = (recv_by_id.get(asked) or [None])[0]
        if h is None:
            row.update({"respFor": respfor, "hostConnOf": "none", "hostSeq": 0, "reqLine": False, "reqBody": False,
                        "reqHeaders": False, "reqExtraOnlyOwned": False})
        else:
            want = norm(m["headers"] + [["x-verif-id", asked]], OWNED | FRAMING)
            gotn = norm(h["headers"], OWNED | FRAMING)
            extra = {n for n, _ in h["headers"]} and {n.lower() for n, _ in h["headers"]} - {n.lower() for n, _ in m["headers"]} - {"x-verif-id"}
            row.update({"respFor": respfor, "hostConnOf": hconn_owner.get(h["hconn"], "?"), "hostSeq": h["_seq"],
                        "reqLine": h["method"] == m["method"] and h["target"] in (m["target"], origin_form(m["target"])) and len(recv_by_id[asked]) == 1,
                        "reqBody": h["bodyLen"] == m["blen"] and h["bodySha"] == util.sha(rig.gen_body(m["bseed"], m["blen"])),
                        "reqHeaders": want == gotn,
                        "reqExtraOnlyOwned": extra <= (OWNED | FRAMING)})
        rwant = norm(m["rhs"], FRAMING)
        rgot = norm(e["headers"], FRAMING | {"x-ms-azure-host-authorization"})
        marker = [v for n, v in e["headers"] if n.lower() == "x-ms-azure-host-authorization"]
        row.update({"status": e["status"] == m["status"], "respHeaders": rwant == rgot, "marker": len(marker) == 1,
                    "respBody": e["bodyLen"] == m["rlen"] and e["bodySha"] == util.sha(rig.gen_body(m["rseed"], m["rlen"]))})
        rows.append(row)
        c.count(asked)
    allrecv = {}
    for e in ev:
        if e["e"] == "HostRecv":
            allrecv.setdefault(e["id"], []).append(e)
    resp_by_id = {e["id"]: e for e in ev if e["e"] in ("Response", "ResponseError")}
    for rid in faults:
        r_ = resp_by_id.get(rid, {})
        rows.append({"e": "xfault", "id": rid, "hostCount": len(allrecv.get(rid, [])), "clientStatus": r_.get("status", 0) if r_.get("e") == "Response" else 0})
    for rid in aborts:
        rows.append({"e": "xabort", "id": rid, "hostComplete": len(allrecv.get(rid, [])) > 0})
    for rid in after_close:
        r_ = resp_by_id.get(rid, {})
        got = r_.get("e") == "Response"
        rows.append({"e": "xafter", "id": rid, "gotResponse": got, "fromHost": bool(got and allrecv.get(rid) and r_.get("status") == 201)})
    c.extra["requests_after_host_close"] = len(after_close)
    c.extra["host_fault_exchanges"] = len(faults)
    c.extra["abandoned_uploads"] = len(aborts)
    if len(rows) < len(meta):
        raise util.ToolError("only %d of %d exchanges observed" % (len(rows), len(meta)))
    c.sample({"exchange": rows[0], "request": {k: meta[rows[0]["req"]][k] for k in ("method", "target", "headers", "blen", "status", "rlen")}})
    ok, why, res = validate_trace(c, "RelayTrace", "RelayTrace.cfg", rows, "c14", count=len(rows), timeout=600)
    if not ok:
        ids = re.findall(r'id \|-> "([^"]+)"', res.trace_text)
        bad = next((r for r in rows if r["id"] == (ids[-1] if ids else None)), {})
        facts = sorted(k for k, v in bad.items() if v is False)
        c.violation("C14 broken on exchange %s: %s; failing facts %s; request %s" % (
            bad.get("id"), why, facts, json.dumps({k: meta.get(bad.get("id"), {}).get(k) for k in ("method", "target", "blen", "status", "rlen")})),
            {"broken": why.replace("invariant ", ""), "facts": facts}, {"exchange": bad, "request": meta.get(bad.get("id"))})
    c.rule = ("exchanges = seeded requests/responses on %d concurrent keep-alive connections with pipelining bursts; every "
              "exchange compared field by field at both ends; distinct = distinct exchanges" % nconn)


def replay(c, path):
    run(c)
