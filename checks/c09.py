"""C09 -- the agent's state converges to the host's latest secure-channel status.

 1. TLC, exhaustive: spec/KeyKeeper.tla (one action per host call / file-system call of loop_poll) with Converged,
    FailedPollChangesNothing (+ the C08 invariants, liveness in a smaller configuration without state constraint);
    KeyKeeper_rules adds rule documents with the empty id / a changed mode under the same id; two corner configurations
    show that the design in which rules are replaced only when the id changes breaks Converged on exactly those.
 2. S->I: scripted histories (seeded random + enumerated document transitions + the corner histories TLC found) are
    run through the specification by TLC (spec/gen/KeyKeeperGen: expected state at the end of every poll) and through
    the REAL key keeper in lock-step with the scripted host: the host withholds every reply, the arrival of the next
    status request is the barrier at which the projection is read and compared.
 3. I->S: every recorded run is validated by TLC against the statement (spec/trace/KeyKeeperTrace, property level).
    Only a clause of the statement failing there -- and failing again when the history is replayed -- is a violation;
    differences from the implementation-shaped spec that leave the statement intact are recorded as drift.
"""
import concurrent.futures
import json
import os
import random
import threading

from vlib import build, tlc as tlcmod, util
from vlib.ctx import validate_trace

from . import kklib as kk

ASSUME = [
    "TLC 1.8 + CommunityModules; KeyKeeper.tla transcribes loop_poll one host call / file-system call per action",
    "the reported channel state and the per-endpoint modes of a status document are what key.rs derives from it "
    "(version 1.0: modes follow secureChannelState and are never 'disabled'; 2.0: modes of the rule items, HostGA follows WireServer)",
    "a poll is 'answered consistently and without errors' when every request of it got a success answer and the host "
    "did not change its document or notify the agent during it",
    "the scripted host (Python, separate process, real endpoint address in a private netns) verifies attestation "
    "signatures independently with hmac/hashlib; the projection is read through the public getters of "
    "KeyKeeperSharedState, the key directory and the H3 redirect-policy events while the key keeper is parked on a "
    "withheld status request",
    "'signs nothing' is taken as 'holds no key' (the signing paths read the key through the same getters; C05/C10 bind them)",
    "crash inside the lock-step runs = abort of the task with a fresh SharedState (process kill points are C08's sweep)",
    "the poll interval is the constructor argument of KeyKeeper::new (1 ms here); the 1 s waits in the unknown state are real",
]

MC = [
    # (module, cfg, expect_violation, required actions)
    ("MC_KeyKeeper", "KeyKeeper.cfg", None,
     ["GetStatus", "UpdRuleId", "SetRules", "NeedKey", "FetchLocal", "UpdateKeyLocal", "Acquire", "StoreCreateTmp", "StoreWriteTmp",
      "StoreRename", "ReadBack", "Attest", "UpdateKeyMem", "UpdChannelState", "UpdPolicy", "ClearKey", "Sleep", "Reconfigure",
      "Rotate", "Relatch", "Crash", "Damage", "Restart"]),
    ("MC_KeyKeeper", "KeyKeeper_live.cfg", None, ["Attest", "Crash", "Restart"]),
    # rule documents with the empty id and documents that change their mode under the same id
    ("MC_KeyKeeper", "KeyKeeper_rules.cfg", None, ["UpdRuleId", "SetRules", "Reconfigure"]),
    # the design before the repair (rules replaced only when the id changes) must break the Rules clause on those
    ("MC_KeyKeeper", "KeyKeeper_emptyid.cfg", "Converged", None),
    ("MC_KeyKeeper", "KeyKeeper_sameid.cfg", "Converged", None),
    # ... and the design in which they are replaced when id or mode change breaks it when only the content changes
    ("MC_KeyKeeper", "KeyKeeper_samecontent.cfg", "Converged", None),
    # design variants: the state stored before the key step; the key in memory kept when the new one has a lower incarnation
    ("MC_KeyKeeper", "KeyKeeper_stateearly.cfg", "Converged", None),
    ("MC_KeyKeeper", "KeyKeeper_incarnation.cfg", "Converged", None),
]


def model_check_async(workers=8, skip=False):
    """run the exhaustive configurations in the background; fold() merges the results into the context"""
    out = {"res": [], "err": None}

    def work():
        try:
            for mod, cfg, expect, req in (MC[3:4] if skip else MC):
                res = tlcmod.run(mod, cfg, os.path.join(util.SPEC, "mc"), workers=workers, timeout=900, heap="8g",
                                 java_opts=["-DTLA-Library=" + util.SPEC])
                out["res"].append((mod, cfg, expect, req, res))
        except Exception as ex:     # re-raised on the main thread
            out["err"] = ex
    t = threading.Thread(target=work, daemon=True)
    t.start()
    return t, out


def fold(c, t, out):
    t.join()
    if out["err"] is not None:
        raise out["err"]
    for mod, cfg, expect, req, res in out["res"]:
        c.states += res.distinct
        c.transitions += res.generated
        for a, n in res.coverage.items():
            c.actions_covered[mod + "." + a] = c.actions_covered.get(mod + "." + a, 0) + n
        c.tlc_runs.append({"module": mod, "cfg": cfg, "distinct": res.distinct, "generated": res.generated, "depth": res.depth,
                           "wall_s": round(res.wall_s, 2), "ok": res.ok, "expected_violation": expect})
        if req:
            tlcmod.require_coverage(res, req, "%s/%s" % (mod, cfg))
        if expect is None:
            if res.violated or not res.ok:
                raise tlcmod.TlcError("design-level violation in %s: %s %s\n%s" % (
                    cfg, res.invariant_violated or res.property_violated, res.error_lines[:3], res.trace_text[:3000]))
        else:
            if res.invariant_violated not in (expect if isinstance(expect, (tuple, list)) else (expect,)):
                raise tlcmod.TlcError("%s was expected to violate %s without its assumption (anti-vacuity of the clause); got %s" % (
                    cfg, expect, res.invariant_violated or res.error_lines[:2] or "no violation"))
            c.extra.setdefault("corner_configs", {})[cfg] = "violates %s at depth %d (the design variant this configuration switches on)" % (res.invariant_violated, res.depth)


def make_scripts(c):
    rnd = random.Random(c.seed)
    thorough = c.tier == "thorough"
    scripts = []          # (kind, rows)
    for name, rows in kk.corner_histories(rnd).items():
        scripts.append(("corner:" + name, rows))
    docs = kk.interesting_docs()
    pairs = [(a, b) for a in docs for b in docs if a != b]
    rnd.shuffle(pairs)
    for a, b in pairs[:(len(pairs) if thorough else 40)]:
        scripts.append(("transition", kk.transition_history(a, b, rnd, rnd.choice(["fresh", "haskey"]))))
    for _ in range(1500 if thorough else 170):
        scripts.append(("random", kk.random_history(rnd)))
    return scripts


def execute(c, bindir, scripts, tag, workers=6):
    """run every script on the real code (several rigs in parallel, each its own namespace)
    -> list of (trace_rows, observations, samples) in script order"""
    results = [None] * len(scripts)
    chunks = [list(range(w, len(scripts), workers)) for w in range(workers)]

    def work(w):
        idx = chunks[w]
        if not idx:
            return
        rg = kk.Rig("c09_%s_%d_%d" % (tag, os.getpid(), w), bindir)
        try:
            for k in idx:
                try:
                    results[k] = kk.run_history(rg, scripts[k][1], k + 1)
                except kk.Drift as ex:
                    results[k] = ("protocol-drift", str(ex))
        finally:
            rg.close(keep=bool(os.environ.get("VERIF_KEEP")))
    with concurrent.futures.ThreadPoolExecutor(max_workers=workers) as ex:
        for f in [ex.submit(work, w) for w in range(workers)]:
            f.result()
    return results


def decide(c, results, name):
    """property-level trace validation of all recorded runs in one TLC run -> {run id: verdict}"""
    rows = []
    for r in results:
        if r and r[0] != "protocol-drift":
            rows += r[0]
    ok, why, res = validate_trace(c, "KeyKeeperTrace", "KeyKeeperTrace.cfg", rows, name, count=0, timeout=900, heap="4g")
    if not ok:
        raise tlcmod.TlcError("KeyKeeperTrace could not process the recorded runs: %s\n%s" % (why, res.trace_text[-1500:]))
    return {v["run"]: v for v in tlcmod.printed_json(res, "VERDICT")}


def classify(kind, trace_rows, verdict):
    """structural signature of a rejected run"""
    broken = sorted(verdict["viol"])
    polls = [r for r in trace_rows if r["e"] == "poll"]
    k = verdict.get("firstBad", 0)
    cls = "other"
    if broken and set(broken) <= {"Policy", "PolicyInForce"}:
        cls = "interception-not-applied-for-state-in-force"
    elif broken and set(broken) <= {"Key", "KeyValue"}:
        cls = "key-in-use-differs-from-latched"
    if 0 < k <= len(polls) and polls[k - 1].get("errdoc") and "FailedPollChangesNothing" in broken:
        return {"broken": broken, "kind": "error-status-with-valid-document-applied"}
    if 0 < k <= len(polls) and polls[k - 1].get("extras") and "State" in broken and "Rules" in broken:
        return {"broken": broken, "kind": "document-with-unknown-members-not-followed"}
    if 0 < k <= len(polls) and polls[k - 1].get("slow"):
        return {"broken": broken, "kind": "slow-status-answer-not-followed"}
    if 0 < k <= len(polls):
        r = polls[k - 1]
        for ep in kk.EPS:
            want, got = r["doc"]["rules"][ep], r["obs"]["rules"][ep]
            if want != got:
                if want["id"] == "" and want != kk.NOITEM:
                    cls = "empty-rule-id"
                elif got["id"] == "" and got != kk.NOITEM and want == kk.NOITEM:
                    cls = "empty-rule-id"
                elif want["id"] == got["id"] and want["mode"] != got["mode"]:
                    cls = "same-id-different-mode"
                elif want["id"] == got["id"] and want["mode"] == got["mode"] and want.get("c") != got.get("c"):
                    cls = "same-id-same-mode-different-content"
                break
    return {"broken": broken, "kind": cls}


def run(c):
    c.assumptions = ASSUME
    bindir = build.cargo_build("agent")
    t, out = model_check_async(skip=bool(os.environ.get("VERIF_KK_NOMC")))     # NOMC: mutation experiments only
    scripts = make_scripts(c)
    expects = kk.expectations(c, [s[1] for s in scripts], "c09_%d" % os.getpid())
    tm = util.Timer()
    results = execute(c, bindir, scripts, "a")
    util.log("C09: %d histories executed in lock-step in %ss" % (len(scripts), tm.s()))
    verdicts = decide(c, results, "c09_runs_%d" % os.getpid())

    drifts, npolls, compared = [], 0, 0
    for k, (kind, rows) in enumerate(scripts):
        r = results[k]
        c.count(json.dumps([x for x in kk.script_rows_for_tlc(rows)], sort_keys=True))
        if r[0] == "protocol-drift":
            drifts.append({"script": k + 1, "kind": kind, "what": r[1]})
            continue
        trace_rows, obs, samples = r
        prows = [x for x in rows if x["e"] == "poll"]
        if len(obs) != len(expects[k]):
            drifts.append({"script": k + 1, "kind": kind, "what": "polls spec=%d impl=%d" % (len(expects[k]), len(obs))})
        for j, (e, o) in enumerate(zip(expects[k], obs)):
            npolls += 1
            d = kk.compare(e, o, prows[j])
            if d:
                drifts.append({"script": k + 1, "kind": kind, "poll": j + 1, "diff": d[:6]})
            else:
                compared += 1
        c.traces_validated += 1
    c.extra["histories"] = {"total": len(scripts), "corner": sum(1 for s in scripts if s[0].startswith("corner")),
                            "transition": sum(1 for s in scripts if s[0] == "transition"),
                            "random": sum(1 for s in scripts if s[0] == "random")}
    c.extra["polls_executed"] = npolls
    c.extra["polls_equal_to_spec"] = compared
    c.evaluations = max(c.evaluations, npolls)
    first = next(r for r in results if r and r[0] != "protocol-drift")
    c.sample({"history": [{k: v for k, v in x.items() if k != "how"} for x in scripts[len(scripts) - 1][1]][:8],
              "host_log": first[2].get("host_log", [])[:8]})
    c.sample({"projection": first[2].get("last_projection", {}).get("mem")})

    # verdicts: a rejected run is replayed from its script; only a reproduced rejection is a violation
    bad = [k for k in range(len(scripts)) if verdicts.get(k + 1, {}).get("viol")]
    missing = [k + 1 for k in range(len(scripts)) if (k + 1) not in verdicts and results[k][0] != "protocol-drift"]
    if missing:
        raise util.ToolError("no verdict for runs %s" % missing[:5])
    rejected_scripts = set()
    seen = set()
    for k in bad:
        kind, rows = scripts[k]
        sig = classify(kind, results[k][0], verdicts[k + 1])
        key = json.dumps(sig, sort_keys=True)
        rejected_scripts.add(k + 1)
        if key in seen:
            c.violation("", sig)        # counted under the same signature
            continue
        seen.add(key)
        again = execute(c, bindir, [scripts[k]], "r%d" % k, workers=1)
        if again[0][0] == "protocol-drift":
            raise util.ToolError("replay of a rejected history drifted from the protocol: %s" % again[0][1])
        v2 = decide(c, again, "c09_replay_%d_%d" % (os.getpid(), k)).get(1, {})
        if sorted(v2.get("viol", [])) != sig["broken"]:
            c.extra.setdefault("unreproduced", []).append({"script": k + 1, "first": sig, "second": sorted(v2.get("viol", []))})
            raise util.ToolError("a rejected history (%s) did not reproduce from its script; not believed" % key)
        polls = [r for r in again[0][0] if r["e"] == "poll"]
        fb = v2.get("firstBad", 1)
        at = polls[fb - 1] if 0 < fb <= len(polls) else {}
        what = ("C09 clause(s) %s broken at the end of poll %d of a %s history: host document %s, latched %s; agent holds rules %s, key %s, "
                "state %s, policy updates %s" % (sig["broken"], fb, kind, json.dumps(at.get("doc")), at.get("latched"),
                                                 json.dumps(at.get("obs", {}).get("rules")), at.get("obs", {}).get("key"),
                                                 json.dumps(at.get("obs", {}).get("state")), json.dumps(at.get("pol"))))
        c.violation(what, sig, {"script": rows, "trace": again[0][0], "verdict": v2})
    # drift that is explained by a rejected run is the same finding; the rest is recorded, not alarmed
    other = [d for d in drifts if d["script"] not in rejected_scripts]
    c.extra["spec_vs_impl_drifts"] = len(other)
    if other:
        c.extra["model_drift_examples"] = other[:5]
    c.extra["rejected_runs"] = len(bad)
    fold(c, t, out)
    real_policy_map(c)
    if not c.violations:
        kk.cleanup_traces("c09_")
    c.exhaustive = False
    c.rule = ("histories = scripted sequences of host answers (documents of both protocol versions, enable/disable flips, rule "
              "documents replaced/removed per endpoint, key rotation, per-step failures of status/acquire/attest, mid-poll "
              "reconfiguration, notifications, restarts): the corner histories TLC finds, sampled ordered pairs of 12 "
              "documents, seeded random ones; each is executed by TLC on KeyKeeper.tla and in lock-step on the real key "
              "keeper; distinct = distinct scripts; every recorded run is decided by TLC against the statement. Real maps: "
              "the update_*_redirect_policy calls of every sequence of state changes (key keeper order) and of every sequence "
              "of 5 single calls on the tree's eBPF object loaded into the kernel, policy_map read back after each call "
              "(gen/PolicyMapGen, trace/PolicyMapTrace)")


def real_policy_map(c):
    """'interception follows the mode' down to the kernel: the lock-step runs above observe the CALLS of
    update_*_redirect_policy (hook H3); here the same calls -- every sequence of state changes in the key keeper's order
    (wireserver, imds, hostga; hostga follows wireserver) and every sequence of 5 single calls -- run on the REAL
    policy_map of the tree's eBPF object (BpfObject::from_ebpf_file, nothing attached) and the map is read back after
    every call (spec/gen/PolicyMapGen, spec/trace/PolicyMapTrace; checks/realmaps.py, shared with C06)."""
    from checks import realmaps
    c.assumptions = list(c.assumptions) + [realmaps.ASSUME]
    realmaps.policy_map_histories(c)


def replay(c, path):
    r = util.read_json(path)
    if (r.get("signature") or {}).get("kind") == "policy-map-not-what-was-instructed":
        c.assumptions = ASSUME
        return real_policy_map(c)
    c.assumptions = ASSUME
    bindir = build.cargo_build("agent")
    rows = r["case"]["script"]
    c.states = c.transitions = 1
    c.count("replay")
    c.count(json.dumps(kk.script_rows_for_tlc(rows), sort_keys=True))
    res = execute(c, bindir, [("replay", rows)], "rp", workers=1)
    v = decide(c, res, "c09_replayfile_%d" % os.getpid()).get(1, {})
    c.sample({"verdict": v})
    if v.get("viol"):
        c.violation("replayed history still violates C09: %s" % sorted(v["viol"]), r.get("signature"), r["case"])
