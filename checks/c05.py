"""C05 -- decided by the shared proxy pipeline (checks/proxylib.py): Proxy.tla/Authz.tla model checking, TLC-generated
scenarios replayed on the real ProxyServer, and TLC trace validation of every observed request against
spec/trace/ProxyTrace.tla with the C05 invariants.  The clause "the date is the proxy's current time" is also decided
on runs in which the machine's wall clock is stepped while the agent runs (spec/trace/StampTrace.tla)."""
import email.utils
import os

from checks import proxylib
from vlib import rig, util
from vlib.ctx import validate_trace

WALL_SHIM_C = r"""
#define _GNU_SOURCE
#include <time.h>
#include <stdint.h>
#include <stdlib.h>
#include <fcntl.h>
#include <unistd.h>
#include <sys/mman.h>
#include <sys/syscall.h>
/* CLOCK_REALTIME + the 8-byte little-endian number of seconds held in the file named by VERIF_CLOCK_FILE;
   CLOCK_MONOTONIC is left alone (a stepped wall clock) */
static volatile int64_t *off = 0;
static int tried = 0;
static void init(void) {
    tried = 1;
    const char *p = getenv("VERIF_CLOCK_FILE");
    if (!p) return;
    int fd = open(p, O_RDWR | O_CREAT, 0644);
    if (fd < 0) return;
    if (ftruncate(fd, 8) == 0) {
        void *m = mmap(0, 8, PROT_READ | PROT_WRITE, MAP_SHARED, fd, 0);
        if (m != MAP_FAILED) off = (volatile int64_t *)m;
    }
    close(fd);
}
int clock_gettime(clockid_t c, struct timespec *ts) {
    long r = syscall(SYS_clock_gettime, c, ts);
    if (r == 0 && (c == CLOCK_REALTIME || c == CLOCK_REALTIME_COARSE)) {
        if (!tried) init();
        if (off) ts->tv_sec += *off;
    }
    return (int)r;
}
"""


def build_wall_shim():
    d = os.path.join(util.RUNDIR, "c05shim")
    os.makedirs(d, exist_ok=True)
    src, so = os.path.join(d, "wallshim.c"), os.path.join(d, "wallshim.so")
    if not os.path.exists(so):
        with open(src, "w") as f:
            f.write(WALL_SHIM_C)
        util.sh(["gcc", "-O2", "-shared", "-fPIC", "-o", so, src], timeout=600)
    return so


def wall_clock_steps(c, prop="C05"):
    """The wall clock is stepped forwards and backwards between requests (relayed ones on old and new connections, and the
    agent's own calls to the host); every request the host receives carries exactly one date, the proxy's, reading the wall
    clock as it is THEN."""
    so = build_wall_shim()
    cf = os.path.join(util.RUNDIR, "c05shim", "offset_%d" % os.getpid())
    with open(cf, "wb") as f:
        f.write((0).to_bytes(8, "little"))
    root_ws = {"uid": 0, "admin": 1, "dip": "168.63.129.16", "dport": 80}
    user_imds = {"uid": 1000, "admin": 0, "dip": "169.254.169.254", "dport": 80}
    steps = [{"op": "set_key", "guid": proxylib.GUID, "key": proxylib.KEYHEX},
             {"op": "connect", "conn": "old", "attr": root_ws}]
    order = []

    def reqs(tag):
        st = [{"op": "request", "conn": "old", "id": "w%s_old" % tag, "method": "GET", "target": "/machine?comp=goalstate&w=%s" % tag,
               "headers": [["Host", "h"], ["x-ms-azure-host-date", "Thu, 01 Jan 2015 00:00:00 GMT"]]},
              {"op": "connect", "conn": "n" + tag, "attr": user_imds},
              {"op": "request", "conn": "n" + tag, "id": "w%s_new" % tag, "method": "GET", "target": "/metadata/instance?w=%s" % tag,
               "headers": [["Host", "h"], ["Metadata", "true"]]},
              {"op": "close", "conn": "n" + tag},
              {"op": "own_call", "kind": "goalstate", "tag": "w%s_own" % tag}, {"op": "sleep", "ms": 150}]
        order.extend(["w%s_old" % tag, "w%s_new" % tag])
        return st
    # before any clock step: every request method (TRACE, OPTIONS, HEAD ... included) is stamped alike; and hosts whose own
    # clock is off say so in the Date header of their responses -- the next requests still carry the proxy's time
    import time as _time
    for mi, method in enumerate(["TRACE", "OPTIONS", "DELETE", "PATCH", "HEAD", "PUT", "POST", "GET"]):
        rid = "wm%d" % mi
        skew = [-7200, 900, -86400, 0][mi % 4]
        steps.append({"op": "request", "conn": "old", "id": rid, "method": method, "target": "/machine?comp=method&m=%s" % method.lower(),
                      "headers": [["Host", "h"], ["x-ms-azure-host-claims", '{ "isRoot": "false"}']],
                      "body": {"seed": 3, "len": 9 if method in ("PUT", "POST", "PATCH") else 0}, "framing": "cl" if method in ("PUT", "POST", "PATCH") else "none",
                      "resp": {"status": 200, "headers": [["Date", email.utils.formatdate(_time.time() + skew, usegmt=True)], ["X-Host", rid]],
                               "body": {"seed": 1, "len": 0 if method == "HEAD" else 4}, "framing": "cl"}})
    # steady traffic: requests a quarter of a second apart for six seconds on one connection -- every one carries the time
    # at which it went through the proxy (a value formatted once and reused goes stale)
    for si in range(24):
        steps += [{"op": "request", "conn": "old", "id": "ws%d" % si, "method": "GET", "target": "/machine?comp=steady&n=%d" % si,
                   "headers": [["Host", "h"]]}, {"op": "sleep", "ms": 250}]
    offsets = [0, 7200, -86400 * 3, 35, 0]
    for k, off in enumerate(offsets):
        if k:
            steps.append({"op": "clock_step", "secs": off})
        steps += reqs(str(k))
    ev, d, _ = rig.run_rig({"steps": steps, "drain_ms": 200}, "wall_%s" % prop.lower(), timeout=300,
                           env_extra={"LD_PRELOAD": so, "VERIF_CLOCK_FILE": cf})
    cs = [e for e in ev if e["e"] == "ClockStep"]
    if len(cs) != len(offsets) - 1:
        raise util.ToolError("wall-clock scenario: %d clock steps recorded" % len(cs))
    prev = 0
    for e in cs:
        moved = (e["wall_after_ms"] - e["wall_before_ms"]) / 1000.0
        if abs(moved - (e["secs"] - prev)) > 2:
            raise util.ToolError("the wall-clock shim is not in effect (LD_PRELOAD): step %s moved the clock by %.1f s" % (e["secs"], moved))
        prev = e["secs"]
    t0 = None
    sent_at = {e["id"]: e["t"] for e in ev if e["e"] == "Request" and e.get("id") and e.get("t")}
    rows, nrecv = [], 0
    for e in ev:
        if e["e"] == "ClockStep":
            rows.append({"e": "step", "secs": e["secs"]})
        elif e["e"] == "HostRecv" and e.get("t"):
            hs = e.get("headers") or []
            dates = [v for n, v in hs if n.lower() == "x-ms-azure-host-date"]
            if t0 is None:
                t0 = e["t"] // 1000 - 400000          # keeps every number small and positive after the backward step
            stamp, parsed = 0, False
            if dates:
                try:
                    stamp, parsed = int(email.utils.parsedate_to_datetime(dates[0]).timestamp()) - t0, True
                except Exception:
                    pass
            nrecv += 1
            claims = [v for n, v in hs if n.lower() == "x-ms-azure-host-claims"]
            rows.append({"e": "recv", "id": e.get("id") or ("own:" + str(e.get("target"))), "wall": e["t"] // 1000 - t0, "dates": len(dates),
                         "claims": len(claims), "sent": (sent_at[e["id"]] // 1000 - t0) if e.get("id") in sent_at else -1,
                         "stamp": stamp, "parsed": parsed, "clientCopy": "Thu, 01 Jan 2015 00:00:00 GMT" in dates,
                         "own": not e.get("id")})
    if nrecv < 2 * len(offsets) + 8 + 20:
        raise util.ToolError("wall-clock scenario: the host received only %d requests" % nrecv)
    c.extra["wall_clock_steps"] = {"offsets": offsets, "requests_at_host": nrecv, "own_calls_at_host": sum(1 for r in rows if r.get("own"))}
    ok, why, res = validate_trace(c, "StampTrace", "StampTrace.cfg", rows, "stamp_%s" % prop, count=1, timeout=300)
    if not ok:
        bad = next((r for r in rows if r["e"] == "recv" and (r["dates"] != 1 or r["clientCopy"] or not r["parsed"] or (not r["own"] and r["claims"] != 1)
                                                             or not ((r["sent"] - 1 if r["sent"] >= 0 else r["wall"] - 20) <= r["stamp"] <= r["wall"] + 1))), None)
        c.violation("after the machine's wall clock was stepped the host receives a date that is not the proxy's current time: %s" % bad,
                    {"kind": "date-not-current-after-clock-step", "broken": why.replace("invariant ", "")}, {"rows": rows})


def run(c):
    proxylib.decide(c, "C05", relevant=lambda row: row['relayed'])
    wall_clock_steps(c)


def replay(c, path):
    proxylib.replay(c, "C05", path)
