HOOKS = {
    "guard": "azure_guestproxyagent_verif",
    "enable": "RUSTFLAGS='--cfg azure_guestproxyagent_verif' (set in harness/*/.cargo/config.toml; harness crates "
              "compile /repo's sources through symlinks)",
    "baseline_off_cmd": "cd /repo && cargo nextest run --workspace --no-fail-fast --tool-config-file "
                        "pb:/w/lib/nextest.toml --profile pb --test-threads 8 --offline",
    "source_commits": [],
    "add_only": True,
}

ENGINES = [
    {"name": "tlc", "path": "/verif/lib/vlib/tlc.py", "kind_free_text": "TLC 1.8 explicit-state model checker over spec/*.tla",
     "serves_properties": []},
    {"name": "harness-ext", "path": "/verif/harness/ext", "serves_properties": ["C20"],
     "kind_free_text": "cargo crate compiling /repo/proxy_agent_extension/src through symlinks; replays TLC graphs"},
]

NOTES = ("Every check: bin/check <id> --tier quick|thorough. TLA+ specs in spec/, exhaustive configs in spec/mc, "
         "generators in spec/gen, trace specs in spec/trace. Exit 2 = tool error (never a verdict).")

NOT_APPLICABLE = {}

CHECKS = {
    "C20": {
        "text": "TLC explores the complete reachable graph of the health automaton and the notification rate limiter "
                "at the real constants (20 / 10000 / 120) and checks C20's invariants in every state; every edge of "
                "both graphs is replayed on the real StatusState / ServiceState with the output compared after every "
                "step (transition cover = behavioural equivalence for a deterministic object), and seeded random "
                "histories recorded from the real objects are validated by TLC against the property-level trace specs.",
        "note": "Trusts TLC, the transcription of C20 into Health.tla/HealthRate.tla invariants, determinism of the two "
                "objects. The rate limiter's wiring constant MAX_STATE_COUNT is private; exercised at 120.",
        "technique": "TLA+ spec + TLC exhaustive model checking; spec->impl transition-cover replay; impl->spec trace validation",
        "design_ref": "DESIGN.md §3 Health.tla",
    },
}
