HOOKS = {
    "guard": "azure_guestproxyagent_verif",
    "enable": "RUSTFLAGS='--cfg azure_guestproxyagent_verif' (set in harness/*/.cargo/config.toml; harness crates "
              "compile /repo's sources through symlinks)",
    "baseline_off_cmd": "cd /repo && cargo nextest run --workspace --no-fail-fast --tool-config-file "
                        "pb:/w/lib/nextest.toml --profile pb --test-threads 8 --offline",
    "source_commits": ["e2ad724", "3a73802", "1c721a0", "41fe99d", "254b2fc", "88d9964"],
    "add_only": True,
}

ENGINES = [
    {"name": "tlc", "path": "/verif/lib/vlib/tlc.py", "kind_free_text": "TLC 1.8 explicit-state model checker over spec/*.tla",
     "serves_properties": []},
    {"name": "harness-agent", "path": "/verif/harness/agent", "serves_properties": ["C02", "C19", "C18", "C16"],
     "kind_free_text": "cargo crate compiling /repo/proxy_agent/src through symlinks with the verif cfg; drivers: "
                       "function tables, proxy rig (real ProxyServer + mock hosts in a netns), disk, ..."},
    {"name": "harness-ebpf", "path": "/verif/harness/ebpf", "serves_properties": ["C06"],
     "kind_free_text": "gcc build of the unmodified eBPF C program against shim headers + Rust codec built from ebpf_obj.rs"},
    {"name": "harness-ext", "path": "/verif/harness/ext", "serves_properties": ["C20"],
     "kind_free_text": "cargo crate compiling /repo/proxy_agent_extension/src through symlinks; replays TLC graphs"},
]

NOTES = ("Every check: bin/check <id> --tier quick|thorough. TLA+ specs in spec/, exhaustive configs in spec/mc, "
         "generators in spec/gen, trace specs in spec/trace. Exit 2 = tool error (never a verdict).")

NOT_APPLICABLE = {}

CHECKS = {
    "C06": {
        "text": "Ebpf.tla models the two kernel hook points (cgroup/connect4, kprobe tcp_connect) as separately "
                "interleavable steps of arbitrary threads over the four maps; TLC checks RedirectExactly, RecordTruth, "
                "NoRecordOtherwise, AgentUntouched exhaustively for 4 threads (uid != gid, pid != tid, the agent); "
                "TLC-generated behaviours are replayed step by step on a user-space build of the UNMODIFIED "
                "ebpf_cgroup.c/socket.h (gcc + shim helpers/maps), with policy/skip keys produced by the repo's Rust "
                "encoders and audit records decoded by the repo's Rust decoders, and seeded random runs (up to 200 "
                "connections in flight) are validated by TLC against the property-level trace spec.",
        "note": "BPF helper/map semantics are a user-space model after bpf-helpers(7) (strict LRU); verifier/JIT and a "
                "live kernel attach are not involved (CONFIG_KPROBES is off in the sandbox). x86-64 only.",
        "technique": "TLA+ spec + TLC model checking; spec->impl step replay on the compiled C program; impl->spec trace validation",
        "design_ref": "DESIGN.md §3 Ebpf.tla",
    },
    "C02": {
        "text": "TLC enumerates three complete small universes of (rule document, caller, URL) -- every privilege "
                "path/query shape, every grant-chain shape with dangling and duplicate names and absent sections -- "
                "evaluates the declared semantics (Rbac!Decision, written on sets and lower-cased values from the "
                "statement) and its algebra (permutation/case invariance, disabled allows, matched-not-granted denies, "
                "no-match gives default) on every case, and prints each case with the expected decision; the real "
                "serde -> from_authorization_item -> is_allowed path is evaluated on every case plus list permutations "
                "and upper-casings of rule side and request side. Any difference is a violation (classified "
                "structurally for known findings).",
        "note": "Trusts TLC and the transcription of the statement in Rbac.tla. Ambiguity of the statement for repeated "
                "query keys is resolved by accepting both readings. Universe bounded (<=2 of each list, pools of names).",
        "technique": "TLA+ declared-semantics spec; TLC exhaustive case enumeration; spec->impl function-table replay",
        "design_ref": "DESIGN.md §3 Rbac.tla",
    },
    "C19": {
        "text": "DiskBounds.tla models the rolling logger, the event directory cap and the rule-dump rotation in the "
                "shape of the code (stateless re-open per write, roll-before-append, oldest-first trimming) with "
                "pre-filled directories and restarts; TLC checks the count/size bounds after every step exhaustively "
                "for small constants; TLC-generated behaviours are replayed on the real RollingLogger / event_logger / "
                "write_all comparing the directory listing after every operation, and long random histories with the "
                "real constants are validated by TLC against the property-level trace spec.",
        "note": "One writer per log, wall clock monotone between rolls/dumps (oldest decided by name). Kill between "
                "system calls inside a roll is outside C19's quantifier (reported as coverage.crash_window).",
        "technique": "TLA+ spec + TLC model checking; spec->impl behaviour replay; impl->spec trace validation",
        "design_ref": "DESIGN.md §3 DiskBounds.tla",
    },
    "C20": {
        "text": "TLC explores the complete reachable graph of the health automaton and the notification rate limiter "
                "at the real constants (20 / 10000 / 120) and checks C20's invariants in every state; every edge of "
                "both graphs is replayed on the real StatusState / ServiceState with the output compared after every "
                "step (transition cover = behavioural equivalence for a deterministic object), and seeded random "
                "histories recorded from the real objects are validated by TLC against the property-level trace specs.",
        "note": "Trusts TLC, the transcription of C20 into Health.tla/HealthRate.tla invariants, determinism of the two "
                "objects. The rate limiter's wiring constant MAX_STATE_COUNT is private; exercised at 120.",
        "technique": "TLA+ spec + TLC exhaustive model checking; spec->impl transition-cover replay; impl->spec trace validation",
        "design_ref": "DESIGN.md §3 Health.tla",
    },
}
