HOOKS = {
    "guard": "azure_guestproxyagent_verif",
    "enable": "RUSTFLAGS='--cfg azure_guestproxyagent_verif' (set in harness/*/.cargo/config.toml; harness crates "
              "compile /repo's sources through symlinks)",
    "baseline_off_cmd": "cd /repo && cargo nextest run --workspace --no-fail-fast --tool-config-file "
                        "pb:/w/lib/nextest.toml --profile pb --test-threads 8 --offline",
    "source_commits": ["e2ad724", "3a73802", "1c721a0", "41fe99d", "254b2fc", "88d9964", "02f3736", "ae63f80", "37fb407", "d529db9", "9c909ef", "54043d1"],
    "add_only": True,
}

ENGINES = [
    {"name": "tlc", "path": "/verif/lib/vlib/tlc.py", "kind_free_text": "TLC 1.8 explicit-state model checker over spec/*.tla",
     "serves_properties": []},
    {"name": "harness-agent", "path": "/verif/harness/agent", "serves_properties": ["C01", "C02", "C03", "C04", "C05", "C06", "C07", "C08", "C09", "C10", "C11", "C12", "C13", "C14", "C15", "C16", "C18", "C19"],
     "kind_free_text": "cargo crate compiling /repo/proxy_agent/src through symlinks with the verif cfg; drivers: "
                       "function tables, proxy rig (real ProxyServer + mock hosts in a netns), disk, ..."},
    {"name": "harness-ebpf", "path": "/verif/harness/ebpf", "serves_properties": ["C03", "C06", "C07"],
     "kind_free_text": "gcc build of the unmodified eBPF C program against shim headers + Rust codec built from ebpf_obj.rs"},
    {"name": "harness-sys", "path": "/verif/harness/sys", "serves_properties": ["C17"],
     "kind_free_text": "mount-namespace wrapper (overlayfs per system directory, or chroot into one overlay of the whole root for the same-file-system layout), fake systemctl, stand-in agent; drives the real proxy_agent_setup"},
    {"name": "extra-specs", "path": "/verif/checks/x01_status.py", "serves_properties": [],
     "kind_free_text": "specification coverage beyond the 20 listed properties, same technique and contract: `bin/check X01_STATUS` "
                       "(Status.tla: agent status aggregation/publication, torn-snapshot and lost-add witnesses) and `bin/check "
                       "X02_EXTHANDLER` (ExtHandler.tla: extension handler commands and service loop composed with Health.tla and "
                       "Setup's contract); their findings are listed in known_findings.json under X02_EXTHANDLER"},
    {"name": "harness-ext", "path": "/verif/harness/ext", "serves_properties": ["C20"],
     "kind_free_text": "cargo crate compiling /repo/proxy_agent_extension/src through symlinks; replays TLC graphs; drives the monitor loop's report poll by poll (hook H8) in a private mount namespace"},
]

NOTES = ("Every check: bin/check <id> --tier quick|thorough. TLA+ specs in spec/, exhaustive configs in spec/mc, "
         "generators in spec/gen, trace specs in spec/trace. Exit 2 = tool error (never a verdict).")

NOT_APPLICABLE = {}

CHECKS = {
    "C08": {
        "text": "KeyKeeper.tla models loop_poll one host call / file-system call per action with Crash enabled in every control state (volatile state lost, disk and host kept); TLC checks LatchedIsRecoverable, NoCorruptFinalName, AttestOnlyAfterStoreAndReadBack, RestartUsesLocal, RenameOnlyComplete over 4 scenarios x <=2 crashes x <=3 host/storage faults (every step of the store and the read-back may fail once and heal; 0.7M states) and liveness under fairness; a design that carries an acquired key to the next poll and attests it without storing it again must break the latch clause. The real key keeper runs as a child process on a current-thread runtime under strace; for every scenario x host-fault plan (fresh latch, restart with key, rotation named/unnamed, unreadable local key; status/acquire/attest faults incl. 'host latched but reply lost'; transient storage faults: one create/write/rename/read-back call fails with an injected errno, the next poll finds the disk healthy) the child is killed before each system call on the key directory, a key file or the host socket, restarted on the same directory and host, and must authenticate with the latched key without a new key request; the scripted host (separate process) verifies MACs with Python hmac; both strace logs of every case plus the real directory and latch at exit are validated by TLC against KeyKeeperTraceFs.tla.",
        "note": "Crash = SIGKILL of the process (not power loss); kill points come from a baseline run per case (timer wake-ups shift a few); quick samples 1 in 6 of the tmp-file writes, thorough kills before every syscall.",
        "technique": "TLA+ spec with crash action + TLC model checking; exhaustive kill-point enumeration on the real process (strace inject); impl->spec trace validation of syscall logs",
        "design_ref": "DESIGN.md §3 KeyKeeper.tla (C08)",
    },
    "C09": {
        "text": "KeyKeeper.tla (protocol versions 1.0/2.0, enable/disable, rule documents per endpoint with ids incl. empty and unchanged ids, rotation, per-step host faults, restarts) is model-checked for Converged, FailedPollChangesNothing, NoKeyWhenDisabled (5M states) and liveness; the old rule-id-keyed design must violate Converged (anti-vacuity). Scripted and seeded histories are executed by TLC (expected state per poll) and in lock-step on the real KeyKeeper::poll_secure_channel_status against a scripted host that withholds every status reply (arrival of poll n+1 proves poll n finished), the projection being read through the public getters, the key directory and the H3 policy events; every run is decided by TLC against KeyKeeperTrace.tla. The agent's side of the policy runs on the REAL kernel map: the tree's eBPF object is compiled with clang -target bpf, loaded with BpfObject::from_ebpf_file (nothing attached, nothing pinned) and installed in RedirectorSharedState as start_internal does; every instruction history printed by PolicyMapGen.tla (every sequence of 5 update_*_redirect_policy calls; every sequence of secure-channel state changes in the key keeper's call order wireserver, imds, hostga with hostga following wireserver; a sample on a fresh object each, the rest chained) goes through the real async update_*_redirect_policy, policy_map is read back with raw bpf(2) after every call and compared with the set PolicyMap.tla lists (S->I); TLC judges the rows against PolicyMapTrace.tla (keys = exactly the (ip, port, TCP) of the endpoints whose last instruction was 'on', values = the proxy listener).",
        "note": "Hook H3 (trace event at the entry of the redirect-policy updates) in the lock-step runs; the effect of those calls on the kernel's policy_map is bound separately on a loaded BPF object (nothing attached). 'Signs nothing' when disabled is checked as 'holds no key'.",
        "technique": "TLA+ spec + TLC model checking (safety + liveness); lock-step spec->impl replay with a reply-withholding host; impl->spec trace validation",
        "design_ref": "DESIGN.md §3 KeyKeeper.tla (C09)",
    },
    "C12": {
        "text": "KeySecret.tla is a taint model of every flow of a value obtained from the host's key endpoint (key file, MACs, key-keeper status message -> logs/events/status.json/provision answers, signing errors -> connection log) with the key-directory steps; TLC checks NoLeak and AclBeforeFirstKeyFile for the design with withheld error texts and exhibits the leaking histories of the design that quotes the key. The real key keeper, proxy, status task, event logger and event reader run against a scripted mock WireServer issuing CANARY secrets through every history class of the model (latch, rotation, non-hex key, undeserialisable key reply, local fetch of a bad key, host errors, disable) while clients send proxied requests and /provision queries; every output (log, event, status, tag and rule-dump files, stdout/stderr, every client response, every host request) is scanned for every rendering of every canary and the key-directory system calls are read from strace; TLC validates the sink and fs events against KeySecretTrace.tla. Further: key readers/writers dropped before the actor answers (KeySecret!UndeliveredReply), key documents delivered with a status other than 200, and kill injection at the publishing renames with a private TMPDIR (key material may only be found inside the key directory: KeySecret!CrashDuringStore). Canaries are searched literally, as hex/base64 of the key bytes and as byte-value lists / hex dumps / base64 of the key TEXT; a key reply with a non-UTF-8 byte is part of the run; the key keeper is also started with a saturated, non-growing blocking pool (ACL before the first key file).",
        "note": "Absence is established for the histories of one scripted run covering the model's classes and for the sinks enumerated; /dev/console cannot be captured here.",
        "technique": "TLA+ taint spec + TLC model checking; canary-secret conformance run on the real tasks; strace ordering; impl->spec trace validation",
        "design_ref": "DESIGN.md §3 C12",
    },
    "C13": {
        "text": "RobustCut.tla defines the required truncation (total, whole characters, at most N bytes) and TLC enumerates every way up to 6 UTF-8 characters of widths 1-4 can straddle a byte cut; Robust.tla model-checks the service claim (every hostile input class leaves listener and tasks alive, every request answered - liveness). Each cut vector is padded to the real constants and fed to the real truncation sites (event message 4096, module status 1024); the connection-summary cut is reached through real caller processes whose command lines carry 2/3/4-byte characters at all four alignments; obs-text header values, repeated headers, very long URLs are sent to the real server; odd-length UTF-16, long non-ASCII and wrong-content-type replies are served to the real host clients; the log-line header is exercised 2*10^6 times. A process-wide panic hook records every panic; TLC validates the recorded input/outcome events against RobustTrace.tla (no panic, answered, follow-up probe served, status still published). Further: Robust.tla models handlers, actor replies, abandoning clients and the bounded event queue (the designs 'reply must be delivered' and 'evict then push' are told apart by TLC); every client call of every shared-state actor is polled once and dropped (the actor must go on answering); clients that go away with micro-second delays; 1100 requests fill the event queue, then 16 x 300 concurrent requests; every request-target form (CONNECT, OPTIONS *, absolute-form); rule documents with dangling names; replies to the agent's own calls that announce far more (near u64::MAX) than they deliver.",
        "note": "Inputs are the enumerated classes, not all byte strings; the clock-dependent log-header site is covered by repetition; Windows-only code not covered.",
        "technique": "TLA+ spec + TLC (cut-vector enumeration, service model with liveness); spec->impl replay of vectors and input classes; panic hook; impl->spec trace validation",
        "design_ref": "DESIGN.md §3 Robust.tla",
    },
    "C04": {
        "text": "Canon.tla defines the string to sign on byte sequences; TLC checks over a complete small universe (colliding keys a=bc/ab=c, repeated and mixed-case names, valueless keys, blanks) that it covers every header and every query parameter (Injective, Deterministic). Seeded adversarial requests go through the real proxy and through hyper_client::build_request; the request AS RECEIVED by the mock host is tokenised, TLC (CanonTrace) computes the canonical string, and HMAC-SHA256 with Python's hmac under the key registered for the announced id must equal the header's MAC; exactly one authorization header with the right scheme and key id on non-exempt requests, none added on exempt ones; builder route and parts route compared on the same request. Further: slow uploads (head, pause, body), key rotations while keep-alive connections stay open (MAC under the key latched when relayed), neighbours of the two exempt uploads,  requests whose key reply is held for 1.5 s at the H4 gate, own calls racing a key change (any further key lookup of one call is held while another key is latched: the MAC must be valid under the key the header names), uploads announcing Expect: 100-continue.",
        "note": 'Kernel audit map replaced by the cfg-guarded stand-in (hooks H1/H2); mock hosts in a private netns capture raw bytes.',
        "technique": "TLA+ canonicalisation spec + TLC (model checking and as canonicalisation oracle over captured requests); independent HMAC; spec->impl and impl->spec binding",
        "design_ref": "DESIGN.md §3 Canon.tla",
    },
    "C07": {
        "text": "SingleUse is model-checked on Proxy.tla with two connections and two ports (lookup and remove as separate steps, every interleaving, close/reopen); every 5-operation history over two connection slots and two source ports printed by SingleUseGen.tla (attributed/direct connects, keep-alive requests, close, immediate REAL source-port reuse) is replayed on the real ProxyServer, plus a concurrent stress run; TLC validates every observed request against SingleUseTrace.tla: relayed only to its own connection's recorded destination with its own identity in the claims header, unattributed connections (incl. reused ports without a fresh record) refused with 421. The kernel half of the statement (a later connection from a source port that still carries an earlier connection's unconsumed record gets its own record) is checked on the real eBPF C program with the directed port-reuse family of C06, judged by EbpfTrace.tla. Consumption is also checked on the REAL kernel audit_map (the tree's eBPF object loaded with BpfObject::from_ebpf_file, nothing attached, the stand-in off): rounds of a kernel-style record write, the real lookup_audit and remove_audit, and a raw probe, while three threads keep rewriting the redirect policy; after every round the record must be gone (PolicyMapTrace.tla P_ConsumedAbsent). The accept-time read-then-consume is also held at each of its suspension points (hook H9) for 0.45 / 1.3 s: afterwards the record is gone and a direct connection from that port is unattributed; the kernel side runs two threads of one process between the hooks in both orders.",
        "note": 'Kernel audit map replaced by the cfg-guarded stand-in (hooks H1/H2) for the agent side; the eBPF program runs in the user-space shim for the kernel side; mock hosts in a private netns capture raw bytes.',
        "technique": "TLA+ spec + TLC model checking; TLC-generated histories replayed with real port reuse; impl->spec trace validation",
        "design_ref": "DESIGN.md §3 Proxy.tla (C07)",
    },
    "C10": {
        "text": "KeyGen.tla (the key actions of Proxy.tla with a history variable) is model-checked in both designs: two actor messages (KeyPairing violated) and one message (holds). A probe using the H4 schedule gate as a counter determines how many key reads each of the four signers (proxied request, goal state, shared config, IMDS) performs; every interleaving TLC prints for that design is forced on the real code through the gate (signer parked at its second read while the keeper rotates/clears the key) and the mock host's capture is verified with an independent HMAC; a stress run (signers x rotating keeper) is validated by TLC against KeyPairTrace.tla (announced id = key that verifies the MAC, id was latched). Further: every authorization header VALUE the host receives is verified (requests that already carry a forged or replayed header), and the real key keeper re-latches against a host that still names a lost key while issuing a fresh one (attestation, own calls and proxied requests must name the key whose secret made the MAC); the signing helper is stressed concurrently with two keys; a keep-alive connection signs across rotations whose keys carry the same incarnation number; a second key is acquired and attested while one is latched.",
        "note": "Hook H4: schedule point at the entry of KeyKeeperSharedState::get_key/set_key. Independent canonicalisation + HMAC in lib/vlib/canon.py.",
        "technique": "TLA+ spec + TLC model checking of both designs; deterministic schedule replay through gates; impl->spec trace validation of a stress run",
        "design_ref": "DESIGN.md §3 Proxy.tla (C10)",
    },
    "C14": {
        "text": "Relay.tla (per-connection request queue, one request served at a time, one upstream connection behind a mutex, host responses) is model-checked for Order, HostSeesInOrder and AllAnswered (liveness) with two connections x three pipelined requests. Seeded exchanges on concurrent keep-alive connections with pipelining bursts (every method, repeated header names, binary-safe values, bodies 0..100 KiB declared or chunked at random boundaries, responses with random status/headers/bodies declared or chunked in random frames) are captured raw at both ends and compared field by field (bodies by SHA-256); TLC validates the per-exchange facts and the ordering against RelayTrace.tla. Further: host faults after the request was read (no duplicate delivery), uploads abandoned mid-chunk (not relayed as complete), slowly streaming responses under concurrent connections to one endpoint, one-shot exchanges read late through a small receive buffer, targets with two dots inside the query, a host that answers 11.5 s late followed by another request on that connection.",
        "note": 'Kernel audit map replaced by the cfg-guarded stand-in (hooks H1/H2); mock hosts in a private netns capture raw bytes. Framing headers and Date may be regenerated; names compared case-insensitively.',
        "technique": "TLA+ spec + TLC model checking (safety + liveness); raw-capture comparison at both ends; impl->spec trace validation",
        "design_ref": "DESIGN.md §3 Relay.tla",
    },
    "C01": {
        "text": "TLC checks Mediation/StatusMap/NothingLeaks on three factored exhaustive configurations of Proxy.tla; every terminal scenario of the single-connection model (attribution x identity x destination x rule mode x fault x key x request shape, ~13k) is concretised with seeded random traffic and replayed on the real ProxyServer; every observed request (client status, whether and what the host received, stray bytes on the upstream connection) is validated by TLC against ProxyTrace's P_C01_* invariants, which recompute authorization from the recorded inputs with Authz!Result and Rbac!Decision. Further: an identity-history scenario (a helper process exec()s another program between two connections; rules grant by executable path / process name) judged by RbacTrace.tla.",
        "note": 'Kernel audit map replaced by the cfg-guarded stand-in (hooks H1/H2); mock hosts in a private netns; one request per connection in this pipeline (keep-alive/reuse/concurrency: C07, C14); identity space = OS users root/daemon/bin/nobody and the harness process; rule documents are generated realisations of allow/deny, decided independently by Rbac.tla.',
        "technique": "TLA+ spec (Proxy.tla/Authz.tla/Rbac.tla) + TLC model checking; TLC-generated scenarios replayed on the real ProxyServer; impl->spec trace validation of every observed request",
        "design_ref": 'DESIGN.md §3 Proxy.tla',
    },
    "C03": {
        "text": "Authz.tla's RootOnly/NoSelfProxy hold over its whole domain (TLC); the shared proxy pipeline replays every scenario with non-elevated callers to WireServer/HostGAPlugin under every rule mode and decision and with the proxy's own address as recorded destination; TLC validates P_C03_RootOnly / P_C03_NoSelfProxy on every observed request (not relayed, zero upstream bytes, 403). Further: callers the kernel recorded as not elevated whose accounts are members of root / sudo / wheel / adm / Administrators (private /etc/group of the run) must be refused by both root-only endpoints while the elevated control is served; RootOnlyTrace.tla decides.",
        "note": 'Kernel audit map replaced by the cfg-guarded stand-in (hooks H1/H2); mock hosts in a private netns; one request per connection in this pipeline (keep-alive/reuse/concurrency: C07, C14); identity space = OS users root/daemon/bin/nobody and the harness process; rule documents are generated realisations of allow/deny, decided independently by Rbac.tla.',
        "technique": "TLA+ spec (Proxy.tla/Authz.tla/Rbac.tla) + TLC model checking; TLC-generated scenarios replayed on the real ProxyServer; impl->spec trace validation of every observed request",
        "design_ref": 'DESIGN.md §3 Proxy.tla',
    },
    "C05": {
        "text": "Proxy.tla's OwnedHeaders invariant is model-checked; scenarios carry 0-3 client copies of each owned header in random letter case; the raw header list captured at the mock host is reduced to a census (count of claims/date/authorization headers, whether the value is the proxy's, client copies surviving) and TLC validates P_C05_OwnedHeaders on every relayed request. The clause 'the date is the proxy's current time' is also decided on runs in which the wall clock is stepped forwards and backwards between requests (LD_PRELOAD CLOCK_REALTIME shim; StampTrace.tla P_C05_DateIsCurrent against the host's receipt time read from the same clock).",
        "note": 'Kernel audit map replaced by the cfg-guarded stand-in (hooks H1/H2); mock hosts in a private netns; one request per connection in this pipeline (keep-alive/reuse/concurrency: C07, C14); identity space = OS users root/daemon/bin/nobody and the harness process; rule documents are generated realisations of allow/deny, decided independently by Rbac.tla.',
        "technique": "TLA+ spec (Proxy.tla/Authz.tla/Rbac.tla) + TLC model checking; TLC-generated scenarios replayed on the real ProxyServer; impl->spec trace validation of every observed request",
        "design_ref": 'DESIGN.md §3 Proxy.tla',
    },
    "C11": {
        "text": "Authz.tla EnforceBlocks/AuditForwards/DisabledIgnoresRules and Proxy.tla Modes/DenialCountedStep are model-checked; the pipeline replays every rule mode x decision x endpoint x caller; TLC validates P_C11_* on every observation: enforce+deny => 403, nothing relayed; audit+deny => relayed intact with the host's status; disabled => rules not consulted; each denial => failed-summary delta exactly 1 under the caller's user/process/command line/destination (read through the agent-status getter before and after the request). Further: the real status task publishes every millisecond while denials are answered (each must be in the file written next), two callers with long command lines differing only near the end, 1000 pre-connected clients firing at once, and a deterministic recording burst on a single-threaded runtime (more than the status actor's mailbox holds); the status-file scenario is repeated with fileLogLevel Warn and Error (what is published does not depend on what is logged).",
        "note": 'Kernel audit map replaced by the cfg-guarded stand-in (hooks H1/H2); mock hosts in a private netns; one request per connection in this pipeline (keep-alive/reuse/concurrency: C07, C14); identity space = OS users root/daemon/bin/nobody and the harness process; rule documents are generated realisations of allow/deny, decided independently by Rbac.tla.',
        "technique": "TLA+ spec (Proxy.tla/Authz.tla/Rbac.tla) + TLC model checking; TLC-generated scenarios replayed on the real ProxyServer; impl->spec trace validation of every observed request",
        "design_ref": 'DESIGN.md §3 Proxy.tla',
    },
    "C15": {
        "text": 'Proxy.tla BodyLimit is model-checked; scenarios place bodies at limit-1/limit/limit+1 and beyond for both limit classes, declared (Content-Length, including a lying declaration above 100 MiB) or chunked, on exempt URLs in random letter case and near-miss non-exempt URLs; TLC validates P_C15_OverRefused (4xx, nothing relayed, zero stray bytes) and P_C15_WithinRelayed (relayed with the whole body, hash compared) on every observation. 100 MiB chunked bodies are sampled in the thorough tier only. Uploads (over the limit, exactly the limit) whose body is still arriving when their kept-alive connection is half a minute old are judged by LimitTrace.tla.',
        "note": 'Kernel audit map replaced by the cfg-guarded stand-in (hooks H1/H2); mock hosts in a private netns; one request per connection in this pipeline (keep-alive/reuse/concurrency: C07, C14); identity space = OS users root/daemon/bin/nobody and the harness process; rule documents are generated realisations of allow/deny, decided independently by Rbac.tla.',
        "technique": "TLA+ spec (Proxy.tla/Authz.tla/Rbac.tla) + TLC model checking; TLC-generated scenarios replayed on the real ProxyServer; impl->spec trace validation of every observed request",
        "design_ref": 'DESIGN.md §3 Proxy.tla',
    },
    "C16": {
        "text": "Provision.tla models every actor message of update/reset/timeup/query and the file steps of write_provision_state; TLC checks FinishedOnlyAfter, Answer, ErrorTextExact, QueryTruth, TagAtomic exhaustively; TLC-generated schedules (including every counterexample class found on the original design) are replayed on the real code through the H5 schedule gates and the real HTTP /provision endpoint, and random gated runs plus strace-delayed file races are validated by TLC against the property-level trace spec.",
        "note": "Schedules are forced with cfg-guarded gates at the entry of the provision actor's client calls; file-step interleavings rely on strace delay injection; no gate between get_state and the channel-state read. status.tag is looked at after every step by a reader that keeps the previously seen file open: same inode with different content, or a change readable through the old descriptor, is an in-place modification (TagInPlace); a status.tag that was seen once and is missing at a later look (also while the publisher is parked at a gate) is a non-atomic replacement (TagVanished). Directed sequential histories (deadline with two subsystems missing, query, one reports, query, ...) compare every error text with what had been reported at that moment without holding any query at a gate; a schedule on which a task neither parks nor returns within 2.5 s is abandoned and counted (stuck_runs), a tool error only if nothing could be replayed. The waiting client of `--status --wait` is a process of Provision.tla (WPoll: every poll names the instant of the first) and is driven for real: provision_query::ProvisionQuery polls the real listener through a capturing forwarder, the key keeper not serving the notification; every request must carry the tick the query was created with (WaitQueryInstant) and the value the client returns is judged by QueryTruth/QueryComplete for that instant. The error text (query answers and status.tag, xml-escaped there) is also exercised with module status messages of 900..1100 bytes, ASCII and multi-byte with the agent status cut inside a character, for every subset of not-ready subsystems; each line must be exactly the prefix plus the message as the agent status hands it out. Reachability of the listener is an environment dimension of the waiting client: the first k polls get no answer (connection dropped / refused until the port is bound) or nothing listens for the whole wait (QRefused / WRefused in Provision.tla; TLC rejects the design variant in which an unanswered poll makes the answer finished, mc/Provision_variant_l.cfg); the client may return finished only if the answer to one of its polls said so (WaitQueryUnanswered).",
        "technique": "TLA+ spec + TLC model checking; deterministic schedule replay through gates; impl->spec trace validation",
        "design_ref": "DESIGN.md §3 Provision.tla",
    },
    "C17": {
        "text": "Setup.tla models each setup command as the step sequence of the tool (stop, copies, unit, systemctl calls, backup deletion) with no bound on command sequences; TLC checks RoundTrip, StopBeforeReplace, InstallExact, RestoreNoBackupIsNoop, UninstallPackageRemoves, PurgeOnlyBackup, Frame on the whole graph; every generated behaviour (all 3-command sequences from all initial states plus a 4th command; thorough: all 4-command and sampled 5-command ones) is executed with the real release-built proxy_agent_setup in a private mount namespace (overlayfs over /etc,/usr,/var..., logging fake systemctl) comparing file hashes after every command, and the observations are validated by TLC against the trace spec. The file-system layout is an environment dimension (Setup.tla constant SameFs, lnk = backup file and live file are one inode): every behaviour is replayed twice, with the tool's folder on another mount than /etc and /usr (link/rename into the system directories fail with EXDEV) and chroot-ed into one overlay of the whole root with the tool's folder under /var/lib/waagent, where link(2) from Backup/Package into all four system directories is proven to succeed before any replay; TLC shows that the design's graph is the same for both values (BackupIsSeparate) and must reject the design variant 'backup by hard link + in-place overwrite' when SameFs (RoundTrip) while accepting it when every link fails. The wall clock is a second environment dimension (ClockSteps): the statement scenarios and a seeded tenth of the behaviours whose restore finds a backup are replayed once more per layout with the time stamps of every file of the tool's world moved between two commands (+3 min = clock stepped back, -8 days = a week later); expected contents are unchanged, and TLC must reject the variant 'restore refuses a backup that does not look at most 7 days old' when the clock can step while accepting it under a steady clock.",
        "note": "The fake systemctl always succeeds; ordering evidence comes from its call-time snapshots (strace on a seeded subset). Windows paths not covered. Mixed layouts (/etc and /usr on different file systems) are not run; overlayfs with a tmpfs upper layer stands for the VM's root file system.",
        "technique": "TLA+ spec + TLC model checking; exhaustive spec->impl replay on the real binary; impl->spec trace validation",
        "design_ref": "DESIGN.md §3 Setup.tla",
    },
    "C18": {
        "text": "Telemetry.tla follows process_events_and_clean/send_events/send_data_to_wire_server; TLC checks AtMostOneBatch, BatchBounded, OversizeDropped, NotBlocked, FilesRemoved and Terminates (liveness, weak fairness, every failure pattern); generated file sets and failure patterns are replayed into the real EventReader against mock hosts on the real endpoints (paused clock), every POSTed body is parsed with an independent XML parser (expat), sizes/batch membership/text integrity recovered, and the observed batch sequence is validated by TLC against the trace spec. Failure kinds: 503/500/400/429, reset, close; one case per kind of a host that fails every post for good (processing must still terminate and remove its files).",
        "note": "Envelope/per-event overhead calibrated from a real document; 'same batch retried' = byte-identical POST; failure kinds 4xx/5xx/reset/close.",
        "technique": "TLA+ spec + TLC model checking (safety + liveness); spec->impl replay; independent XML oracle; impl->spec trace validation",
        "design_ref": "DESIGN.md §3 Telemetry.tla",
    },
    "C06": {
        "text": "Ebpf.tla models the two kernel hook points (cgroup/connect4, kprobe tcp_connect) as separately "
                "interleavable steps of arbitrary threads over the four maps; TLC checks RedirectExactly, RecordTruth, "
                "NoRecordOtherwise, AgentUntouched exhaustively for 4 threads (uid != gid, pid != tid, the agent); "
                "the end of a connection (EndUnconsumed) is a step apart from the consumption of its record (Release), "
                "so records outlive connections and their source ports are handed out again (mc/EbpfLeft.cfg: a "
                "diverted connect must find its OWN record under a reused port, a connect that produces no record "
                "leaves a leftover untouched, the LRU map evicts only leftovers); "
                "TLC-generated behaviours are replayed step by step on a user-space build of the UNMODIFIED "
                "ebpf_cgroup.c/socket.h (gcc + shim helpers/maps), with policy/skip keys produced by the repo's Rust "
                "encoders and audit records decoded by the repo's Rust decoders, and seeded random runs (up to 200 "
                "connections in flight, connections ending unconsumed, port reuse) plus a directed family of "
                "port-reuse runs (leftover then diverted / unlisted / agent / fallback connect, LRU eviction of a "
                "leftover) are validated by TLC against the property-level trace spec."
                " The agent's side of the policy runs on the REAL kernel map: the tree's eBPF object is compiled with clang -target bpf, loaded with BpfObject::from_ebpf_file (nothing attached, nothing pinned) and installed in RedirectorSharedState as start_internal does; every instruction history printed by PolicyMapGen.tla (every sequence of 5 update_*_redirect_policy calls; every sequence of secure-channel state changes in the key keeper's call order wireserver, imds, hostga with hostga following wireserver; a sample on a fresh object each, the rest chained) goes through the real async update_*_redirect_policy, policy_map is read back with raw bpf(2) after every call and compared with the set PolicyMap.tla lists (S->I); TLC judges the rows against PolicyMapTrace.tla (keys = exactly the (ip, port, TCP) of the endpoints whose last instruction was 'on', values = the proxy listener). Start-up: Attach.tla models Redirector::start_impl/start_internal (a fresh object per attempt, AttachPublish(ok), AttachDivert(ok), DetachAll on failure, MAX_RETRIES, Close) with client connects between any two steps; TLC checks NeverDivertUnpublished (the diverting hook is never in force without the publishing hook) and that the design with the two attaches swapped violates it; the REAL Redirector::start and Redirector::attach_bpf_prog run on the tree's eBPF object under strace in a private mount namespace whose only cgroup is a private, empty one, and the attach/detach rows derived from the system-call log are judged by AttachTrace.tla. Scope of the diverting hook: CgroupScope.tla (a cgroup/connect4 program sees the cgroup it is attached to and its descendants; Resolve takes one entry of the namespace's cgroup2 mount table) is model-checked for EveryVisibleConnectDiverted / ScopeCoversMounts over every mount table of up to three mounts with the system mount first; the variant that takes the last mount must violate it; every such mount table is set up for real (private cgroups bind-mounted in a private mount namespace) and the real get_cgroup2_mount_path (+ configured fallback, as attach_bpf_prog composes them) resolves the attach directory; CgroupScopeTrace.tla judges that the target covers every mounted sub-tree.",
        "note": "BPF helper/map semantics are a user-space model after bpf-helpers(7) (strict LRU); verifier/JIT and a "
                "live kernel attach are not involved (CONFIG_KPROBES is off in the sandbox). x86-64 only. The real-map part binds the "
                "user-space half only (map updates and reads on live BPF hash maps); no program is attached.",
        "technique": "TLA+ spec + TLC model checking; spec->impl step replay on the compiled C program; impl->spec trace validation",
        "design_ref": "DESIGN.md §3 Ebpf.tla",
    },
    "C02": {
        "text": "TLC enumerates three complete small universes of (rule document, caller, URL) -- every privilege "
                "path/query shape, every grant-chain shape with dangling and duplicate names and absent sections -- "
                "evaluates the declared semantics (Rbac!Decision, written on sets and lower-cased values from the "
                "statement) and its algebra (permutation/case invariance, disabled allows, matched-not-granted denies, "
                "no-match gives default) on every case, and prints each case with the expected decision; the real "
                "serde -> from_authorization_item -> is_allowed path is evaluated on every case plus list permutations "
                "and upper-casings of rule side and request side. Any difference is a violation (classified "
                "structurally for known findings). Further: slices for repeated query keys in both orders and for identity attributes differing in letter case only; a listener slice (decisions observed on keep-alive connections across document changes and rules-lookup faults, judged by RbacTrace.tla from (document, caller, URL) alone) and an identity-history scenario (a helper exec()s another program between connections).",
        "note": "Trusts TLC and the transcription of the statement in Rbac.tla. Ambiguity of the statement for repeated "
                "query keys is resolved by accepting both readings. Universe bounded (<=2 of each list, pools of names).",
        "technique": "TLA+ declared-semantics spec; TLC exhaustive case enumeration; spec->impl function-table replay",
        "design_ref": "DESIGN.md §3 Rbac.tla",
    },
    "C19": {
        "text": "DiskBounds.tla models the rolling logger, the event directory cap and the rule-dump rotation in the "
                "shape of the code (stateless re-open per write, roll-before-append, oldest-first trimming) with "
                "pre-filled directories and restarts; TLC checks the count/size bounds after every step exhaustively "
                "for small constants; TLC-generated behaviours are replayed on the real RollingLogger / event_logger / "
                "write_all comparing the directory listing after every operation, and long random histories with the "
                "real constants are validated by TLC against the property-level trace spec. The model also has the "
                "event logger's graceful stop (stop flag -> queue closed -> last flush under the same cap check -> task "
                "ends; driver op ev_stop, push/stop/restart cycles over directories found full) and a rename fault of "
                "the environment (the roll fails, the write is refused, nothing grows; driver ops log_pin/log_unpin "
                "bind-mount the current log file onto itself in the driver's private mount namespace), both explored "
                "exhaustively, replayed, and validated on the real byte numbers. A run killed inside a roll (after the "
                "rename, before the removals are complete; real SIGKILL via strace injection at the unlink) and "
                "restarted is part of the verdict: the count may exceed the configured one by the number of such "
                "kills only until the next completed roll, and never after a completed roll. Rule-dump ids used by "
                "the check are deliberately not monotone. Event flushes may fail after creating their temp file "
                "(RLIMIT_FSIZE=0 in the driver): the cap bounds ALL entries of the event directory, counted from "
                "the raw listing. Directories are listed before and after the logger objects are created: a "
                "restart is an observed step (crash loops of short runs included). Two environment dimensions with "
                "the bounds unchanged: no room on the log file system at a roll (RLIMIT_FSIZE=0 around the write) "
                "and an unstat()able entry in the dump directory during rule-set changes (dangling symlink); the "
                "design variants copy + truncate roll and write-before-clean-up are witness configurations TLC "
                "must reject. A third: an entry of the log directory that cannot be stat()ed while a write rolls "
                "(what the other rolling logger of the folder does to this one; dangling link for the duration of "
                "the write); the listing-fails-as-a-whole design (the code before its repair, known finding "
                "C19-roll-listing-fails) is the witness TLC rejects.",
        "note": "One writer per log, wall clock monotone between rolls/dumps (oldest decided by name). Kill between "
                "system calls inside a roll is outside C19's quantifier (reported as coverage.crash_window). The "
                "rename fault is realised as EBUSY on a bind-mounted file; needs `unshare -m` (root).",
        "technique": "TLA+ spec + TLC model checking; spec->impl behaviour replay; impl->spec trace validation",
        "design_ref": "DESIGN.md §3 DiskBounds.tla",
    },
    "C20": {
        "text": "TLC explores the complete reachable graph of the health automaton and the notification rate limiter "
                "at the real constants (20 / 10000 / 120) and checks C20's invariants in every state; every edge of "
                "both graphs is replayed on the real StatusState / ServiceState with the output compared after every "
                "step (transition cover = behavioural equivalence for a deterministic object), and seeded random "
                "histories recorded from the real objects are validated by TLC against the property-level trace specs. "
                "The monitor loop's own report (service_main.rs report_proxy_agent_aggregate_status, hook H8) is driven "
                "poll by poll in a private mount namespace with the agent's status file refreshed / unchanged / missing / "
                "of another version / unreadable before each poll, and validated by the same trace spec. "
                "HealthLoop.tla puts the automaton into the loop (current sequence number, one <seq>.status document per "
                "number, the enable handler writing 'transitioning' into the new file on a sequence-number change); TLC checks "
                "that after every completed poll the file of the CURRENT number is that poll's report, and rejects the designs "
                "that skip the write while the report is unchanged (memo not keyed by the number; keyed, with two changes "
                "between polls). The REAL monitor_thread (hook H10) runs under tokio's paused clock next to a driver that "
                "rewrites / removes the agent's status file and performs the handler's sequence-number change between polls "
                "(directed, every 3-poll history over 9 step kinds, seeded random; ~800 histories quick); all <seq>.status "
                "files are read back after every poll and TLC decides them against HealthLoopTrace.tla (file of the current "
                "number = the loop's document carrying this poll's observation, its status obeying the hysteresis). "
                "Two environment dimensions are part of model and runs: a sequence-number change under a version mismatch "
                "(HealthLoop!Install: the stand-in setup tool's `install` exits 0 / non-zero / cannot be started; status.code is "
                "set, one failed observation is counted, and the report must still be the hysteresis value -- TLC rejects the "
                "design that reports error while the code is non-zero), and the status folder on the same / another file "
                "system than the process's temporary directory (TLC rejects write-to-temp-then-rename across file systems; a "
                "status file that is not there after a completed poll is an observation the trace spec rejects, a tool error "
                "only if the harness's own write probe into the folder fails).",
        "note": "Trusts TLC, the transcription of C20 into Health.tla/HealthRate.tla invariants, determinism of the two "
                "objects. The rate limiter's wiring constant MAX_STATE_COUNT is private; exercised at 120. The loop runs in "
                "harness/sys/ns_enter.sh (overlayfs over /usr /var /etc ...) with stand-ins for the setup tool and both agent "
                "executables (equal versions, so no install step); the clock between polls is tokio's paused clock.",
        "technique": "TLA+ spec + TLC exhaustive model checking; spec->impl transition-cover replay; impl->spec trace validation",
        "design_ref": "DESIGN.md §3 Health.tla",
    },
}
