"""The documented signing scheme, implemented independently of the repository (Python stdlib only):

  StringToSign = Method "\\n" Body "\\n" CanonicalizedHeaders Path "\\n" CanonicalizedParameters
  CanonicalizedHeaders: every header the host receives except the authorization header, sorted by lower-cased
      name (ties keep arrival order), each rendered  name ":" trim(value) "\\n"
  CanonicalizedParameters: every query parameter with a non-empty key, key lower-cased, sorted by (key, value),
      rendered key "=" value, or key alone when the value is empty, joined with "&"
MAC = hex(HMAC-SHA256(unhex(key), StringToSign))."""
import hashlib
import hmac

AUTH = "x-ms-azure-host-authorization"


def canonical_headers(headers):
    hs = [(n.lower(), v) for n, v in headers if n.lower() != AUTH]
    hs.sort(key=lambda x: x[0])
    return "".join("%s:%s\n" % (n, v.strip()) for n, v in hs)


def canonical_params(query):
    pairs = []
    for part in query.split("&") if query else []:
        k, _, v = part.partition("=")
        if k == "":
            continue
        pairs.append((k.lower(), v))
    pairs.sort()
    return "&".join(k + ("=" + v if v != "" else "") for k, v in pairs)


def string_to_sign(method, target, headers, body):
    path, _, query = target.partition("?")
    return (method.encode("latin-1") + b"\n" + body + b"\n" + canonical_headers(headers).encode("latin-1") +
            path.encode("latin-1") + b"\n" + canonical_params(query).encode("latin-1"))


def mac(key_hex, data):
    return hmac.new(bytes.fromhex(key_hex), data, hashlib.sha256).hexdigest()


def parse_auth(value):
    parts = value.split(" ")
    if len(parts) != 3:
        return None
    return {"scheme": parts[0], "guid": parts[1], "mac": parts[2]}


def verifying_key(auth_value, keys, method, target, headers, body):
    """keys: {guid: key_hex}; returns the guid whose secret verifies the MAC, or None"""
    a = parse_auth(auth_value)
    if a is None:
        return None
    sts = string_to_sign(method, target, headers, body)
    for g, k in keys.items():
        if hmac.compare_digest(mac(k, sts), a["mac"].lower()):
            return g
    return None
