"""Run the TLA+ proof system on a proof module under spec/proofs (unbounded safety of a small specification: the
inductive-invariant argument is checked by tlapm's back ends, not enumerated by TLC)."""
import os
import re
import shutil

from . import util


def prove(module, *, timeout=600, threads=4):
    """Returns {"obligations": n, "proved": bool, "wall_s": s}; a missing tool or a time-out is a ToolError."""
    if not shutil.which("tlapm"):
        raise util.ToolError("tlapm is not installed")
    src = os.path.join(util.VERIF, "spec", "proofs", module + ".tla")
    cache = os.path.join(util.RUNDIR, "tlaps_%s_%d" % (module, os.getpid()))
    os.makedirs(cache, exist_ok=True)
    t = util.Timer()
    p = util.sh(["timeout", str(timeout), "tlapm", "--threads", str(threads), "--cache-dir", cache,
                 "-I", os.path.join(util.VERIF, "spec"), src], cwd=os.path.dirname(src), timeout=timeout + 30, check=False)
    out = (p.stdout or "")
    shutil.rmtree(cache, ignore_errors=True)
    m = re.search(r"All (\d+) obligations? proved", out)
    if p.returncode == 124:
        raise util.ToolError("tlapm timed out on %s" % module)
    res = {"module": "spec/proofs/%s.tla" % module, "obligations": int(m.group(1)) if m else 0, "proved": bool(m), "wall_s": t.s()}
    if not m:
        res["output_tail"] = out[-1500:]
    util.log("tlapm %s: %s" % (module, "all %d obligations proved" % res["obligations"] if m else "NOT proved"))
    return res
