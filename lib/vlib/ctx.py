"""Per-run context: collects coverage numbers, samples, violations and writes evidence."""
import json
import os
import time

from . import evidence, findings, tlc, util


class Ctx:
    def __init__(self, prop, tier, seed):
        self.prop = prop
        self.tier = tier
        self.seed = seed
        self.t0 = time.time()
        self.level = "model_checking"
        self.states = 0
        self.transitions = 0
        self.traces_validated = 0
        self.evaluations = 0
        self.distinct = set()
        self.samples = []
        self.actions_covered = {}
        self.tlc_runs = []
        self.extra = {}
        self.assumptions = []
        self.violations = []      # dicts: {what, signature, replay}
        self.known = []           # (finding, violation)
        self.exhaustive = None
        self.rule = ""
        self.distinct_extra = 0

    # --- TLC -------------------------------------------------------------------------------
    def tlc(self, module, cfg, subdir="mc", required_actions=None, expect_ok=True, **kw):
        spec_dir = util.SPEC
        cfgp = cfg if os.path.isabs(cfg) else (os.path.join(subdir, cfg) if subdir else cfg)
        # module lives in spec/<subdir>/ if present there, else spec/
        mdir = spec_dir
        modpath = module
        if subdir and os.path.exists(os.path.join(spec_dir, subdir, module + ".tla")):
            mdir = os.path.join(spec_dir, subdir)
            cfgp = cfg
        env = kw.pop("env", {}) or {}
        java_opts = kw.pop("java_opts", []) or []
        # make spec/ visible to modules living in subdirectories
        java_opts = list(java_opts) + ["-DTLA-Library=" + spec_dir]
        util.log("TLC %s/%s %s" % (os.path.relpath(mdir, util.VERIF), module, cfgp))
        res = tlc.run(modpath, cfgp, mdir, env=env, java_opts=java_opts, **kw)
        self.states += res.distinct
        self.transitions += res.generated
        for a, n in res.coverage.items():
            self.actions_covered[module + "." + a] = self.actions_covered.get(module + "." + a, 0) + n
        self.tlc_runs.append({"module": module, "cfg": cfg, "distinct": res.distinct,
                              "generated": res.generated, "depth": res.depth,
                              "wall_s": round(res.wall_s, 2), "ok": res.ok})
        if required_actions:
            tlc.require_coverage(res, required_actions, "%s/%s" % (module, cfg))
        if expect_ok and not res.ok and not res.violated:
            raise tlc.TlcError("TLC reported errors: %s" % res.error_lines[:5])
        return res

    # --- cases -----------------------------------------------------------------------------
    def count(self, key=None, n=1):
        self.evaluations += n
        if key is not None:
            self.distinct.add(key if isinstance(key, (str, int, tuple)) else json.dumps(key, sort_keys=True))

    def sample(self, obj, limit=6):
        if len(self.samples) < limit:
            self.samples.append(obj)

    # --- verdicts --------------------------------------------------------------------------
    def violation(self, what, signature=None, replay_obj=None, replay_name=None):
        """Record a violation of this property.  signature: structural dict used to match known findings."""
        signature = signature or {}
        kf = findings.match(self.prop, signature)
        if kf is not None:
            if not any(k[0]["id"] == kf["id"] for k in self.known):
                self.known.append((kf, what))
            return False
        # de-duplicate by signature
        key = json.dumps(signature, sort_keys=True) if signature else what
        for v in self.violations:
            if v["key"] == key:
                v["count"] += 1
                return True
        name = replay_name or ("%s_%s_%d.json" % (self.prop, self.tier, len(self.violations)))
        path = os.path.join(util.REPLAYS, name)
        util.write_json(path, {"property": self.prop, "what": what, "signature": signature,
                               "seed": self.seed, "tier": self.tier, "case": replay_obj})
        self.violations.append({"key": key, "what": what, "signature": signature, "replay": path, "count": 1})
        return True

    def finish(self):
        wall = time.time() - self.t0
        cov = {
            "states": self.states,
            "transitions": self.transitions,
            "traces_validated_against_impl": self.traces_validated,
            "samples": self.samples if self.samples else [],
            "evaluations": self.evaluations,
            "distinct_nontrivial": len(self.distinct) + self.distinct_extra,
            "rule": self.rule,
            "actions_covered": self.actions_covered,
            "tlc_runs": self.tlc_runs,
            "known_findings_reported": [k[0]["id"] for k in self.known],
        }
        if self.exhaustive is not None:
            cov["exhaustive"] = bool(self.exhaustive)
        cov.update(self.extra)
        if self.violations:
            cov["violations_detail"] = [{"what": v["what"][:500], "signature": v["signature"],
                                         "replay": v["replay"], "count": v["count"]} for v in self.violations[:20]]
        evidence.write(self.prop, self.tier, self.seed, self.level, cov, round(wall, 2),
                       len(self.violations), self.assumptions)
        for kf, what in self.known:
            print("KNOWN-FINDING: property=%s %s [%s]" % (self.prop, kf.get("description", what), kf["id"]))
        for v in self.violations:
            util.log("violation: %s" % v["what"][:1000])
            print("VIOLATION property=%s replay=%s" % (self.prop, v["replay"]))
        return 1 if self.violations else 0


def _trace_path(name):
    d = util.TRACES
    os.makedirs(d, exist_ok=True)
    return os.path.join(d, name)


def validate_trace(c, module, cfg, rows, name, *, timeout=600, count=1, heap="2g", extra_env=None):
    """I->S: run the trace specification spec/trace/<module>.tla over the recorded events `rows`.
    Returns (accepted: bool, reason: str, TlcResult).  Rejected = an invariant of the specification failed in
    some state of the matched behaviour, or the trace could not be matched to its last line."""
    path = _trace_path(name + ".ndjson")
    util.write_ndjson(path, rows)
    env = {"TRACE": path}
    if extra_env:
        env.update(extra_env)
    res = c.tlc(module, cfg, subdir="trace", workers=1, coverage=False, dfs_queue=True, env=env,
                timeout=timeout, heap=heap, expect_ok=False)
    if res.invariant_violated:
        return False, "invariant " + res.invariant_violated, res
    if res.property_violated:
        return False, "property " + res.property_violated, res
    if res.postcondition_failed or "UNMATCHED" in res.stdout:
        m = [l for l in res.stdout.splitlines() if "UNMATCHED" in l]
        return False, "trace not matched to its end " + (m[0] if m else ""), res
    if not res.ok:
        raise tlc.TlcError("trace validation tool error: %s" % res.error_lines[:3])
    c.traces_validated += count
    return True, "", res
