import hashlib
import json
import os
import subprocess
import sys
import time

VERIF = os.path.dirname(os.path.dirname(os.path.dirname(os.path.abspath(__file__))))
REPO = os.environ.get("VERIF_REPO", "/repo")
BUILD = os.path.join(VERIF, ".build")
SPEC = os.path.join(VERIF, "spec")
REPLAYS = os.environ.get("VERIF_REPLAYS_DIR") or os.path.join(VERIF, "replays")
EVIDENCE = os.environ.get("VERIF_EVIDENCE_DIR") or os.path.join(VERIF, "evidence")   # seedtest redirects it
GUARD = "azure_guestproxyagent_verif"
# one scratch area per top-level invocation (inherited by worker processes), so that checks running at the same time --
# two properties sharing a driver, or the quick and thorough tier of one property -- never share run directories or traces
_TOP = "VERIF_RUNID" not in os.environ
RUNID = os.environ.setdefault("VERIF_RUNID", "r%d" % os.getpid())
RUNDIR = os.path.join(BUILD, "run", RUNID)
TRACES = os.path.join(BUILD, "traces", RUNID)


def cleanup_scratch():
    """remove this invocation's scratch (called by bin/check after a passing run)"""
    import shutil
    if _TOP:
        shutil.rmtree(RUNDIR, ignore_errors=True)
        shutil.rmtree(TRACES, ignore_errors=True)


class ToolError(Exception):
    """Something in the machinery failed (build, timeout, harness crash): exit 2, never a verdict."""


def log(*a):
    print("[check]", *a, file=sys.stderr, flush=True)


def ensure_dirs():
    for d in (BUILD, REPLAYS, EVIDENCE):
        os.makedirs(d, exist_ok=True)


def sh(cmd, *, cwd=None, env=None, timeout=None, check=True, capture=True, input=None):
    e = dict(os.environ)
    if env:
        e.update({k: str(v) for k, v in env.items()})
    try:
        p = subprocess.run(cmd, cwd=cwd, env=e, timeout=timeout, shell=isinstance(cmd, str),
                           stdout=subprocess.PIPE if capture else None,
                           stderr=subprocess.STDOUT if capture else None, text=True, errors="replace",
                           input=input)
    except subprocess.TimeoutExpired:
        raise ToolError("timeout after %ss: %s" % (timeout, cmd))
    if check and p.returncode != 0:
        raise ToolError("command failed rc=%s: %s\n%s" % (p.returncode, cmd, (p.stdout or "")[-4000:]))
    return p


def write_json(path, obj):
    os.makedirs(os.path.dirname(path), exist_ok=True)
    tmp = path + ".tmp%d" % os.getpid()
    with open(tmp, "w") as f:
        json.dump(obj, f, indent=1, sort_keys=False)
        f.write("\n")
    os.replace(tmp, path)


def read_json(path):
    with open(path) as f:
        return json.load(f)


def read_ndjson(path):
    out = []
    with open(path) as f:
        for line in f:
            line = line.strip()
            if line:
                out.append(json.loads(line))
    return out


def write_ndjson(path, rows):
    os.makedirs(os.path.dirname(path), exist_ok=True)
    with open(path, "w") as f:
        for r in rows:
            f.write(json.dumps(r, separators=(",", ":")))
            f.write("\n")


def sha(s):
    if isinstance(s, str):
        s = s.encode()
    return hashlib.sha256(s).hexdigest()


def repo_tree_hash():
    """Content hash of /repo's working tree sources (tracked + untracked, minus target)."""
    p = sh("git -C %s ls-files -co --exclude-standard -z" % REPO, capture=True)
    h = hashlib.sha256()
    for name in sorted(p.stdout.split("\0")):
        if not name or name.startswith("target/"):
            continue
        fp = os.path.join(REPO, name)
        try:
            with open(fp, "rb") as f:
                h.update(name.encode())
                h.update(b"\0")
                h.update(f.read())
        except (IsADirectoryError, FileNotFoundError):
            pass
    return h.hexdigest()


class Timer:
    def __init__(self):
        self.t0 = time.time()

    def s(self):
        return round(time.time() - self.t0, 2)
