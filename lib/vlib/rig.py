"""Run the agent harness (`verif-agent`) in a private network namespace with the metadata endpoints on lo."""
import json
import os
import shutil
import subprocess

from . import build, util

HOSTS = [
    {"name": "ws", "addr": "168.63.129.16:80"},
    {"name": "ga", "addr": "168.63.129.16:32526"},
    {"name": "imds", "addr": "169.254.169.254:80"},
    {"name": "other", "addr": "10.9.8.7:8080"},
]
DEST = {
    "ws": ("168.63.129.16", 80), "ga": ("168.63.129.16", 32526), "imds": ("169.254.169.254", 80),
    "other": ("10.9.8.7", 8080), "self": ("127.0.0.1", 3080),
}
NS_SETUP = ("ip link set lo up && ip addr add 168.63.129.16/32 dev lo && ip addr add 169.254.169.254/32 dev lo "
            "&& ip addr add 10.9.8.7/32 dev lo")
# A key keeper that has been running for a minute starts the agent's status task, which writes below the fixed path
# /var/log/azure-proxy-agent: every rig process therefore also gets a private mount namespace with an empty /var/log.
NS = ["unshare", "-n", "-m", "--propagation", "private"]
NS_SETUP_PRIVATE = NS_SETUP + " && mount -t tmpfs tmpfs /var/log"


def gen_body(seed, n):
    return bytes(((i * 131 + seed * 17 + (i >> 10)) & 0xff) for i in range(n))


def run_dir(name):
    d = os.path.join(util.RUNDIR, name)
    shutil.rmtree(d, ignore_errors=True)
    os.makedirs(d)
    return d


def prepare(name, bindir=None, poll_secs=1, exe="verif-agent", config_extra=None):
    """Per-run directory with a hard link of the harness executable and its own proxy-agent.json."""
    bindir = bindir or build.bindir("agent")
    d = run_dir(name)
    dst = os.path.join(d, exe)
    try:
        os.link(os.path.join(bindir, exe), dst)
    except OSError:
        shutil.copy(os.path.join(bindir, exe), dst)
    cfg = {
        "logFolder": os.path.join(d, "logs"),
        "eventFolder": os.path.join(d, "logs", "events"),
        "latchKeyFolder": os.path.join(d, "keys"),
        "monitorIntervalInSeconds": 1,
        "pollKeyStatusIntervalInSeconds": poll_secs,
        "hostGAPluginSupport": 1,
        "ebpfProgramName": "ebpf_cgroup.o",
        "cgroupRoot": "/sys/fs/cgroup",
        "fileLogLevel": "Trace",
    }
    cfg.update(config_extra or {})          # e.g. fileLogLevel: what the operator put into GuestProxyAgent.json
    util.write_json(os.path.join(d, "proxy-agent.json"), cfg)
    return d, dst


def run_rig(script, name, *, timeout=300, bindir=None, strace=None, keep_output=False, env_extra=None):
    """Execute one script; returns (events, returncode, stdout+stderr tail)."""
    script = dict(script)
    etc_group = script.pop("etc_group", None)
    d, exe = prepare(name, bindir, config_extra=script.pop("agent_config", None))
    script.setdefault("hosts", HOSTS)
    script.setdefault("proxy_port", 3080)
    sp = os.path.join(d, "script.json")
    out = os.path.join(d, "trace.ndjson")
    with open(sp, "w") as f:
        json.dump(script, f)
    env = dict(os.environ, VERIF_CMD="rig", VERIF_SCRIPT=sp, VERIF_OUT=out, RUST_BACKTRACE="0")
    env.update(env_extra or {})
    launcher = exe
    if strace:
        # system-call log of the whole process tree (file names only for the requested calls)
        launcher = "strace -f -qq -o %s -e trace=%s %s" % (os.path.join(d, "strace.log"), strace, exe)
    setup = NS_SETUP_PRIVATE
    if etc_group:
        # a private /etc/group (bind mount inside the run's mount namespace): extra members for existing or new groups
        lines, seen_g = [], set()
        with open("/etc/group") as f:
            for ln in f.read().splitlines():
                fl = ln.split(":")
                if len(fl) >= 4 and fl[0] in etc_group:
                    seen_g.add(fl[0])
                    fl[3] = ",".join([x for x in fl[3].split(",") if x] + list(etc_group[fl[0]]))
                    ln = ":".join(fl)
                lines.append(ln)
        for k, (g, mem) in enumerate(sorted(etc_group.items())):
            if g not in seen_g:
                lines.append("%s:x:%d:%s" % (g, 61000 + k, ",".join(mem)))
        gp = os.path.join(d, "etc_group")
        with open(gp, "w") as f:
            f.write("\n".join(lines) + "\n")
        setup += " && mount --bind %s /etc/group" % gp
    cmd = NS + ["sh", "-c", setup + " && exec " + launcher]
    try:
        p = subprocess.run(cmd, env=env, cwd=d, stdout=subprocess.PIPE, stderr=subprocess.STDOUT, timeout=timeout,
                           text=True, errors="replace")
    except subprocess.TimeoutExpired:
        raise util.ToolError("rig run %s timed out after %ss" % (name, timeout))
    # the process exits while background tasks may still be emitting: everything after the Done event (possibly a
    # torn last line) is ignored
    ev = []
    if os.path.exists(out):
        with open(out, errors="replace") as f:
            for line in f:
                line = line.strip()
                if not line:
                    continue
                try:
                    e = json.loads(line)
                except json.JSONDecodeError:
                    if any(x.get("e") == "Done" for x in ev):
                        break
                    raise util.ToolError("rig run %s: unparsable trace line before Done: %s" % (name, line[:120]))
                ev.append(e)
    if keep_output:
        with open(os.path.join(d, "stdout.txt"), "w") as f:
            f.write(p.stdout or "")
    if p.returncode not in (0,):
        raise util.ToolError("rig run %s failed rc=%s:\n%s" % (name, p.returncode, p.stdout[-3000:]))
    if not any(e.get("e") == "Done" for e in ev):
        raise util.ToolError("rig run %s: trace incomplete (%d events)\n%s" % (name, len(ev), p.stdout[-2000:]))
    return ev, d, p.stdout


def fn_table(cases, name="fn", *, timeout=600, bindir=None):
    """Evaluate function-table cases (list of dicts) with the real functions; returns list of results."""
    d, exe = prepare(name, bindir)
    inp = "\n".join(json.dumps(c) for c in cases) + "\n"
    outp = os.path.join(d, "results.ndjson")
    env = dict(os.environ, VERIF_CMD="fn-table", VERIF_OUT=outp, RUST_BACKTRACE="0")
    try:
        p = subprocess.run([exe], env=env, cwd=d, input=inp, stdout=subprocess.DEVNULL, stderr=subprocess.PIPE,
                           timeout=timeout, text=True, errors="replace")
    except subprocess.TimeoutExpired:
        raise util.ToolError("fn-table %s timed out" % name)
    if p.returncode != 0:
        raise util.ToolError("fn-table %s failed rc=%s: %s" % (name, p.returncode, p.stderr[-2000:]))
    res = util.read_ndjson(outp)
    if len(res) != len(cases):
        raise util.ToolError("fn-table %s: %d results for %d cases" % (name, len(res), len(cases)))
    return res
